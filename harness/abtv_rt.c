/* abtv_rt.c -- see abtv_rt.h.  Linked with
 *   -Wl,--wrap=pthread_create,--wrap=pthread_join,--wrap=pthread_mutex_lock,
 *   --wrap=pthread_mutex_unlock,--wrap=pthread_mutex_init,--wrap=pthread_mutex_destroy,
 *   --wrap=pthread_cond_wait,--wrap=pthread_cond_timedwait,--wrap=pthread_cond_signal,
 *   --wrap=pthread_cond_broadcast,--wrap=pthread_barrier_init,--wrap=pthread_barrier_wait,
 *   --wrap=syscall,--wrap=clock_gettime,--wrap=nanosleep,
 *   --wrap=malloc,--wrap=calloc,--wrap=realloc,--wrap=posix_memalign,--wrap=free,
 *   --wrap=mmap,--wrap=munmap
 */
#define _GNU_SOURCE
#include "abtv_rt.h"
#include <errno.h>
#include <fcntl.h>
#include <limits.h>
#include <linux/futex.h>
#include <signal.h>
#include <stdarg.h>
#include <stdio.h>
#include <stdlib.h>
#include <string.h>
#include <sys/mman.h>
#include <sys/syscall.h>
#include <time.h>
#include <unistd.h>

extern void (*ABTD_verif_hook)(const void *, int);
#define OP_LOAD 1
#define OP_STORE 2
#define OP_RMW 3
#define OP_CAS 4
#define OP_SYNC 5 /* virtualised kernel operation */
#define OP_POINT 6 /* scheduling point requested by the driver: neither polling nor progress */

/* ------------------------------------------------------------------ real symbols */
int __real_pthread_create(pthread_t *, const pthread_attr_t *, void *(*)(void *), void *);
int __real_pthread_join(pthread_t, void **);
int __real_pthread_mutex_lock(pthread_mutex_t *);
int __real_pthread_mutex_unlock(pthread_mutex_t *);
int __real_pthread_mutex_init(pthread_mutex_t *, const pthread_mutexattr_t *);
int __real_pthread_mutex_destroy(pthread_mutex_t *);
int __real_pthread_cond_wait(pthread_cond_t *, pthread_mutex_t *);
int __real_pthread_cond_timedwait(pthread_cond_t *, pthread_mutex_t *, const struct timespec *);
int __real_pthread_cond_signal(pthread_cond_t *);
int __real_pthread_cond_init(pthread_cond_t *, const pthread_condattr_t *);
int __real_pthread_cond_broadcast(pthread_cond_t *);
int __real_pthread_barrier_init(pthread_barrier_t *, const pthread_barrierattr_t *, unsigned);
int __real_pthread_barrier_wait(pthread_barrier_t *);
long __real_syscall(long, ...);
int __real_clock_gettime(clockid_t, struct timespec *);
int __real_nanosleep(const struct timespec *, struct timespec *);
void *__real_malloc(size_t);
void *__real_calloc(size_t, size_t);
void *__real_realloc(void *, size_t);
int __real_posix_memalign(void **, size_t, size_t);
void __real_free(void *);
void *__real_mmap(void *, size_t, int, int, int, off_t);
int __real_munmap(void *, size_t);

/* ------------------------------------------------------------------ state */
enum { ST_NONE, ST_RUN, ST_READY, ST_BLOCKED, ST_DEAD };
enum { BK_NONE, BK_FUTEX, BK_MUTEX, BK_COND, BK_JOIN, BK_BARRIER, BK_SLEEP };
typedef struct {
    int st, bkind, timedout;
    const void *key;
    int64_t deadline; /* virtual ns, -1 = none */
    int64_t polldl;   /* a polling actor waits for this (virtual) time, 0 = none */
    uint64_t idle;    /* loads since the last progress step of anybody */
    uint64_t epoch;
    int stall_at;            /* hooks until the actor is held back (0 = not armed) */
    uint64_t stall_steps;    /* for how many global steps */
    uint64_t stalled_until;  /* not eligible before this step (unless nobody else is) */
    pthread_cond_t cv;
    pthread_t th;
} actor_t;
#define MAXA 256
static actor_t A[MAXA];
static int nact, holder = -1;
static pthread_mutex_t M = PTHREAD_MUTEX_INITIALIZER;
static pthread_cond_t started = PTHREAD_COND_INITIALIZER;
static __thread int me = -1;
static int g_mode = ABTV_MODE_OFF, g_active; /* g_active: between run_begin and run_end */
static uint64_t g_steps, g_budget = 3000000, g_epoch, g_last_progress;
static uint64_t g_sched_rng, g_drv_rng;
static int g_sw_permille = 1000;
/* in a third of the runs an arbitrary actor is held back for a long while at an arbitrary hooked
 * operation, a few times per run: opens windows that are only a few instructions wide */
static int g_rs_mode;
static uint64_t g_rs_next;
static int64_t g_vclock, g_tick = 1000;
static uint64_t IDLE_T = 64, STUCK_T = 1500;
static int g_perturb;
static const char *g_scn = "";
static uint64_t g_seed;

#define LOCK() __real_pthread_mutex_lock(&M)
#define UNLOCK() __real_pthread_mutex_unlock(&M)
#define SERIAL() (g_mode == ABTV_MODE_SERIAL && g_active && me >= 0)

static uint64_t xs(uint64_t *s)
{
    uint64_t x = *s;
    x ^= x << 13;
    x ^= x >> 7;
    x ^= x << 17;
    return *s = x;
}
uint64_t abtv_rand(void) { return xs(&g_drv_rng) >> 11; }
uint64_t abtv_steps(void) { return g_steps; }
int abtv_mode(void) { return g_mode; }
int abtv_actor(void) { return me; }

/* ------------------------------------------------------------------ event log */
static char *g_buf;
static size_t g_len, g_cap;
static uint64_t g_q;
static int g_out = -1;
static volatile int g_loglock;
static void loglock(void)
{
    while (__sync_lock_test_and_set(&g_loglock, 1))
        ;
}
static void logunlock(void) { __sync_lock_release(&g_loglock); }
static void ensure(size_t n)
{
    if (g_len + n + 1 > g_cap) {
        size_t c = g_cap ? g_cap * 2 : (1 << 20);
        while (c < g_len + n + 1)
            c *= 2;
        g_buf = __real_realloc(g_buf, c);
        g_cap = c;
    }
}
void abtv_flush(void)
{
    loglock();
    if (g_out >= 0 && g_len) {
        size_t off = 0;
        while (off < g_len) {
            ssize_t w = write(g_out, g_buf + off, g_len - off);
            if (w <= 0)
                break;
            off += (size_t)w;
        }
    }
    g_len = 0;
    logunlock();
}
void abtv_ev(const char *fmt, ...)
{
    char tmp[1024];
    va_list ap;
    va_start(ap, fmt);
    int n = vsnprintf(tmp, sizeof tmp, fmt, ap);
    va_end(ap);
    if (n < 0)
        return;
    if (n >= (int)sizeof tmp)
        n = sizeof tmp - 1;
    loglock();
    ensure((size_t)n + 64);
    g_len += (size_t)sprintf(g_buf + g_len, "{\"q\":%llu,\"a\":%d,", (unsigned long long)++g_q, me);
    memcpy(g_buf + g_len, tmp, (size_t)n);
    g_len += (size_t)n;
    g_buf[g_len++] = '}';
    g_buf[g_len++] = '\n';
    logunlock();
}

void abtv_fail(const char *why, int code)
{
    static volatile int once;
    if (__sync_lock_test_and_set(&once, 1))
        for (;;)
            pause();
    g_loglock = 0; /* we may have died inside the log */
    abtv_ev("\"e\":\"End\",\"why\":\"%s\",\"steps\":%llu", why, (unsigned long long)g_steps);
    abtv_flush();
    _exit(code);
}

/* ------------------------------------------------------------------ crash handler */
static void on_signal(int sig)
{
    char w[32];
    snprintf(w, sizeof w, "crash:sig%d", sig);
    abtv_fail(w, ABTV_EXIT_CRASH);
}

/* ------------------------------------------------------------------ serializer */
static int64_t min_deadline(void)
{
    int64_t d = -1;
    /* Deadlines more than 50 (virtual) seconds away are what the scenarios use for "never": time
     * does not leap to them (a wait that could only end that way is a hang, and is reported as one). */
    const int64_t far = 50LL * 1000000000LL;
    for (int i = 0; i < nact; i++)
        if (A[i].st == ST_BLOCKED && A[i].deadline >= 0 && A[i].deadline - g_vclock <= far && (d < 0 || A[i].deadline < d))
            d = A[i].deadline;
    /* a runnable actor that polls the clock for a certain time: time must not leap past it
     * (until that actor has read the clock again) */
    for (int i = 0; i < nact; i++)
        if ((A[i].st == ST_READY || A[i].st == ST_RUN) && A[i].polldl && (d < 0 || A[i].polldl < d))
            d = A[i].polldl;
    return d;
}
static int fire_timers(void)
{
    int n = 0;
    for (int i = 0; i < nact; i++)
        if (A[i].st == ST_BLOCKED && A[i].deadline >= 0 && A[i].deadline <= g_vclock) {
            A[i].st = ST_READY;
            A[i].timedout = 1;
            A[i].deadline = -1;
            n++;
        }
    return n;
}
static uint64_t idle_of(int i) { return A[i].epoch == g_epoch ? A[i].idle : 0; }

/* choose the next actor; the caller (me) is a candidate iff include_me */
static int pick(int include_me)
{
    for (int round = 0;; round++) {
        int c[MAXA], n = 0, ci[MAXA], ni = 0;
        fire_timers();
        int cs[MAXA], ns = 0; /* held back on purpose (abtv_stall_within) */
        for (int i = 0; i < nact; i++) {
            int ok = (A[i].st == ST_READY) || (i == me && include_me);
            if (!ok)
                continue;
            if (A[i].stalled_until > g_steps)
                cs[ns++] = i;
            else if (idle_of(i) > IDLE_T)
                ci[ni++] = i;
            else
                c[n++] = i;
        }
        if (n)
            return c[xs(&g_sched_rng) % (uint64_t)n];
        if (ns && !ni) {
            /* only held-back actors can run: release them */
            for (int k = 0; k < ns; k++)
                A[cs[k]].stalled_until = 0;
            return cs[xs(&g_sched_rng) % (uint64_t)ns];
        }
        if (ns && ni) {
            /* the others are only polling: once they have polled for a while the
             * held-back actor is released */
            int allpoll = 1;
            for (int k = 0; k < ni; k++)
                if (idle_of(ci[k]) < 4 * IDLE_T)
                    allpoll = 0;
            if (allpoll) {
                for (int k = 0; k < ns; k++)
                    A[cs[k]].stalled_until = 0;
                return cs[xs(&g_sched_rng) % (uint64_t)ns];
            }
            /* until then the pollers go on polling: (virtual) time must not leap to the next
             * deadline just because the only actor with real work is being held back */
            int best = ci[0];
            for (int k = 1; k < ni; k++)
                if (idle_of(ci[k]) < idle_of(best))
                    best = ci[k];
            return best;
        }
        /* everybody runnable is polling (or nobody is runnable): let time pass */
        int64_t d = min_deadline();
        if (d >= 0) {
            if (d > g_vclock) {
                if (getenv("ABTV_DEBUG_LEAP")) {
                    fprintf(stderr, "leap %lld -> %lld me=%d\n", (long long)g_vclock, (long long)d, me);
                    for (int i = 0; i < nact; i++)
                        fprintf(stderr, "  actor %d st=%d dl=%lld polldl=%lld idle=%llu\n", i, A[i].st, (long long)A[i].deadline, (long long)A[i].polldl,
                                (unsigned long long)idle_of(i));
                }
                g_vclock = d;
            }
            if (fire_timers())
                continue;
        }
        if (ni) {
            /* stuck iff every runnable actor has polled long enough without
             * any progress step by anybody and no timer is pending */
            int all = 1;
            for (int k = 0; k < ni; k++)
                if (idle_of(ci[k]) < STUCK_T)
                    all = 0;
            if (all && g_steps - g_last_progress > STUCK_T * (uint64_t)ni)
                abtv_fail("stuck", ABTV_EXIT_STUCK);
            /* prefer the least-polled one so that all reach the threshold */
            int best = ci[0];
            for (int k = 1; k < ni; k++)
                if (idle_of(ci[k]) < idle_of(best))
                    best = ci[k];
            if (xs(&g_sched_rng) % 4 == 0)
                return ci[xs(&g_sched_rng) % (uint64_t)ni];
            return best;
        }
        abtv_fail("deadlock", ABTV_EXIT_DEADLOCK);
    }
}
static void handoff(int next)
{
    holder = next;
    __real_pthread_cond_signal(&A[next].cv);
    while (holder != me)
        __real_pthread_cond_wait(&A[me].cv, &M);
    A[me].st = ST_RUN;
}
static void progress(void)
{
    g_epoch++;
    g_last_progress = g_steps;
}
static __thread int t_noswitch;
void abtv_atomic_begin(void) { t_noswitch++; }
void abtv_atomic_end(void) { t_noswitch--; }
static void point_locked(int op, int force)
{
    g_steps++;
    if (g_steps > g_budget)
        abtv_fail("budget", ABTV_EXIT_BUDGET);
    if ((g_steps & 31) == 0) {
        /* virtual time also passes with activity, so that kernel-level timed
         * waits expire even if somebody keeps the system busy */
        g_vclock += g_tick;
        fire_timers();
    }
    if (op == OP_POINT) {
        /* nothing to account */
    } else if (op == OP_LOAD || op == OP_SYNC) {
        if (A[me].epoch != g_epoch) {
            A[me].epoch = g_epoch;
            A[me].idle = 0;
        }
        A[me].idle++;
    } else {
        progress();
    }
    if (nact == 1 || t_noswitch > 0)
        return;
    if (g_rs_mode && g_steps >= g_rs_next) {
        A[me].stalled_until = g_steps + 30 + xs(&g_sched_rng) % 800;
        g_rs_next = g_steps + 200 + xs(&g_sched_rng) % 4000;
        force = 1;
    }
    if (A[me].stall_at > 0 && --A[me].stall_at == 0) {
        A[me].stalled_until = g_steps + A[me].stall_steps;
        force = 1;
    }
    if (A[me].stalled_until > g_steps)
        force = 1;
    int sw = force || idle_of(me) > IDLE_T || (int)(xs(&g_sched_rng) % 1000) < g_sw_permille;
    if (!sw)
        return;
    int nx = pick(1);
    if (nx != me) {
        A[me].st = ST_READY;
        handoff(nx);
    }
}
static __thread uint64_t t_rng;
/* a watched variable: an actor that is about to LOAD it is held back for a while
 * (with some probability), so that the others run through the window between
 * this load and whatever the actor read just before */
static const void *volatile g_watch_addr;
static int g_watch_steps, g_watch_permille, g_watch_owner = -1, g_watch_after;
static volatile int g_watch_hits;
void abtv_watch_load(const void *addr, int steps, int permille)
{
    g_watch_addr = addr;
    g_watch_steps = steps;
    g_watch_permille = permille;
    g_watch_owner = me;
    g_watch_after = 0;
    g_watch_hits = 0;
}
/* how often the watch has held somebody back since it was set */
int abtv_watch_hits(void)
{
    return g_watch_hits;
}
/* the same, but the loader is held back at one of the `within` hooked operations that follow
 * the load (it has read the watched word and acts on the value while the others run) */
void abtv_watch_load_after(const void *addr, int within, int steps, int permille)
{
    abtv_watch_load(addr, steps, permille);
    g_watch_after = within > 0 ? within : 1;
}
static void hook(const void *addr, int op)
{
    if (g_mode == ABTV_MODE_SERIAL) {
        if (!g_active || me < 0)
            return;
        LOCK();
        if (addr == g_watch_addr && addr && op == OP_LOAD && me != g_watch_owner && A[me].stalled_until <= g_steps &&
            (int)(xs(&g_sched_rng) % 1000) < g_watch_permille) {
            g_watch_hits++;
            if (g_watch_after) {
                A[me].stall_at = 2 + (int)(xs(&g_sched_rng) % (uint64_t)g_watch_after);
                A[me].stall_steps = (uint64_t)g_watch_steps;
            } else
                A[me].stalled_until = g_steps + (uint64_t)g_watch_steps;
        }
        /* 7 = after a store has been performed: a scheduling point that is neither progress nor polling */
        point_locked(op == 7 ? OP_POINT : op, 0);
        UNLOCK();
    } else if (g_perturb) {
        if (!t_rng)
            t_rng = (uint64_t)(uintptr_t)&t_rng * 0x9E3779B97F4A7C15ULL + g_seed + 1;
        uint64_t r = xs(&t_rng);
        if ((r & 63) == 0)
            sched_yield();
        else if ((r & 1023) == 1) {
            struct timespec ts = { 0, (long)(r >> 40) % 20000 };
            __real_nanosleep(&ts, NULL);
        }
    }
}
/* Hold the calling actor back at one of its next `maxhooks` hooked operations
 * (chosen by the seeded scheduler RNG) for `steps` global steps, so that the
 * other actors run through a window that is only a few instructions wide. */
void abtv_stall_within(int maxhooks, int steps)
{
    if (!SERIAL() || maxhooks <= 0)
        return;
    LOCK();
    A[me].stall_at = 1 + (int)(xs(&g_sched_rng) % (uint64_t)maxhooks);
    A[me].stall_steps = (uint64_t)steps;
    UNLOCK();
}
void abtv_point(void)
{
    if (SERIAL()) {
        LOCK();
        point_locked(OP_POINT, 0);
        UNLOCK();
    }
}
void abtv_idle_hint(void)
{
    if (SERIAL()) {
        LOCK();
        point_locked(OP_LOAD, 1);
        UNLOCK();
    } else
        sched_yield();
}
/* block the calling actor; returns 1 if woken by its deadline */
static int block_on(int kind, const void *key, int64_t deadline)
{
    A[me].st = ST_BLOCKED;
    A[me].bkind = kind;
    A[me].key = key;
    A[me].deadline = deadline;
    A[me].timedout = 0;
    g_steps++;
    int nx = pick(0);
    if (nx != me)
        handoff(nx);
    else
        A[me].st = ST_RUN;
    A[me].bkind = BK_NONE;
    A[me].key = NULL;
    A[me].deadline = -1;
    return A[me].timedout;
}
static int wake(int kind, const void *key, int max)
{
    int w[MAXA], n = 0;
    for (int i = 0; i < nact; i++)
        if (A[i].st == ST_BLOCKED && A[i].bkind == kind && A[i].key == key)
            w[n++] = i;
    int woken = 0;
    while (n && woken < max) {
        int k = (int)(xs(&g_sched_rng) % (uint64_t)n);
        A[w[k]].st = ST_READY;
        A[w[k]].deadline = -1;
        w[k] = w[--n];
        woken++;
    }
    if (woken)
        progress();
    return woken;
}

/* ------------------------------------------------------------------ threads */
struct tramp {
    void *(*f)(void *);
    void *a;
    int id;
};
static void *tramp(void *p)
{
    struct tramp t = *(struct tramp *)p;
    __real_free(p);
    me = t.id;
    LOCK();
    A[me].st = ST_READY;
    __real_pthread_cond_broadcast(&started);
    while (holder != me)
        __real_pthread_cond_wait(&A[me].cv, &M);
    A[me].st = ST_RUN;
    UNLOCK();
    void *r = t.f(t.a);
    LOCK();
    A[me].st = ST_DEAD;
    wake(BK_JOIN, &A[me], INT_MAX);
    progress();
    int dying = me;
    int nx = pick(0);
    holder = nx;
    __real_pthread_cond_signal(&A[nx].cv);
    (void)dying;
    me = -1;
    UNLOCK();
    return r;
}
static int should_fail(void);
int __wrap_pthread_create(pthread_t *th, const pthread_attr_t *at, void *(*f)(void *), void *a)
{
    if (should_fail())
        return EAGAIN;
    if (!SERIAL())
        return __real_pthread_create(th, at, f, a);
    struct tramp *t = __real_malloc(sizeof *t);
    t->f = f;
    t->a = a;
    LOCK();
    if (nact >= MAXA)
        abtv_fail("broken:too-many-actors", ABTV_EXIT_BROKEN);
    int id = t->id = nact++;
    memset(&A[id], 0, sizeof(actor_t));
    A[id].st = ST_NONE;
    A[id].deadline = -1;
    __real_pthread_cond_init(&A[id].cv, NULL);
    UNLOCK();
    int r = __real_pthread_create(th, at, tramp, t);
    if (r) {
        LOCK();
        A[id].st = ST_DEAD;
        UNLOCK();
        __real_free(t);
        return r;
    }
    LOCK();
    A[id].th = *th;
    while (A[id].st == ST_NONE)
        __real_pthread_cond_wait(&started, &M);
    progress();
    point_locked(OP_SYNC, 0);
    UNLOCK();
    return 0;
}
int __wrap_pthread_join(pthread_t th, void **ret)
{
    if (SERIAL()) {
        LOCK();
        int id = -1;
        for (int i = 0; i < nact; i++)
            if (A[i].st != ST_NONE && pthread_equal(A[i].th, th))
                id = i; /* last one wins: pthread_t values may be reused */
        if (id >= 0)
            while (A[id].st != ST_DEAD)
                block_on(BK_JOIN, &A[id], -1);
        UNLOCK();
    }
    return __real_pthread_join(th, ret);
}

/* ------------------------------------------------------------------ virtual mutex / cond / barrier */
#define NVM 512
static struct { const void *addr; int owner; unsigned count, arrived; } VM[NVM];
static int vm_find(const void *addr, int create)
{
    unsigned h = (unsigned)(((uintptr_t)addr >> 3) * 2654435761u) % NVM;
    for (int k = 0; k < NVM; k++) {
        unsigned i = (h + (unsigned)k) % NVM;
        if (VM[i].addr == addr)
            return (int)i;
        if (!VM[i].addr) {
            if (!create)
                return -1;
            VM[i].addr = addr;
            VM[i].owner = -1;
            VM[i].count = VM[i].arrived = 0;
            return (int)i;
        }
    }
    abtv_fail("broken:vm-table-full", ABTV_EXIT_BROKEN);
}
static void vm_reset(void) { memset(VM, 0, sizeof VM); }
static void vlock(pthread_mutex_t *m)
{
    int i = vm_find(m, 1);
    while (VM[i].owner != -1) {
        if (VM[i].owner == me)
            abtv_fail("broken:relock", ABTV_EXIT_BROKEN);
        block_on(BK_MUTEX, m, -1);
    }
    VM[i].owner = me;
}
static void vunlock(pthread_mutex_t *m)
{
    int i = vm_find(m, 1);
    VM[i].owner = -1;
    wake(BK_MUTEX, m, INT_MAX);
}
int __wrap_pthread_cond_init(pthread_cond_t *c, const pthread_condattr_t *a)
{
    if (should_fail())
        return ENOMEM;
    return __real_pthread_cond_init(c, a);
}
int __wrap_pthread_mutex_init(pthread_mutex_t *m, const pthread_mutexattr_t *a)
{
    if (should_fail())
        return ENOMEM;
    if (SERIAL()) {
        LOCK();
        int i = vm_find(m, 1);
        VM[i].owner = -1;
        UNLOCK();
    }
    return __real_pthread_mutex_init(m, a);
}
int __wrap_pthread_mutex_destroy(pthread_mutex_t *m)
{
    if (SERIAL()) {
        LOCK();
        int i = vm_find(m, 1);
        VM[i].owner = -1;
        UNLOCK();
    }
    return __real_pthread_mutex_destroy(m);
}
int __wrap_pthread_mutex_lock(pthread_mutex_t *m)
{
    if (!SERIAL())
        return __real_pthread_mutex_lock(m);
    LOCK();
    point_locked(OP_SYNC, 0);
    vlock(m);
    UNLOCK();
    return 0;
}
int __wrap_pthread_mutex_unlock(pthread_mutex_t *m)
{
    if (!SERIAL())
        return __real_pthread_mutex_unlock(m);
    LOCK();
    vunlock(m);
    point_locked(OP_SYNC, 0);
    UNLOCK();
    return 0;
}
static int64_t ts2ns(const struct timespec *ts) { return (int64_t)ts->tv_sec * 1000000000LL + ts->tv_nsec; }
static int vcond_wait(pthread_cond_t *c, pthread_mutex_t *m, int64_t deadline)
{
    LOCK();
    vunlock(m);
    int to = 0;
    if (deadline >= 0 && deadline <= g_vclock) {
        to = 1;
        point_locked(OP_SYNC, 0);
    } else {
        to = block_on(BK_COND, c, deadline);
    }
    vlock(m);
    UNLOCK();
    return to ? ETIMEDOUT : 0;
}
int __wrap_pthread_cond_wait(pthread_cond_t *c, pthread_mutex_t *m)
{
    if (!SERIAL())
        return __real_pthread_cond_wait(c, m);
    return vcond_wait(c, m, -1);
}
int __wrap_pthread_cond_timedwait(pthread_cond_t *c, pthread_mutex_t *m, const struct timespec *ts)
{
    if (!SERIAL())
        return __real_pthread_cond_timedwait(c, m, ts);
    return vcond_wait(c, m, ts2ns(ts));
}
int __wrap_pthread_cond_signal(pthread_cond_t *c)
{
    if (!SERIAL())
        return __real_pthread_cond_signal(c);
    LOCK();
    wake(BK_COND, c, 1);
    point_locked(OP_SYNC, 0);
    UNLOCK();
    return 0;
}
int __wrap_pthread_cond_broadcast(pthread_cond_t *c)
{
    if (!SERIAL())
        return __real_pthread_cond_broadcast(c);
    LOCK();
    wake(BK_COND, c, INT_MAX);
    point_locked(OP_SYNC, 0);
    UNLOCK();
    return 0;
}
int __wrap_pthread_barrier_init(pthread_barrier_t *b, const pthread_barrierattr_t *a, unsigned n)
{
    if (should_fail())
        return ENOMEM;
    if (SERIAL()) {
        LOCK();
        int i = vm_find(b, 1);
        VM[i].count = n;
        VM[i].arrived = 0;
        UNLOCK();
    }
    return __real_pthread_barrier_init(b, a, n);
}
int __wrap_pthread_barrier_wait(pthread_barrier_t *b)
{
    if (!SERIAL())
        return __real_pthread_barrier_wait(b);
    LOCK();
    int i = vm_find(b, 0);
    if (i < 0 || VM[i].count == 0)
        abtv_fail("broken:barrier-not-virtual", ABTV_EXIT_BROKEN);
    int r = 0;
    point_locked(OP_SYNC, 0);
    if (++VM[i].arrived == VM[i].count) {
        VM[i].arrived = 0;
        wake(BK_BARRIER, b, INT_MAX);
        progress();
        r = PTHREAD_BARRIER_SERIAL_THREAD;
    } else {
        block_on(BK_BARRIER, b, -1);
    }
    UNLOCK();
    return r;
}

/* ------------------------------------------------------------------ futex, clock, sleep */
long __wrap_syscall(long n, long a1, long a2, long a3, long a4, long a5, long a6)
{
    if (n != SYS_futex || !SERIAL())
        return __real_syscall(n, a1, a2, a3, a4, a5, a6);
    int op = (int)a2 & 127;
    int *addr = (int *)a1;
    if (op == FUTEX_WAIT) {
        LOCK();
        point_locked(OP_SYNC, 0);
        if (*(volatile int *)addr != (int)a3) {
            UNLOCK();
            errno = EAGAIN;
            return -1;
        }
        int64_t dl = -1;
        if (a4) {
            dl = g_vclock + ts2ns((const struct timespec *)a4);
        }
        int to = block_on(BK_FUTEX, addr, dl);
        UNLOCK();
        if (to) {
            errno = ETIMEDOUT;
            return -1;
        }
        return 0;
    } else if (op == FUTEX_WAKE) {
        LOCK();
        int w = wake(BK_FUTEX, addr, (int)a3 < 0 ? INT_MAX : (int)a3);
        point_locked(OP_SYNC, 0);
        UNLOCK();
        return w;
    }
    abtv_fail("broken:futex-op", ABTV_EXIT_BROKEN);
}
int __wrap_clock_gettime(clockid_t id, struct timespec *ts)
{
    if (!SERIAL())
        return __real_clock_gettime(id, ts);
    LOCK();
    /* an actor that only polls (no progress for a while) and keeps reading the
     * clock is in a time-bounded spin: let its time pass quickly, so that the
     * spin ends long before the polling could be taken for a stuck run */
    g_vclock += (me >= 0 && idle_of(me) > IDLE_T) ? 1000 * g_tick : g_tick;
    if (me >= 0 && A[me].polldl && A[me].polldl <= g_vclock)
        A[me].polldl = 0;
    int64_t v = g_vclock;
    UNLOCK();
    ts->tv_sec = v / 1000000000LL;
    ts->tv_nsec = v % 1000000000LL;
    return 0;
}
int __wrap_nanosleep(const struct timespec *req, struct timespec *rem)
{
    if (!SERIAL())
        return __real_nanosleep(req, rem);
    LOCK();
    int64_t d = ts2ns(req);
    if (d < g_tick)
        d = g_tick;
    /* sleeping is polling: it never counts as progress */
    if (A[me].epoch != g_epoch) {
        A[me].epoch = g_epoch;
        A[me].idle = 0;
    }
    A[me].idle += 8;
    block_on(BK_SLEEP, NULL, g_vclock + d);
    UNLOCK();
    if (rem)
        rem->tv_sec = rem->tv_nsec = 0;
    return 0;
}
int64_t abtv_now_ns(void)
{
    if (g_mode != ABTV_MODE_SERIAL) {
        struct timespec ts;
        __real_clock_gettime(CLOCK_REALTIME, &ts);
        return ts2ns(&ts);
    }
    return g_vclock;
}
void abtv_clock_advance_ns(int64_t ns)
{
    if (!SERIAL())
        return;
    LOCK();
    g_vclock += ns;
    fire_timers();
    point_locked(OP_SYNC, 0);
    UNLOCK();
}
void abtv_clock_tick_ns(int64_t ns) { g_tick = ns; }
void abtv_poll_until(int64_t abs_ns)
{
    if (!SERIAL() || me < 0)
        return;
    LOCK();
    A[me].polldl = abs_ns;
    UNLOCK();
}

/* ------------------------------------------------------------------ allocation ledger */
#define LBITS 16
#define LSZ (1u << LBITS)
static struct { void *p; size_t sz; int kind; } L[LSZ];
static long l_live, l_err, l_allocs, l_bytes;
static int l_track, l_log;
static long f_kth, f_seen;
static int f_armed, f_fired;
static pthread_t f_owner; /* faults are injected into the arming thread only */
static volatile int l_lock;
static void ll(void)
{
    while (__sync_lock_test_and_set(&l_lock, 1))
        ;
}
static void lu(void) { __sync_lock_release(&l_lock); }
static unsigned lh(void *p) { return (unsigned)(((uintptr_t)p >> 4) * 2654435761u) >> (32 - LBITS); }
static void l_add(void *p, size_t sz, int kind)
{
    if (!l_track || !p)
        return;
    ll();
    unsigned h = lh(p);
    for (unsigned k = 0; k < LSZ; k++) {
        unsigned i = (h + k) & (LSZ - 1);
        if (!L[i].p || L[i].p == (void *)1) {
            L[i].p = p;
            L[i].sz = sz;
            L[i].kind = kind;
            l_live++;
            l_bytes += (long)sz;
            l_allocs++;
            lu();
            if (l_log)
                abtv_ev("\"e\":\"Alloc\",\"k\":%d,\"blk\":%u,\"size\":%zu", kind, i, sz);
            return;
        }
    }
    lu();
    abtv_fail("broken:ledger-full", ABTV_EXIT_BROKEN);
}
/* returns 1 if known (and removes), 0 if unknown */
static int l_del(void *p, int kind)
{
    if (!l_track || !p)
        return 1;
    ll();
    unsigned h = lh(p);
    for (unsigned k = 0; k < LSZ; k++) {
        unsigned i = (h + k) & (LSZ - 1);
        if (!L[i].p)
            break;
        if (L[i].p == p && L[i].kind == kind) {
            L[i].p = (void *)1;
            l_live--;
            l_bytes -= (long)L[i].sz;
            lu();
            if (l_log)
                abtv_ev("\"e\":\"Free\",\"k\":%d,\"blk\":%u,\"known\":1", kind, i);
            return 1;
        }
    }
    l_err++;
    lu();
    abtv_ev("\"e\":\"Free\",\"k\":%d,\"blk\":-1,\"known\":0", kind);
    return 0;
}
void abtv_ledger_reset(void)
{
    ll();
    memset(L, 0, sizeof L);
    l_live = l_err = l_allocs = l_bytes = 0;
    lu();
}
long abtv_ledger_live(void) { return l_live; }
long abtv_ledger_bytes(void) { return l_bytes; }
long abtv_ledger_errors(void) { return l_err; }
long abtv_ledger_allocs(void) { return l_allocs; }
void abtv_ledger_track(int on) { l_track = on; }
void abtv_ledger_log(int on) { l_log = on; }
void abtv_fault_arm(long kth)
{
    f_kth = kth;
    f_seen = 0;
    f_fired = 0;
    f_owner = pthread_self();
    f_armed = 1;
}
long abtv_fault_disarm(void)
{
    f_armed = 0;
    return f_seen;
}
int abtv_fault_fired(void) { return f_fired; }
static int should_fail(void)
{
    if (!f_armed || !pthread_equal(f_owner, pthread_self()))
        return 0;
    long s = __sync_add_and_fetch(&f_seen, 1);
    if (f_kth && s == f_kth) {
        f_fired = 1;
        return 1;
    }
    return 0;
}
void *__wrap_malloc(size_t n)
{
    if (should_fail()) {
        errno = ENOMEM;
        return NULL;
    }
    void *p = __real_malloc(n);
    l_add(p, n, 0);
    return p;
}
void *__wrap_calloc(size_t a, size_t b)
{
    if (should_fail()) {
        errno = ENOMEM;
        return NULL;
    }
    void *p = __real_calloc(a, b);
    l_add(p, a * b, 0);
    return p;
}
void *__wrap_realloc(void *q, size_t n)
{
    if (should_fail()) {
        errno = ENOMEM;
        return NULL;
    }
    if (q && l_track && !l_del(q, 0)) {
        abtv_fail("crash:realloc-unknown", ABTV_EXIT_CRASH);
    }
    void *p = __real_realloc(q, n);
    l_add(p, n, 0);
    return p;
}
int __wrap_posix_memalign(void **pp, size_t al, size_t n)
{
    if (should_fail())
        return ENOMEM;
    int r = __real_posix_memalign(pp, al, n);
    if (!r)
        l_add(*pp, n, 0);
    return r;
}
void __wrap_free(void *p)
{
    if (!p)
        return;
    if (l_track) {
        if (!l_del(p, 0)) {
            /* freeing a pointer the ledger never handed out (or twice): the
             * real free would corrupt or abort; report deterministically. */
            abtv_fail("crash:invalid-free", ABTV_EXIT_CRASH);
        }
    }
    __real_free(p);
}
void *__wrap_mmap(void *a, size_t n, int prot, int fl, int fd, off_t off)
{
    if (should_fail()) {
        errno = ENOMEM;
        return MAP_FAILED;
    }
    void *p = __real_mmap(a, n, prot, fl, fd, off);
    if (p != MAP_FAILED)
        l_add(p, n, 1);
    return p;
}
int __wrap_munmap(void *p, size_t n)
{
    if (l_track)
        l_del(p, 1);
    return __real_munmap(p, n);
}

/* ------------------------------------------------------------------ life cycle */
static void *watchdog(void *p)
{
    (void)p;
    uint64_t last = 0;
    int same = 0;
    for (;;) {
        struct timespec ts = { 1, 0 };
        __real_nanosleep(&ts, NULL);
        if (!g_active || g_mode != ABTV_MODE_SERIAL) {
            same = 0;
            continue;
        }
        uint64_t now = g_steps + (g_q << 32);
        if (now == last) {
            if (++same >= 8)
                abtv_fail("crash:hang-without-atomic-step", ABTV_EXIT_CRASH);
        } else
            same = 0;
        last = now;
    }
    return NULL;
}
void abtv_init(void)
{
    const char *m = getenv("ABTV_MODE");
    g_mode = ABTV_MODE_OFF;
    if (m && !strcmp(m, "serial"))
        g_mode = ABTV_MODE_SERIAL;
    else if (m && !strcmp(m, "free"))
        g_mode = ABTV_MODE_FREE;
    const char *o = getenv("ABTV_OUT");
    if (o)
        g_out = open(o, O_WRONLY | O_CREAT | O_APPEND, 0644);
    if (getenv("ABTV_BUDGET"))
        g_budget = strtoull(getenv("ABTV_BUDGET"), NULL, 10);
    if (getenv("ABTV_PERTURB"))
        g_perturb = atoi(getenv("ABTV_PERTURB"));
    if (getenv("ABTV_STUCK"))
        STUCK_T = strtoull(getenv("ABTV_STUCK"), NULL, 10);
    /* crash handler on an alternate stack (ULT stacks may be tiny or overflown) */
    static char altstack[1 << 16];
    stack_t ss = { .ss_sp = altstack, .ss_size = sizeof altstack, .ss_flags = 0 };
    sigaltstack(&ss, NULL);
    struct sigaction sa;
    memset(&sa, 0, sizeof sa);
    sa.sa_handler = on_signal;
    sa.sa_flags = SA_ONSTACK | SA_NODEFER;
    int sigs[] = { SIGSEGV, SIGBUS, SIGABRT, SIGFPE, SIGILL };
    for (unsigned i = 0; i < sizeof sigs / sizeof *sigs; i++)
        sigaction(sigs[i], &sa, NULL);
    if (g_mode != ABTV_MODE_OFF)
        ABTD_verif_hook = hook;
    if (g_mode == ABTV_MODE_SERIAL) {
        pthread_t w;
        __real_pthread_create(&w, NULL, watchdog, NULL);
    }
}
void abtv_run_begin(const char *scn, uint64_t seed)
{
    g_scn = scn;
    g_seed = seed;
    g_watch_addr = NULL;
    g_sched_rng = (seed + 1) * 0x9E3779B97F4A7C15ULL;
    if (!g_sched_rng)
        g_sched_rng = 1;
    g_drv_rng = (seed + 0x1234567) * 0xD1B54A32D192ED03ULL;
    if (!g_drv_rng)
        g_drv_rng = 1;
    for (int i = 0; i < 4; i++) {
        xs(&g_sched_rng);
        xs(&g_drv_rng);
    }
    /* scheduling granularity differs from run to run */
    static const int sw[] = { 1000, 1000, 500, 200, 50, 10 };
    g_sw_permille = sw[xs(&g_sched_rng) % 6];
    if (getenv("ABTV_SW"))
        g_sw_permille = atoi(getenv("ABTV_SW"));
    g_rs_mode = (xs(&g_sched_rng) % 3) == 0 && !getenv("ABTV_NO_RSTALL");
    g_rs_next = 50 + xs(&g_sched_rng) % 1500;
    g_steps = 0;
    g_epoch = 1;
    g_last_progress = 0;
    g_vclock = 1000000LL * 1000000000LL;
    g_tick = 1000;
    if (g_mode == ABTV_MODE_SERIAL) {
        for (int i = 1; i < nact; i++)
            if (A[i].st != ST_DEAD && A[i].st != ST_NONE)
                abtv_fail("broken:leftover-actor", ABTV_EXIT_BROKEN);
        vm_reset();
        nact = 1;
        memset(&A[0], 0, sizeof A[0]);
        __real_pthread_cond_init(&A[0].cv, NULL);
        A[0].st = ST_RUN;
        A[0].deadline = -1;
        A[0].th = pthread_self();
        me = 0;
        holder = 0;
    } else {
        me = 0;
    }
    abtv_ev("\"e\":\"Reset\",\"scn\":\"%s\",\"seed\":%llu,\"mode\":\"%s\",\"sw\":%d", scn,
            (unsigned long long)seed, g_mode == ABTV_MODE_SERIAL ? (g_rs_mode ? "RS" : "R") : "F", g_sw_permille);
    g_active = 1;
}
void abtv_run_end(void)
{
    if (g_mode == ABTV_MODE_SERIAL) {
        LOCK();
        for (int i = 1; i < nact; i++)
            if (A[i].st != ST_DEAD)
                abtv_fail("broken:actor-alive-at-end", ABTV_EXIT_BROKEN);
        UNLOCK();
    }
    g_active = 0;
    abtv_ev("\"e\":\"End\",\"why\":\"done\",\"steps\":%llu", (unsigned long long)g_steps);
    if (g_len > (1u << 22))
        abtv_flush();
}
