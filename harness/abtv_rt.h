/* abtv_rt: verification runtime linked with the hooked Argobots library.
 *  - event log (ndjson) shared by all drivers
 *  - serializer: every hooked atomic operation of a registered actor is a
 *    scheduling point; exactly one actor runs at a time; the chooser is seeded
 *  - virtualised kernel blocking (futex, pthread mutex/cond/barrier/join,
 *    nanosleep) and virtual clock, so "no eligible actor" is an exact verdict
 *  - allocation ledger and k-th allocation fault injection
 *  - crash handler that flushes the log
 */
#ifndef ABTV_RT_H
#define ABTV_RT_H
#include <stdint.h>
#include <stddef.h>
#include <pthread.h>

enum { ABTV_MODE_OFF = 0, ABTV_MODE_FREE = 1, ABTV_MODE_SERIAL = 2 };

/* exit codes of a driver process */
#define ABTV_EXIT_OK 0
#define ABTV_EXIT_CRASH 70
#define ABTV_EXIT_DEADLOCK 71
#define ABTV_EXIT_STUCK 72
#define ABTV_EXIT_BUDGET 73
#define ABTV_EXIT_BROKEN 74

void abtv_init(void);                  /* reads ABTV_MODE, ABTV_OUT, ABTV_BUDGET... */
void abtv_run_begin(const char *scn, uint64_t seed); /* call before ABT_init */
void abtv_run_end(void);               /* call after ABT_finalize */
void abtv_flush(void);
int abtv_mode(void);
int abtv_actor(void);                  /* id of the calling OS thread, -1 if none */
uint64_t abtv_rand(void);              /* driver-level seeded randomness (per run) */
uint64_t abtv_steps(void);

/* event log: body is the inside of a JSON object, e.g.  "\"e\":\"Push\",\"u\":%d" */
void abtv_ev(const char *fmt, ...) __attribute__((format(printf, 1, 2)));

/* virtual clock (serial mode) */
int64_t abtv_now_ns(void);
void abtv_clock_advance_ns(int64_t ns);
void abtv_clock_tick_ns(int64_t ns);
void abtv_poll_until(int64_t abs_ns);  /* the caller polls the clock until this time: virtual time does not leap past it */   /* increment applied by each clock_gettime */

/* observations that must be one snapshot: no hand-over at hooked operations
 * between begin and end (serialized mode; the calls in between must not block) */
void abtv_atomic_begin(void);
void abtv_atomic_end(void);

/* hold the caller back at one of its next `maxhooks` hooked operations for `steps` steps */
void abtv_stall_within(int maxhooks, int steps);

/* hold back (for `steps` steps, with probability permille/1000) any other actor that is about to load *addr */
void abtv_watch_load(const void *addr, int steps, int permille);
int abtv_watch_hits(void);
void abtv_watch_load_after(const void *addr, int within, int steps, int permille);

/* a scheduling point requested by the driver (e.g. inside work-unit bodies) */
void abtv_point(void);
/* mark the calling actor as not progressing (driver-level polling loop) */
void abtv_idle_hint(void);

/* allocation ledger / fault injection */
void abtv_ledger_reset(void);
long abtv_ledger_bytes(void);          /* bytes in live blocks */
long abtv_ledger_live(void);           /* live blocks allocated through wraps */
long abtv_ledger_errors(void);         /* frees of unknown / interior pointers etc. */
long abtv_ledger_allocs(void);
void abtv_fault_arm(long kth);         /* fail the kth allocation from now (1-based); 0 = count only */
long abtv_fault_disarm(void);          /* returns number of allocation calls seen since arm */
int abtv_fault_fired(void);
void abtv_ledger_track(int on);        /* enable ledger bookkeeping */
void abtv_ledger_log(int on);          /* log Malloc/Free events */

/* verdicts */
void abtv_fail(const char *why, int code) __attribute__((noreturn));

#endif
