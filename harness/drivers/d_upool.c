/* C14 driver: user-defined pools (new ABT_pool_user_def API and legacy
 * ABT_pool_def) and the unit <-> work-unit map.
 *
 *   d_upool umap <seed0> <count> [nes=0..2] [coll=0|1] [fail=0|1] [csched=0|1]
 *
 * Four pools: pool 0 (user-defined, holds the "static" units), pools 1..3 of
 * kinds drawn per run from {built-in FIFO, new-API user pool, legacy-API user
 * pool} with pop policies FIFO / LIFO / random.  All streams run a scheduler
 * over all four pools (BASIC, or a custom one that pops units through the legacy
 * ABT_pool_pop and pushes them to another pool / runs them with
 * ABT_xstream_run_unit on another pool).
 *
 * Work units (ULTs and tasklets) are created into random pools by the primary
 * ULT and by other units; movers change their association
 * (ABT_self_set_associated_pool, ABT_thread_migrate_to_pool + callback), look
 * themselves up (ABT_thread_get_unit / ABT_unit_get_thread) and look up the
 * static units, whose units stay alive, from every stream while the movers
 * create and destroy units in the same hash buckets (coll=1: all unit handles
 * fall into three buckets of the 256-entry table; freed handles are reused at
 * once).  With fail=1 create_unit of a pool fails transiently.
 *
 * Every call of the pools' create_unit / free_unit / push / pop is logged;
 * spec/hist/H_UnitMap.tla is the judge. */
#include "drv.h"

#define NP 4
#define MAXU 12
#define NCAND 192
static int g_nes, g_coll, g_fail, g_csched;
static ABT_xstream g_xs[4];
static ABT_pool P[NP];
static char g_kind[NP];   /* 'B' built-in, 'N' new API, 'L' legacy API */
static int g_policy[NP];  /* 0 FIFO 1 LIFO 2 random */
static volatile int g_failn[NP]; /* number of create_unit calls of pool p that fail next */

/* ---------------------------------------------------------------- unit handles */
static char g_arena[1 << 21] __attribute__((aligned(64)));
static int g_slot_of[(1 << 21) / 8]; /* address -> slot (+1) */
typedef struct {
    char *addr;
    int uid;   /* fresh id of the unit that lives at this address, 0 = free */
    int pool, t, queued;
    ABT_thread th;
} slot_t;
static slot_t S[NCAND];
static int g_freestack[NCAND], g_nfree;
static int g_uid;
static volatile int g_lk;
static void lk(void)
{
    while (__sync_lock_test_and_set(&g_lk, 1))
        ;
}
static void ul(void) { __sync_lock_release(&g_lk); }
static unsigned hash_of(void *unit)
{
    size_t val = (uintptr_t)unit;
    size_t b = val >> 3;
    b += val >> (8 + 3);
    b += val >> (8 * 2 + 3);
    return (unsigned)(b & 255);
}
static void slots_init(void)
{
    memset(g_slot_of, 0, sizeof g_slot_of);
    int n = 0;
    for (size_t off = 64; off + 8 <= sizeof g_arena && n < NCAND; off += g_coll ? 8 : 4104) {
        char *a = g_arena + off;
        if (g_coll && hash_of(a) > 2)
            continue;
        S[n].addr = a;
        S[n].uid = 0;
        g_slot_of[off / 8] = n + 1;
        n++;
    }
    if (n < NCAND)
        abtv_fail("broken:arena", ABTV_EXIT_BROKEN);
    g_nfree = 0;
    for (int i = NCAND - 1; i >= 0; i--)
        g_freestack[g_nfree++] = i;
    g_uid = 0;
}
static int slot_of_unit(ABT_unit u)
{
    char *a = (char *)u;
    if (a < g_arena || a >= g_arena + sizeof g_arena || ((uintptr_t)a & 7))
        return -1;
    return g_slot_of[(a - g_arena) / 8] - 1;
}
/* id of a unit handle for the log: 0 = built-in unit, -1 = not a live unit */
static int uid_of_unit(ABT_unit u)
{
    if ((uintptr_t)u & 1)
        return 0;
    int s = slot_of_unit(u);
    if (s < 0 || S[s].uid == 0)
        return -1;
    return S[s].uid;
}

/* ---------------------------------------------------------------- work units */
typedef struct {
    int id, kind /*0 ULT 1 tasklet*/, stat, nsteps;
    ABT_thread th;
    volatile int begun, done, migdone, made, migtgt;
} wu_t;
static wu_t U[MAXU + 1];
static int g_nu, g_ns;
static volatile int g_release, g_created;
static __thread int t_creating; /* a tasklet's argument is not yet set when create_unit is called */
static ABT_eventual g_ev, g_evdone;
static volatile int g_ndone;
static int tid_of_thread(ABT_thread th)
{
    void *arg = NULL;
    if (t_creating)
        return t_creating;
    if (th == ABT_THREAD_NULL || ABT_thread_get_arg(th, &arg) != ABT_SUCCESS || !arg)
        return 0;
    wu_t *w = (wu_t *)arg;
    if (w < &U[0] || w > &U[MAXU])
        return 0;
    return w->id;
}

/* ---------------------------------------------------------------- pool implementation (shared by both APIs) */
typedef struct {
    int p;
    int q[NCAND], n; /* slots in arrival order */
} pdata_t;
static pdata_t PD[NP];
static int pool_index(ABT_pool pool)
{
    pdata_t *d = NULL;
    ABT_pool_get_data(pool, (void **)&d);
    return d ? d->p : -1;
}
static ABT_unit x_create_unit(ABT_pool pool, ABT_thread th)
{
    int p = pool_index(pool);
    int t = tid_of_thread(th);
    lk();
    if (g_failn[p] > 0) {
        g_failn[p]--;
        ul();
        EV("\"e\":\"UCreateFail\",\"p\":%d,\"t\":%d", p, t);
        return ABT_UNIT_NULL;
    }
    if (g_nfree == 0) {
        ul();
        abtv_fail("broken:unit-slots", ABTV_EXIT_BROKEN);
    }
    /* most recently freed address first: the map reuses tombstoned entries */
    int s = g_freestack[--g_nfree];
    if (rnd(4) == 0 && g_nfree > 0) {
        int k = rnd(g_nfree);
        int s2 = g_freestack[k];
        g_freestack[k] = s;
        s = s2;
    }
    S[s].uid = ++g_uid;
    S[s].pool = p;
    S[s].t = t;
    S[s].queued = 0;
    S[s].th = th;
    int uid = S[s].uid;
    EV("\"e\":\"UCreate\",\"p\":%d,\"u\":%d,\"t\":%d", p, uid, t);
    ul();
    return (ABT_unit)S[s].addr;
}
static void x_free_unit(ABT_pool pool, ABT_unit unit)
{
    int p = pool_index(pool);
    int s = slot_of_unit(unit);
    lk();
    int uid = (s >= 0) ? S[s].uid : 0;
    int okpool = s >= 0 && S[s].pool == p;
    int queued = s >= 0 ? S[s].queued : 0;
    EV("\"e\":\"UFree\",\"p\":%d,\"u\":%d,\"okpool\":%d,\"queued\":%d", p, uid ? uid : -1, okpool, queued);
    if (s >= 0 && uid) {
        S[s].uid = 0;
        g_freestack[g_nfree++] = s;
    }
    ul();
}
static void x_push(ABT_pool pool, ABT_unit unit)
{
    int p = pool_index(pool);
    int s = slot_of_unit(unit);
    lk();
    int uid = (s >= 0 && S[s].uid) ? S[s].uid : -1;
    if (uid > 0) {
        pdata_t *d = &PD[p];
        d->q[d->n++] = s;
        S[s].queued++;
    }
    EV("\"e\":\"UPush\",\"p\":%d,\"u\":%d", p, uid);
    ul();
}
/* returns a slot or -1 */
static int x_pop_slot(int p)
{
    lk();
    pdata_t *d = &PD[p];
    if (d->n == 0) {
        ul();
        return -1;
    }
    /* any order, but no unit is bypassed for ever: FIFO, or one of the oldest 2 / 3 */
    int k = g_policy[p] == 0 ? 0 : rnd(d->n < g_policy[p] + 1 ? d->n : g_policy[p] + 1);
    int s = d->q[k];
    for (int i = k; i + 1 < d->n; i++)
        d->q[i] = d->q[i + 1];
    d->n--;
    S[s].queued--;
    int uid = S[s].uid;
    EV("\"e\":\"UPop\",\"p\":%d,\"u\":%d", p, uid ? uid : -1);
    ul();
    return s;
}
static size_t x_size(int p)
{
    return (size_t)PD[p].n;
}
/* new API */
static void n_free_unit(ABT_pool pool, ABT_unit u) { x_free_unit(pool, u); }
static ABT_bool n_is_empty(ABT_pool pool) { return x_size(pool_index(pool)) == 0 ? ABT_TRUE : ABT_FALSE; }
static ABT_thread n_pop(ABT_pool pool, ABT_pool_context c)
{
    (void)c;
    int s = x_pop_slot(pool_index(pool));
    return s < 0 ? ABT_THREAD_NULL : S[s].th;
}
static void n_push(ABT_pool pool, ABT_unit u, ABT_pool_context c)
{
    (void)c;
    x_push(pool, u);
}
static size_t n_get_size(ABT_pool pool) { return x_size(pool_index(pool)); }
static void n_push_many(ABT_pool pool, const ABT_unit *units, size_t num, ABT_pool_context c)
{
    (void)c;
    for (size_t i = 0; i < num; i++)
        x_push(pool, units[i]);
}
static void n_pop_many(ABT_pool pool, ABT_thread *threads, size_t max, size_t *num, ABT_pool_context c)
{
    (void)c;
    size_t n = 0;
    while (n < max) {
        int s = x_pop_slot(pool_index(pool));
        if (s < 0)
            break;
        threads[n++] = S[s].th;
    }
    *num = n;
}
/* legacy API */
static ABT_unit l_create_from_thread(ABT_thread th)
{
    /* the legacy callback does not get the pool: the runtime calls it for the
     * pool it is associating the unit with; the driver passes it in g_lpool */
    abtv_fail("broken:legacy-create-without-pool", ABTV_EXIT_BROKEN);
    (void)th;
    return ABT_UNIT_NULL;
}
static void l_free(ABT_unit *u)
{
    (void)u;
    abtv_fail("broken:legacy-free-without-pool", ABTV_EXIT_BROKEN);
}
static int l_init(ABT_pool pool, ABT_pool_config cfg)
{
    (void)pool;
    (void)cfg;
    return ABT_SUCCESS;
}
static size_t l_get_size(ABT_pool pool) { return x_size(pool_index(pool)); }
static void l_push(ABT_pool pool, ABT_unit u) { x_push(pool, u); }
static ABT_unit l_pop(ABT_pool pool)
{
    int s = x_pop_slot(pool_index(pool));
    return s < 0 ? ABT_UNIT_NULL : (ABT_unit)S[s].addr;
}
/* the optional timed pop of the legacy definition (it does not wait here: the scheduler polls) */
static ABT_unit l_pop_timedwait(ABT_pool pool, double t)
{
    (void)t;
    return l_pop(pool);
}
/* ABT_thread_yield_to takes its target out of the target's pool */
static int l_remove(ABT_pool pool, ABT_unit u)
{
    int p = pool_index(pool);
    int s = slot_of_unit(u);
    lk();
    pdata_t *d = &PD[p];
    int uid = (s >= 0 && S[s].uid) ? S[s].uid : -1, found = 0;
    for (int i = 0; i < d->n; i++)
        if (d->q[i] == s) {
            for (int k = i; k + 1 < d->n; k++)
                d->q[k] = d->q[k + 1];
            d->n--;
            S[s].queued--;
            found = 1;
            break;
        }
    EV("\"e\":\"URemove\",\"p\":%d,\"u\":%d,\"found\":%d", p, uid, found);
    ul();
    return found ? ABT_SUCCESS : ABT_ERR_POOL;
}
static int l_free_pool(ABT_pool pool)
{
    (void)pool;
    return ABT_SUCCESS;
}
static ABT_bool l_is_in_pool(ABT_unit u)
{
    int s = slot_of_unit(u);
    return s >= 0 && S[s].queued ? ABT_TRUE : ABT_FALSE;
}
/* The legacy unit callbacks carry no pool argument, so each legacy pool gets
 * its own set of callbacks. */
#define LEGACY_SET(N)                                                                                                  \
    static ABT_pool g_lp##N;                                                                                           \
    static ABT_unit l_create_thread_##N(ABT_thread th) { return x_create_unit(g_lp##N, th); }                          \
    static ABT_unit l_create_task_##N(ABT_task th) { return x_create_unit(g_lp##N, th); }                              \
    static void l_free_##N(ABT_unit *u)                                                                                \
    {                                                                                                                  \
        x_free_unit(g_lp##N, *u);                                                                                      \
        *u = ABT_UNIT_NULL;                                                                                            \
    }
LEGACY_SET(0)
LEGACY_SET(1)
LEGACY_SET(2)
LEGACY_SET(3)

static void make_pool(int p)
{
    PD[p].p = p;
    PD[p].n = 0;
    if (g_kind[p] == 'B') {
        static const ABT_pool_kind K[3] = { ABT_POOL_FIFO, ABT_POOL_FIFO_WAIT, ABT_POOL_RANDWS };
        CHK(ABT_pool_create_basic(K[g_policy[p]], ABT_POOL_ACCESS_MPMC, ABT_FALSE, &P[p]));
    } else if (g_kind[p] == 'N') {
        ABT_pool_user_def def;
        CHK(ABT_pool_user_def_create(x_create_unit, n_free_unit, n_is_empty, n_pop, n_push, &def));
        CHK(ABT_pool_user_def_set_get_size(def, n_get_size));
        CHK(ABT_pool_user_def_set_push_many(def, n_push_many));
        CHK(ABT_pool_user_def_set_pop_many(def, n_pop_many));
        CHK(ABT_pool_create(def, ABT_POOL_CONFIG_NULL, &P[p]));
        CHK(ABT_pool_user_def_free(&def));
        CHK(ABT_pool_set_data(P[p], &PD[p]));
    } else {
        ABT_pool_def def;
        memset(&def, 0, sizeof def);
        def.access = ABT_POOL_ACCESS_MPMC;
        def.u_is_in_pool = l_is_in_pool;
        def.p_init = l_init;
        def.p_get_size = l_get_size;
        def.p_push = l_push;
        def.p_pop = l_pop;
        def.p_pop_timedwait = l_pop_timedwait;
        def.p_free = l_free_pool;
        def.p_remove = l_remove;
        switch (p) {
            case 0: def.u_create_from_thread = l_create_thread_0, def.u_create_from_task = l_create_task_0, def.u_free = l_free_0; break;
            case 1: def.u_create_from_thread = l_create_thread_1, def.u_create_from_task = l_create_task_1, def.u_free = l_free_1; break;
            case 2: def.u_create_from_thread = l_create_thread_2, def.u_create_from_task = l_create_task_2, def.u_free = l_free_2; break;
            default: def.u_create_from_thread = l_create_thread_3, def.u_create_from_task = l_create_task_3, def.u_free = l_free_3; break;
        }
        (void)l_create_from_thread;
        (void)l_free;
        CHK(ABT_pool_create(&def, ABT_POOL_CONFIG_NULL, &P[p]));
        CHK(ABT_pool_set_data(P[p], &PD[p]));
        switch (p) {
            case 0: g_lp0 = P[p]; break;
            case 1: g_lp1 = P[p]; break;
            case 2: g_lp2 = P[p]; break;
            default: g_lp3 = P[p]; break;
        }
    }
}

/* ---------------------------------------------------------------- custom scheduler (legacy unit-level API) */
static int cs_init(ABT_sched s, ABT_sched_config c)
{
    (void)s;
    (void)c;
    return ABT_SUCCESS;
}
static void cs_run(ABT_sched s)
{
    int cnt = 0;
    {
        /* the ULT of a main scheduler cannot be migrated: every kind of request is rejected */
        ABT_thread self;
        CHK(ABT_self_get_thread(&self));
        int r1 = ABT_thread_migrate_to_pool(self, P[1 + rnd(NP - 1)]);
        int r2 = ABT_thread_migrate(self);
        EV("\"e\":\"SchedMig\",\"r1\":%d,\"r2\":%d", r1 == ABT_ERR_INV_THREAD ? 1 : r1 == ABT_SUCCESS ? 0 : 2,
           r2 == ABT_ERR_INV_THREAD ? 1 : r2 == ABT_SUCCESS ? 0 : 2);
    }
    for (;;) {
        int p = cnt % NP;
        if (p != 0 && rnd(4) == 0) {
            /* bulk move: several work units at once into another pool */
            ABT_thread ths[3];
            size_t n = 0;
            CHK(ABT_pool_pop_threads(P[p], ths, 3, &n));
            if (n > 0) {
                int tgt = 1 + rnd(NP - 1);
                for (size_t i = 0; i < n; i++)
                    EV("\"e\":\"SMove\",\"t\":%d,\"from\":%d,\"to\":%d,\"how\":3", tid_of_thread(ths[i]), p, tgt);
                if (ABT_pool_push_threads(P[tgt], ths, n) != ABT_SUCCESS) {
                    /* create_unit of the target failed for one of them: put every one back where it was */
                    for (size_t i = 0; i < n; i++)
                        while (ABT_pool_push_thread(P[p], ths[i]) != ABT_SUCCESS)
                            ;
                }
            }
            cnt++;
            continue;
        }
        ABT_unit unit = ABT_UNIT_NULL;
        /* legacy pools are also popped through their optional timed pop */
        if (g_kind[p] == 'L' && rnd(2))
            CHK(ABT_pool_pop_timedwait(P[p], &unit, 0.0));
        else
            CHK(ABT_pool_pop(P[p], &unit));
        if (unit != ABT_UNIT_NULL) {
            ABT_thread th = ABT_THREAD_NULL;
            CHK(ABT_unit_get_thread(unit, &th));
            int t = tid_of_thread(th);
            /* static units stay where they are; the others are run on / pushed to another pool */
            int tgt = (t > 0 && U[t].stat) || p == 0 ? p : 1 + rnd(NP - 1);
            int how = rnd(3);
            EV("\"e\":\"SMove\",\"t\":%d,\"from\":%d,\"to\":%d,\"how\":%d", t, p, tgt, how);
            if (how == 0) {
                int r = ABT_pool_push(P[tgt], unit);
                if (r != ABT_SUCCESS) /* create_unit of the target failed: the unit stays associated with p */
                    CHK(ABT_pool_push(P[p], unit));
            } else {
                int r = ABT_xstream_run_unit(unit, P[tgt]);
                if (r != ABT_SUCCESS)
                    CHK(ABT_xstream_run_unit(unit, P[p]));
            }
        } else {
            abtv_idle_hint();
        }
        if (++cnt % 8 == 0) {
            ABT_bool stop;
            CHK(ABT_sched_has_to_stop(s, &stop));
            if (stop == ABT_TRUE)
                break;
            CHK(ABT_xstream_check_events(s));
        }
    }
}
static int cs_free(ABT_sched s)
{
    (void)s;
    return ABT_SUCCESS;
}
static ABT_sched_def g_csdef = { .type = ABT_SCHED_TYPE_ULT, .init = cs_init, .run = cs_run, .free = cs_free, .get_migr_pool = NULL };

/* ---------------------------------------------------------------- bodies */
static void mig_cb(ABT_thread th, void *arg)
{
    (void)th;
    wu_t *w = (wu_t *)arg;
    ABT_pool lp = ABT_POOL_NULL;
    int p = -1;
    /* the callback runs after the association changed */
    ABT_unit un = ABT_UNIT_NULL;
    CHK(ABT_thread_get_unit(w->th, &un));
    (void)lp;
    int s = slot_of_unit(un);
    if ((uintptr_t)un & 1)
        p = -2; /* some built-in pool */
    else if (s >= 0)
        p = S[s].pool;
    EV("\"e\":\"MigCb\",\"t\":%d,\"p\":%d,\"u\":%d,\"tgtuser\":%d", w->id, p, uid_of_unit(un), w->migtgt >= 0 ? g_kind[w->migtgt] != 'B' : -1);
    w->migdone++;
}
static void look(int by, wu_t *w)
{
    ABT_unit un = ABT_UNIT_NULL;
    ABT_thread th2 = ABT_THREAD_NULL;
    abtv_atomic_begin();
    CHK(ABT_thread_get_unit(w->th, &un));
    int uid = uid_of_unit(un);
    int back = -1;
    if (uid != -1) {
        CHK(ABT_unit_get_thread(un, &th2));
        back = th2 == w->th;
    }
    abtv_atomic_end();
    EV("\"e\":\"Look\",\"by\":%d,\"t\":%d,\"u\":%d,\"back\":%d", by, w->id, uid, back);
}
static volatile int g_claim[MAXU + 1], g_reaped[MAXU + 1];
static void create_unit_of(wu_t *w, int by);
static void body(void *arg)
{
    wu_t *w = (wu_t *)arg;
    /* the creator may not have stored the handle yet */
    ABT_thread self;
    CHK(ABT_self_get_thread(&self));
    w->th = self;
    EV("\"e\":\"Begin\",\"t\":%d", w->id);
    w->begun++;
    if (w->stat) {
        /* blocked: the unit stays alive and associated with pool 0, but is not in the pool */
        CHK(ABT_eventual_wait(g_ev, NULL));
    } else {
        for (int i = 0; i < w->nsteps; i++) {
            int op = rnd(10);
            if (w->kind == 1 && (op == 0 || op == 3 || op == 8))
                op = 2;
            switch (op) {
                case 0:
                    ABT_thread_yield();
                    break;
                case 1: {
                    int p = rnd(NP);
                    if (p == 0)
                        p = 1;
                    if (g_fail && rnd(3) == 0)
                        g_failn[p] = 1;
                    int r = ABT_self_set_associated_pool(P[p]);
                    EV("\"e\":\"Assoc\",\"t\":%d,\"p\":%d,\"user\":%d,\"ret\":%d", w->id, p, g_kind[p] != 'B', r != ABT_SUCCESS);
                    break;
                }
                case 2:
                    look(w->id, w);
                    break;
                case 3: {
                    int p = 1 + rnd(NP - 1);
                    int before = w->migdone;
                    if (g_fail && rnd(2) == 0)
                        g_failn[p] = 1 + rnd(2);
                    w->migtgt = p;
                    int r = ABT_thread_migrate_to_pool(w->th, P[p]);
                    EV("\"e\":\"UMigReq\",\"t\":%d,\"p\":%d,\"ret\":%d", w->id, p, r != ABT_SUCCESS);
                    if (r == ABT_SUCCESS) {
                        /* an accepted request is performed at one of the next scheduling points */
                        while (w->migdone == before) {
                            ABT_thread_yield();
                            abtv_idle_hint();
                        }
                    }
                    break;
                }
                case 4:
                case 5: {
                    int s = 1 + rnd(g_ns);
                    if (U[s].th != ABT_THREAD_NULL)
                        look(w->id, &U[s]);
                    break;
                }
                case 6:
                    /* units create units */
                    for (int k = g_ns + 1; k <= g_nu; k++)
                        if (!g_claim[k]) {
                            create_unit_of(&U[k], w->id);
                            break;
                        }
                    break;
                case 8:
                    /* the old directed yield: the target is taken out of ITS pool (single stream only:
                     * the target must be ready and in its pool when the call is made) */
                    if (g_nes == 1 && w->kind == 0)
                        for (int k = g_ns + 1; k <= g_nu; k++) {
                            ABT_thread_state st;
                            if (k == w->id || !U[k].made || U[k].done || U[k].kind != 0 || g_reaped[k] || U[k].th == ABT_THREAD_NULL)
                                continue;
                            if (ABT_thread_get_state(U[k].th, &st) != ABT_SUCCESS || st != ABT_THREAD_STATE_READY)
                                continue;
                            EV("\"e\":\"SMove\",\"t\":%d,\"from\":-1,\"to\":-1,\"how\":8", k);
                            int r = ABT_thread_yield_to(U[k].th);
                            if (r != ABT_SUCCESS && r != ABT_ERR_POOL) /* ERR_POOL: the target's pool has no remove() */
                                CHK(r);
                            break;
                        }
                    break;
                case 7:
                    /* free a finished unit while others are creating: free_unit / unmap race with create_unit / map */
                    for (int k = g_ns + 1; k <= g_nu; k++)
                        if (k != w->id && U[k].done && U[k].made && U[k].th != ABT_THREAD_NULL && __sync_bool_compare_and_swap(&g_reaped[k], 0, 1)) {
                            CHK(ABT_thread_free(&U[k].th));
                            EV("\"e\":\"UFreed\",\"t\":%d", k);
                            break;
                        }
                    break;
                default:
                    if (w->kind == 0)
                        ABT_thread_yield();
                    break;
            }
        }
    }
    EV("\"e\":\"Finish\",\"t\":%d", w->id);
    w->done++;
    if (!w->stat && __sync_add_and_fetch(&g_ndone, 1) == g_nu - g_ns)
        CHK(ABT_eventual_set(g_evdone, NULL, 0));
}
/* second life of a revived unit */
static void rev_body(void *arg)
{
    wu_t *w = (wu_t *)arg;
    EV("\"e\":\"Begin\",\"t\":%d", w->id);
    if (w->kind == 0 && rnd(2))
        CHK(ABT_thread_yield());
    EV("\"e\":\"Finish\",\"t\":%d", w->id);
}
/* A terminated unit is revived into another user-defined pool; the pool may refuse to create
 * the unit, in which case the revival must fail without a trace (no push, no run). */
static void revive_some(void)
{
    for (int i = g_ns + 1; i <= g_nu; i++) {
        wu_t *w = &U[i];
        if (g_reaped[i] || !w->made || w->th == ABT_THREAD_NULL || rnd(3))
            continue;
        CHK(ABT_thread_join(w->th));
        ABT_pool cur = ABT_POOL_NULL;
        CHK(ABT_thread_get_last_pool(w->th, &cur));
        int q = rnd(NP);
        if (w->kind != 0) {
            /* waiting for a tasklet is polling: it must live in the pool the waiting primary ULT
             * polls in, or a scheduler that scans its pools in order never reaches it */
            ABT_pool mine = ABT_POOL_NULL;
            CHK(ABT_self_get_last_pool(&mine));
            for (q = 0; q < NP && P[q] != mine; q++)
                ;
            if (q == NP || P[q] == cur)
                continue;
        }
        if (P[q] == cur)
            q = (q + 1) % NP;
        for (int attempt = 0;; attempt++) {
            if (g_fail && attempt == 0 && rnd(2))
                g_failn[q] = 1;
            EV("\"e\":\"UReviveCall\",\"t\":%d,\"p\":%d", i, q);
            int r = w->kind == 0 ? ABT_thread_revive(P[q], rev_body, w, &w->th) : ABT_task_revive(P[q], rev_body, w, &w->th);
            g_failn[q] = 0;
            EV("\"e\":\"URevive\",\"t\":%d,\"p\":%d,\"ret\":%d", i, q, r != ABT_SUCCESS);
            if (r == ABT_SUCCESS)
                break;
            if (attempt > 3)
                CHK(r);
        }
    }
}
static void create_unit_of(wu_t *w, int by)
{
    if (!__sync_bool_compare_and_swap(&g_claim[w->id], 0, 1))
        return;
    int p = w->stat ? 0 : rnd(NP);
    for (int attempt = 0;; attempt++) {
        int r;
        if (g_fail && !w->stat && attempt == 0 && rnd(3) == 0)
            g_failn[p] = 1;
        ABT_thread th = ABT_THREAD_NULL;
        if (w->kind == 0) {
            ABT_thread_attr attr;
            CHK(ABT_thread_attr_create(&attr));
            CHK(ABT_thread_attr_set_migratable(attr, ABT_TRUE));
            CHK(ABT_thread_attr_set_callback(attr, mig_cb, w));
            r = ABT_thread_create(P[p], body, w, attr, &th);
            CHK(ABT_thread_attr_free(&attr));
        } else {
            t_creating = w->id;
            r = ABT_task_create(P[p], body, w, &th);
            t_creating = 0;
        }
        EV("\"e\":\"UNew\",\"by\":%d,\"t\":%d,\"p\":%d,\"kind\":%d,\"ret\":%d,\"hnull\":%d", by, w->id, p, w->kind, r != ABT_SUCCESS, th == (w->kind ? ABT_TASK_NULL : ABT_THREAD_NULL));
        if (r == ABT_SUCCESS) {
            if (!g_reaped[w->id])
                w->th = th;
            w->made = 1;
            __sync_fetch_and_add(&g_created, 1);
            return;
        }
        if (attempt > 5)
            CHK(r);
    }
}

static void scenario(const char *name, uint64_t seed)
{
    (void)name;
    (void)seed;
    g_nes = 1 + (int)opt_long("nes", 1);
    g_coll = (int)opt_long("coll", 1);
    g_fail = (int)opt_long("fail", 0);
    g_csched = (int)opt_long("csched", 0);
    slots_init();
    memset(U, 0, sizeof U);
    memset((void *)g_claim, 0, sizeof g_claim);
    memset((void *)g_reaped, 0, sizeof g_reaped);
    memset((void *)g_failn, 0, sizeof g_failn);
    g_release = g_created = 0;
    CHK(ABT_init(0, NULL));
    CHK(ABT_eventual_create(0, &g_ev));
    CHK(ABT_eventual_create(0, &g_evdone));
    g_ndone = 0;
    /* pool kinds: pool 0 is user-defined; at least one more user pool */
    static const char KS[3] = { 'B', 'N', 'L' };
    g_kind[0] = rnd(2) ? 'N' : 'L';
    for (int p = 1; p < NP; p++)
        g_kind[p] = KS[rnd(3)];
    g_kind[1 + rnd(NP - 1)] = rnd(2) ? 'N' : 'L';
    for (int p = 0; p < NP; p++) {
        g_policy[p] = rnd(3);
        make_pool(p);
    }
    EV("\"e\":\"UPools\",\"k0\":\"%c\",\"k1\":\"%c\",\"k2\":\"%c\",\"k3\":\"%c\"", g_kind[0], g_kind[1], g_kind[2], g_kind[3]);
    /* streams: every scheduler serves all four pools */
    /* BASIC scans its pools in order and runs the first unit it finds: pool 0
     * (the primary ULT, which may poll in a join) comes last */
    ABT_pool SP[NP] = { P[1], P[2], P[3], P[0] };
    CHK(ABT_xstream_self(&g_xs[0]));
    {
        ABT_sched sc;
        if (g_csched && g_nes == 1)
            CHK(ABT_sched_create(&g_csdef, NP, P, ABT_SCHED_CONFIG_NULL, &sc));
        else
            CHK(ABT_sched_create_basic(ABT_SCHED_BASIC, NP, SP, ABT_SCHED_CONFIG_NULL, &sc));
        CHK(ABT_xstream_set_main_sched(g_xs[0], sc));
    }
    for (int e = 1; e < g_nes; e++) {
        ABT_sched sc;
        if (g_csched && e == 1)
            CHK(ABT_sched_create(&g_csdef, NP, P, ABT_SCHED_CONFIG_NULL, &sc));
        else
            CHK(ABT_sched_create_basic(ABT_SCHED_BASIC, NP, SP, ABT_SCHED_CONFIG_NULL, &sc));
        CHK(ABT_xstream_create(sc, &g_xs[e]));
    }
    g_nu = 4 + rnd(MAXU - 3);
    g_ns = 1 + rnd(2);
    for (int i = 1; i <= g_nu; i++) {
        U[i].id = i;
        U[i].stat = i <= g_ns;
        U[i].kind = U[i].stat ? 0 : rnd(3) == 0;
        U[i].nsteps = 2 + rnd(10);
        U[i].th = ABT_THREAD_NULL;
    }
    /* the static units first, then the movers (some are left to be created by other units) */
    for (int i = 1; i <= g_ns; i++)
        create_unit_of(&U[i], 0);
    for (int i = g_ns + 1; i <= g_nu; i++)
        if (rnd(3))
            create_unit_of(&U[i], 0);
    /* the primary ULT looks up static units, creates what nobody created and
     * then blocks until the last mover has finished (a polling primary ULT in the
     * first pool would starve the other pools of a BASIC scheduler) */
    for (int i = 0; i < 4; i++)
        if (rnd(2))
            look(0, &U[1 + rnd(g_ns)]);
    for (int i = g_ns + 1; i <= g_nu; i++) {
        create_unit_of(&U[i], 0);
        while (!U[i].made) {
            /* another unit (on another stream) is creating it right now */
            ABT_thread_yield();
            abtv_idle_hint();
        }
    }
    CHK(ABT_eventual_wait(g_evdone, NULL));
    g_release = 1;
    CHK(ABT_eventual_set(g_ev, NULL, 0));
    revive_some();
    for (int i = 1; i <= g_nu; i++) {
        if (g_reaped[i])
            continue; /* freed by another unit */
        CHK(ABT_thread_free(&U[i].th));
        EV("\"e\":\"UFreed\",\"t\":%d", i);
    }
    for (int e = 1; e < g_nes; e++) {
        CHK(ABT_xstream_join(g_xs[e]));
        CHK(ABT_xstream_free(&g_xs[e]));
    }
    CHK(ABT_eventual_free(&g_ev));
    CHK(ABT_eventual_free(&g_evdone));
    CHK(ABT_finalize());
    EV("\"e\":\"UEnd\",\"free\":%d", g_nfree);
}
