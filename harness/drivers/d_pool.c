/* C07 driver: concurrent histories on one built-in pool that no scheduler
 * serves.  Tokens are named ULTs created once; their function never matters
 * for the history.  Every API call is logged as Call/Ret with arguments and
 * results; the history is judged by spec/hist/H_Queue.tla.
 *
 * options: kind=0|1|2 (FIFO, FIFO_WAIT, RANDWS)  access=0..4 (PRIV,SPSC,MPSC,SPMC,MPMC)
 *          shape=0 (by access)  | 1 (one consumer who also produces and removes)
 */
#include "drv.h"

#define NTOK 6
#define MAXOPS 6
#define MAXACT 4
enum { O_PUSH, O_PUSHMANY, O_POP, O_POPMANY, O_POPWAIT, O_POPTIMED, O_REMOVE, O_REPUSH, O_SIZE, O_POPLONG, O_POPTIMEDLONG, O_RREMOVE, O_POPLONGRETRY };
typedef struct {
    int op, u, v, ctx, k;
} op_t;
typedef struct {
    int id, nops, can_push, can_pop;
    op_t ops[MAXOPS];
    int own[NTOK], nown;
} actor_t;

static ABT_pool g_pool;
static ABT_thread g_tok[NTOK + 1];
static int g_kind;
static actor_t g_act[MAXACT];
static volatile int g_started;

static void tokfn(void *a) { (void)a; }
static int tok_id(ABT_thread t)
{
    if (t == ABT_THREAD_NULL)
        return 0;
    for (int i = 1; i <= NTOK; i++)
        if (g_tok[i] == t)
            return i;
    return -1;
}
static int unit_tok(ABT_unit u)
{
    if (u == ABT_UNIT_NULL)
        return 0;
    ABT_thread t;
    if (ABT_unit_get_thread(u, &t) != ABT_SUCCESS)
        return -1;
    return tok_id(t);
}
/* context flags: bit0 = "push to head" (create flag), bit1 = "pop from tail" (secondary owner) */
static ABT_pool_context push_ctx(int c) { return (c & 1) ? ABT_POOL_CONTEXT_OP_THREAD_CREATE : ABT_POOL_CONTEXT_OP_POOL_OTHER; }
static ABT_pool_context pop_ctx(int c) { return (c & 2) ? ABT_POOL_CONTEXT_OWNER_SECONDARY : ABT_POOL_CONTEXT_OWNER_DEFAULT; }

/* what the call really asks for: the plain (non-_ex) entry points carry no flag */
#define HD(o) ((g_kind == 2 && !((o)->ctx & 4)) ? ((o)->ctx & 1) : 0)
#define TL(o) ((g_kind == 2 && !((o)->ctx & 4)) ? !!((o)->ctx & 2) : 0)

static void take(actor_t *a, int u) { a->own[a->nown++] = u; }
static int give(actor_t *a)
{
    if (!a->nown)
        return 0;
    return a->own[--a->nown];
}

static void do_op(actor_t *a, op_t *o)
{
    int id = a->id;
    switch (o->op) {
        case O_PUSH:
        case O_REPUSH: {
            int u = give(a);
            if (!u)
                return;
            EV("\"e\":\"Call\",\"t\":%d,\"op\":\"push\",\"us\":[%d],\"hd\":%d", id, u, HD(o));
            if (o->ctx & 4)
                CHK(ABT_pool_push_thread(g_pool, g_tok[u]));
            else
                CHK(ABT_pool_push_thread_ex(g_pool, g_tok[u], push_ctx(HD(o))));
            EV("\"e\":\"Ret\",\"t\":%d,\"op\":\"push\",\"r\":[]", id);
            break;
        }
        case O_PUSHMANY: {
            int u = give(a), v = give(a);
            if (!u)
                return;
            ABT_thread ts[2] = { g_tok[u], v ? g_tok[v] : ABT_THREAD_NULL };
            if (v)
                EV("\"e\":\"Call\",\"t\":%d,\"op\":\"push\",\"us\":[%d,%d],\"hd\":%d", id, u, v, HD(o));
            else
                EV("\"e\":\"Call\",\"t\":%d,\"op\":\"push\",\"us\":[%d],\"hd\":%d", id, u, HD(o));
            {
                /* null handles in the list are skipped: the same units, with holes at random places */
                ABT_thread tl[5];
                int n = 0, want = v ? 2 : 1, put = 0;
                while (put < want || (n < 5 && rnd(3) == 0)) {
                    if (put < want && (n >= 3 || rnd(2)))
                        tl[n++] = ts[put++];
                    else
                        tl[n++] = ABT_THREAD_NULL;
                }
                if (o->ctx & 4)
                    CHK(ABT_pool_push_threads(g_pool, tl, (size_t)n));
                else
                    CHK(ABT_pool_push_threads_ex(g_pool, tl, (size_t)n, push_ctx(HD(o))));
            }
            EV("\"e\":\"Ret\",\"t\":%d,\"op\":\"push\",\"r\":[]", id);
            break;
        }
        case O_POP: {
            ABT_thread t = ABT_THREAD_NULL;
            EV("\"e\":\"Call\",\"t\":%d,\"op\":\"pop\",\"k\":1,\"tl\":%d", id, TL(o));
            if (o->ctx & 4)
                CHK(ABT_pool_pop_thread(g_pool, &t));
            else
                CHK(ABT_pool_pop_thread_ex(g_pool, &t, pop_ctx(TL(o) ? 2 : 0)));
            int u = tok_id(t);
            if (u)
                EV("\"e\":\"Ret\",\"t\":%d,\"op\":\"pop\",\"r\":[%d]", id, u);
            else
                EV("\"e\":\"Ret\",\"t\":%d,\"op\":\"pop\",\"r\":[]", id);
            if (u > 0)
                take(a, u);
            break;
        }
        case O_POPMANY: {
            ABT_thread ts[3] = { ABT_THREAD_NULL, ABT_THREAD_NULL, ABT_THREAD_NULL };
            size_t n = 0;
            EV("\"e\":\"Call\",\"t\":%d,\"op\":\"pop\",\"k\":%d,\"tl\":%d", id, o->k, TL(o));
            CHK(ABT_pool_pop_threads_ex(g_pool, ts, (size_t)o->k, &n, pop_ctx(TL(o) ? 2 : 0)));
            char buf[64];
            int p = 0;
            buf[0] = 0;
            for (size_t i = 0; i < n; i++) {
                int u = tok_id(ts[i]);
                p += sprintf(buf + p, "%s%d", i ? "," : "", u);
                if (u > 0)
                    take(a, u);
            }
            EV("\"e\":\"Ret\",\"t\":%d,\"op\":\"pop\",\"r\":[%s]", id, buf);
            break;
        }
        case O_POPWAIT: {
            ABT_thread t = ABT_THREAD_NULL;
            EV("\"e\":\"Call\",\"t\":%d,\"op\":\"pop\",\"k\":1,\"tl\":%d", id, TL(o));
            CHK(ABT_pool_pop_wait_thread_ex(g_pool, &t, 1e-6 * (double)o->k, pop_ctx(TL(o) ? 2 : 0)));
            int u = tok_id(t);
            if (u)
                EV("\"e\":\"Ret\",\"t\":%d,\"op\":\"pop\",\"r\":[%d]", id, u);
            else
                EV("\"e\":\"Ret\",\"t\":%d,\"op\":\"pop\",\"r\":[]", id);
            if (u > 0)
                take(a, u);
            break;
        }
        case O_POPTIMED: {
            ABT_unit un = ABT_UNIT_NULL;
            EV("\"e\":\"Call\",\"t\":%d,\"op\":\"pop\",\"k\":1,\"tl\":0", id);
            double abst = (double)abtv_now_ns() * 1e-9 + 1e-6 * (double)o->k;
            CHK(ABT_pool_pop_timedwait(g_pool, &un, abst));
            int u = unit_tok(un);
            if (u)
                EV("\"e\":\"Ret\",\"t\":%d,\"op\":\"pop\",\"r\":[%d]", id, u);
            else
                EV("\"e\":\"Ret\",\"t\":%d,\"op\":\"pop\",\"r\":[]", id);
            if (u > 0)
                take(a, u);
            break;
        }
        case O_POPLONG: {
            /* a blocking pop that must not come back empty-handed: the unit is
             * pushed while it waits, long before the (virtual) time-out */
            ABT_thread t = ABT_THREAD_NULL;
            EV("\"e\":\"Call\",\"t\":%d,\"op\":\"pop\",\"k\":1,\"tl\":%d,\"long\":1", id, TL(o));
            CHK(ABT_pool_pop_wait_thread_ex(g_pool, &t, 1000.0, pop_ctx(TL(o) ? 2 : 0)));
            int u = tok_id(t);
            if (u)
                EV("\"e\":\"Ret\",\"t\":%d,\"op\":\"pop\",\"r\":[%d]", id, u);
            else
                EV("\"e\":\"Ret\",\"t\":%d,\"op\":\"pop\",\"r\":[]", id);
            if (u > 0)
                take(a, u);
            break;
        }
        case O_POPLONGRETRY: {
            /* several consumers sleep in blocking pops with time limits that are never reached;
             * one that is woken for a unit somebody else took in the meantime comes back
             * empty-handed (legal: the pool was empty then) and simply waits again */
            for (int tries = 0; tries < 1000; tries++) {
                int u;
                EV("\"e\":\"Call\",\"t\":%d,\"op\":\"pop\",\"k\":1,\"tl\":%d", id, TL(o));
                if (o->k) {
                    ABT_unit un = ABT_UNIT_NULL;
                    double abst = (double)abtv_now_ns() * 1e-9 + 1000.0;
                    CHK(ABT_pool_pop_timedwait(g_pool, &un, abst));
                    u = unit_tok(un);
                } else {
                    ABT_thread t = ABT_THREAD_NULL;
                    CHK(ABT_pool_pop_wait_thread_ex(g_pool, &t, 1000.0, pop_ctx(TL(o) ? 2 : 0)));
                    u = tok_id(t);
                }
                if (u)
                    EV("\"e\":\"Ret\",\"t\":%d,\"op\":\"pop\",\"r\":[%d]", id, u);
                else
                    EV("\"e\":\"Ret\",\"t\":%d,\"op\":\"pop\",\"r\":[]", id);
                if (u > 0) {
                    take(a, u);
                    break;
                }
            }
            break;
        }
        case O_POPTIMEDLONG: {
            ABT_unit un = ABT_UNIT_NULL;
            EV("\"e\":\"Call\",\"t\":%d,\"op\":\"pop\",\"k\":1,\"tl\":0,\"long\":1", id);
            double abst = (double)abtv_now_ns() * 1e-9 + 1000.0;
            CHK(ABT_pool_pop_timedwait(g_pool, &un, abst));
            int u = unit_tok(un);
            if (u)
                EV("\"e\":\"Ret\",\"t\":%d,\"op\":\"pop\",\"r\":[%d]", id, u);
            else
                EV("\"e\":\"Ret\",\"t\":%d,\"op\":\"pop\",\"r\":[]", id);
            if (u > 0)
                take(a, u);
            break;
        }
        case O_REMOVE: {
            /* legal only for a unit the caller knows to be in the pool: the
             * caller is the only consumer and pushes the unit itself first */
            int u = give(a);
            if (!u)
                return;
            EV("\"e\":\"Call\",\"t\":%d,\"op\":\"push\",\"us\":[%d],\"hd\":0", id, u);
            CHK(ABT_pool_push_thread(g_pool, g_tok[u]));
            EV("\"e\":\"Ret\",\"t\":%d,\"op\":\"push\",\"r\":[]", id);
            ABT_unit un;
            CHK(ABT_thread_get_unit(g_tok[u], &un));
            EV("\"e\":\"Call\",\"t\":%d,\"op\":\"remove\",\"u\":%d", id, u);
            int r = ABT_pool_remove(g_pool, un);
            EV("\"e\":\"Ret\",\"t\":%d,\"op\":\"remove\",\"r\":[%d]", id, r == ABT_SUCCESS ? 1 : 0);
            if (r == ABT_SUCCESS)
                take(a, u);
            break;
        }
        case O_RREMOVE: {
            /* remove a unit that another consumer may pop at the same time: exactly
             * one of them gets it (ABT_thread_yield_to relies on this) */
            int u = o->u;
            ABT_unit un;
            CHK(ABT_thread_get_unit(g_tok[u], &un));
            EV("\"e\":\"Call\",\"t\":%d,\"op\":\"remove\",\"u\":%d", id, u);
            int r = ABT_pool_remove(g_pool, un);
            EV("\"e\":\"Ret\",\"t\":%d,\"op\":\"remove\",\"r\":[%d]", id, r == ABT_SUCCESS ? 1 : 0);
            if (r == ABT_SUCCESS)
                take(a, u);
            break;
        }
        case O_SIZE: {
            break;
        }
    }
}

static void *actor_main(void *p)
{
    actor_t *a = (actor_t *)p;
    for (int i = 0; i < a->nops; i++)
        do_op(a, &a->ops[i]);
    return NULL;
}

static void quiescent_queries(void)
{
    size_t sz = 999;
    ABT_bool emp = ABT_FALSE;
    CHK(ABT_pool_get_size(g_pool, &sz));
    CHK(ABT_pool_is_empty(g_pool, &emp));
    EV("\"e\":\"Quiet\",\"size\":%d,\"empty\":%d", (int)sz, emp == ABT_TRUE ? 1 : 0);
}

static void scenario(const char *name, uint64_t seed)
{
    (void)name;
    (void)seed;
    g_kind = (int)opt_long("kind", 0);
    int access = (int)opt_long("access", 4);
    int shape = (int)opt_long("shape", 0);
    static const ABT_pool_kind kinds[] = { ABT_POOL_FIFO, ABT_POOL_FIFO_WAIT, ABT_POOL_RANDWS };
    static const ABT_pool_access accs[] = { ABT_POOL_ACCESS_PRIV, ABT_POOL_ACCESS_SPSC, ABT_POOL_ACCESS_MPSC,
                                            ABT_POOL_ACCESS_SPMC, ABT_POOL_ACCESS_MPMC };
    abtv_clock_tick_ns(200);
    CHK(ABT_init(0, NULL));
    CHK(ABT_pool_create_basic(kinds[g_kind], accs[access], ABT_FALSE, &g_pool));
    EV("\"e\":\"Pool\",\"kind\":%d,\"access\":%d,\"deque\":%d", g_kind, access, g_kind == 2);
    ABT_thread_attr attr;
    CHK(ABT_thread_attr_create(&attr));
    CHK(ABT_thread_attr_set_stacksize(attr, 4096));
    for (int i = 1; i <= NTOK; i++) {
        CHK(ABT_thread_create(g_pool, tokfn, NULL, attr, &g_tok[i]));
        ABT_thread t;
        CHK(ABT_pool_pop_thread(g_pool, &t));
        if (t != g_tok[i])
            abtv_fail("broken:token-setup", ABTV_EXIT_BROKEN);
    }
    CHK(ABT_thread_attr_free(&attr));

    /* roles */
    int nact, prod[MAXACT] = { 0 }, cons[MAXACT] = { 0 };
    if (access == 0) {
        nact = 1;
        prod[0] = cons[0] = 1;
    } else if (shape == 1) {
        nact = 3;
        prod[0] = cons[0] = 1;
        prod[1] = prod[2] = 1;
        if (access == 1 || access == 3)
            nact = 1; /* single producer modes: the consumer-producer alone */
    } else if (access == 1) {
        nact = 2;
        prod[0] = 1;
        cons[1] = 1;
    } else if (access == 2) {
        nact = 3;
        prod[0] = prod[1] = 1;
        cons[2] = 1;
    } else if (access == 3) {
        nact = 3;
        prod[0] = 1;
        cons[1] = cons[2] = 1;
    } else {
        nact = 3;
        for (int i = 0; i < 3; i++)
            prod[i] = cons[i] = 1;
    }
    actor_t mainact;
    memset(&mainact, 0, sizeof mainact);
    mainact.id = 0;
    if (shape == 3) {
        /* racing pop / remove on the same units */
        if (access != 4)
            abtv_fail("broken:shape3-needs-mpmc", ABTV_EXIT_BROKEN);
        nact = 2 + rnd(2);
        for (int i = 0; i < nact; i++) {
            memset(&g_act[i], 0, sizeof g_act[i]);
            g_act[i].id = i + 1;
        }
        int npre = 2 + rnd(3);
        for (int u = 1; u <= NTOK; u++)
            take(&mainact, u);
        for (int i = 0; i < npre; i++) {
            op_t o = { O_PUSH, 0, 0, (g_kind == 2 ? rnd(2) : 0), 0 };
            do_op(&mainact, &o);
        }
        /* which tokens are in the pool now: NTOK, NTOK-1, ... (give() takes from the end) */
        for (int i = 0; i < nact; i++) {
            g_act[i].nops = 1 + rnd(3);
            for (int j = 0; j < g_act[i].nops; j++) {
                op_t *o = &g_act[i].ops[j];
                memset(o, 0, sizeof *o);
                if (i == 0 || rnd(3) == 0) {
                    o->op = O_POP;
                    o->ctx = (g_kind == 2) ? rnd(4) : 0;
                } else {
                    o->op = O_RREMOVE;
                    o->u = NTOK - rnd(npre);
                }
            }
        }
        goto launch;
    }
    if (shape == 2) {
        /* C19: one producer pushes every token one by one; the consumers
         * issue exactly NTOK blocking pops between them */
        if (access == 0)
            abtv_fail("broken:shape2-needs-shared-pool", ABTV_EXIT_BROKEN);
        /* one consumer, or two that sleep at the same time (every pop still finds a unit in the end:
         * as many units are pushed as pops are issued, and the time limits are never reached) */
        int ncons = 1 + rnd(2);
        nact = 1 + ncons;
        for (int i = 0; i < nact; i++) {
            memset(&g_act[i], 0, sizeof g_act[i]);
            g_act[i].id = i + 1;
        }
        for (int u = 1; u <= NTOK; u++)
            take(&g_act[0], u);
        g_act[0].nops = 0;
        int ntok = NTOK;
        /* MAXOPS limits a script: push in pairs where needed */
        for (int j = 0; j < MAXOPS && ntok > 0; j++) {
            op_t *o = &g_act[0].ops[g_act[0].nops++];
            memset(o, 0, sizeof *o);
            int two = (ntok > (MAXOPS - j));
            o->op = two ? O_PUSHMANY : O_PUSH;
            o->ctx = (g_kind == 2) ? rnd(2) : 0;
            ntok -= two ? 2 : 1;
        }
        int left = NTOK;
        for (int i = 1; i < nact; i++) {
            int mine = (i == nact - 1) ? left : NTOK / ncons;
            if (mine > MAXOPS)
                abtv_fail("broken:shape2-script", ABTV_EXIT_BROKEN);
            left -= mine;
            g_act[i].nops = mine;
            for (int j = 0; j < mine; j++) {
                op_t *o = &g_act[i].ops[j];
                memset(o, 0, sizeof *o);
                o->op = rnd(3) ? O_POPLONG : O_POPTIMEDLONG;
                o->ctx = (g_kind == 2) ? (rnd(2) ? 2 : 0) : 0;
                if (ncons > 1) {
                    o->k = o->op == O_POPTIMEDLONG;
                    o->op = O_POPLONGRETRY;
                    if (o->k)
                        o->ctx = 0;
                }
            }
        }
        goto launch;
    }
    /* distribute tokens among producers */
    int np = 0, pidx[MAXACT];
    for (int i = 0; i < nact; i++) {
        memset(&g_act[i], 0, sizeof g_act[i]);
        g_act[i].id = i + 1;
        g_act[i].can_push = prod[i];
        g_act[i].can_pop = cons[i];
        if (prod[i])
            pidx[np++] = i;
    }
    for (int u = 1; u <= NTOK; u++)
        take(&g_act[pidx[(u - 1) % np]], u);
    /* a prefix pushed by the main thread so that pops find something */
    int pre = rnd(3);
    for (int i = 0; i < pre; i++) {
        actor_t *src = &g_act[pidx[rnd(np)]];
        int u = give(src);
        if (!u)
            continue;
        take(&mainact, u);
        op_t o = { O_PUSH, 0, 0, (g_kind == 2 ? rnd(2) : 0) | (rnd(2) ? 4 : 0), 0 };
        do_op(&mainact, &o);
    }
    /* scripts */
    int remove_ok = (access == 0) || (shape == 1);
    for (int i = 0; i < nact; i++) {
        actor_t *a = &g_act[i];
        a->nops = 2 + rnd(MAXOPS - 1);
        for (int j = 0; j < a->nops; j++) {
            op_t *o = &a->ops[j];
            memset(o, 0, sizeof *o);
            o->ctx = (g_kind == 2) ? rnd(4) : 0;
            if (rnd(3) == 0)
                o->ctx |= 4;
            int choices[12], nc = 0;
            if (a->can_push) {
                choices[nc++] = O_PUSH;
                choices[nc++] = O_PUSH;
                choices[nc++] = O_PUSHMANY;
            }
            if (a->can_pop) {
                choices[nc++] = O_POP;
                choices[nc++] = O_POP;
                choices[nc++] = O_POPMANY;
                choices[nc++] = O_POPWAIT;
                choices[nc++] = O_POPTIMED;
            }
            if (a->can_pop && a->can_push && remove_ok && (i == 0))
                choices[nc++] = O_REMOVE;
            o->op = choices[rnd(nc)];
            o->k = 1 + rnd(3);
            if (o->op == O_POPWAIT || o->op == O_POPTIMED)
                /* microseconds of (virtual) waiting; now and then the time is already up when
                 * the call is made: the pool is still looked at once */
                o->k = rnd(4) ? 1 + rnd(4) : -rnd(2000);
        }
    }
launch:
    if (nact == 1) {
        g_act[0].id = 0;
        actor_main(&g_act[0]);
    } else {
        pthread_t th[MAXACT];
        for (int i = 0; i < nact; i++)
            pthread_create(&th[i], NULL, actor_main, &g_act[i]);
        for (int i = 0; i < nact; i++)
            pthread_join(th[i], NULL);
    }
    quiescent_queries();
    /* drain from the main thread; every token must be accounted for */
    for (int i = 0; i < NTOK + 1; i++) {
        op_t o = { O_POP, 0, 0, 0, 0 };
        do_op(&mainact, &o);
    }
    quiescent_queries();
    int seen[NTOK + 1] = { 0 }, total = 0;
    for (int i = 0; i < nact; i++)
        for (int j = 0; j < g_act[i].nown; j++)
            seen[g_act[i].own[j]]++, total++;
    for (int j = 0; j < mainact.nown; j++)
        seen[mainact.own[j]]++, total++;
    EV("\"e\":\"Tokens\",\"total\":%d", total);
    /* let the tokens run and free them */
    ABT_xstream xs;
    ABT_pool mp;
    CHK(ABT_xstream_self(&xs));
    CHK(ABT_xstream_get_main_pools(xs, 1, &mp));
    for (int u = 1; u <= NTOK; u++) {
        if (seen[u] == 1) {
            CHK(ABT_pool_push_thread(mp, g_tok[u]));
            CHK(ABT_thread_free(&g_tok[u]));
        }
    }
    CHK(ABT_pool_free(&g_pool));
    CHK(ABT_finalize());
}
