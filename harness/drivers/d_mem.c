/* C15 driver: descriptors and stacks.
 * Scenario "stacks": ULTs with library-allocated stacks of boundary / random
 * sizes and with user-supplied stacks at every 8-byte phase are created from
 * the primary ULT, from ULTs on other streams and from an external thread;
 * each ULT reports where its stack is, touches all of it, checks the guard
 * words around user stacks; all live stack ranges are compared.  The
 * allocation ledger (--wrap malloc/free/mmap/...) must balance at
 * ABT_finalize and never see a free of an unknown pointer.
 * Addresses are logged as ranks in the sorted set of all range end points, so
 * the specification compares small integers (spec/hist/H_Alloc.tla).
 * options: nes=0..2  mem=0..3 (memory pool settings through the environment) */
#include "drv.h"
#include <stdint.h>
#include "abti.h"

#define MAXT 10
typedef struct {
    int id, user, creator; /* creator: 0 primary, 1 ULT on another stream, 2 external thread */
    size_t req;            /* requested size */
    char *ubuf;            /* user buffer (with guard words) */
    char *ustack;
    ABT_thread th;
    volatile uintptr_t lo, hi, local;
    volatile size_t reported;
    volatile int sp_mod16, touched_ok, in_range, done, guard_ok;
    volatile int alive;
} tinfo_t;
static tinfo_t T[MAXT + 1];
static int g_nt, g_nes;
static ABT_xstream g_xs[4];
static ABT_pool g_pool[4];
static volatile int g_release;
static int g_guard;
#define GUARD 64
static void body(void *arg)
{
    tinfo_t *t = (tinfo_t *)arg;
    volatile char local[64];
    uintptr_t sp = (uintptr_t)__builtin_frame_address(0);
    ABT_thread self;
    ABT_thread_attr attr;
    void *addr = NULL;
    size_t sz = 0;
    CHK(ABT_thread_self(&self));
    CHK(ABT_thread_get_attr(self, &attr));
    CHK(ABT_thread_attr_get_stack(attr, &addr, &sz));
    CHK(ABT_thread_attr_free(&attr));
    size_t sz2 = 0;
    CHK(ABT_thread_get_stacksize(self, &sz2));
    t->lo = (uintptr_t)addr;
    t->hi = (uintptr_t)addr + sz;
    t->reported = sz2;
    t->local = (uintptr_t)&local[0];
    t->in_range = t->local >= t->lo && t->local < t->hi;
    /* the frame address at entry of the ULT function: (sp + 16) % 16 == 0 by the ABI */
    t->sp_mod16 = (int)((sp + 16) % 16);
    /* touch everything below this frame that was promised to us */
    int ok = 1;
    /* with a guard page the lowest page(s) of the stack are not usable */
    uintptr_t lo = t->lo + (g_guard ? 2 * 4096 : 0);
    if (t->in_range) {
        for (volatile char *p = (volatile char *)lo; (uintptr_t)p + 8192 < t->local; p += 61)
            *p = (char)(t->id * 7 + 1);
        for (volatile char *p = (volatile char *)lo; (uintptr_t)p + 8192 < t->local; p += 61)
            ok &= (*p == (char)(t->id * 7 + 1));
    }
    t->touched_ok = ok;
    t->alive = 1;
    /* stay alive so that the stacks of all units exist at the same time */
    while (!g_release) {
        ABT_thread_yield();
        abtv_idle_hint();
    }
    /* nobody scribbled over our part meanwhile */
    ok = 1;
    if (t->in_range)
        for (volatile char *p = (volatile char *)lo; (uintptr_t)p + 8192 < t->local; p += 61)
            ok &= (*p == (char)(t->id * 7 + 1));
    t->touched_ok &= ok;
    t->done = 1;
}
static const size_t CLASSES[] = { 16384, 16384 + 8, 16384 - 8, 32768 + 8, 32776 + 16, 65536 - 64, 65536 + 1, 4096 * 3 + 24, 20011, 99991, 262144 + 40, 1048576 + 8 };
/* one attribute object re-used for all units the primary ULT creates: user stack, then "no
 * user stack, this size" (set_stack with a null address), then a user stack again, ... */
static ABT_thread_attr g_rattr = ABT_THREAD_ATTR_NULL;
static void create_one(tinfo_t *t)
{
    ABT_thread_attr attr;
    int reuse = t->creator == 0 && g_rattr != ABT_THREAD_ATTR_NULL;
    if (reuse)
        attr = g_rattr;
    else
        CHK(ABT_thread_attr_create(&attr));
    if (t->user) {
        t->ubuf = (char *)malloc(t->req + 2 * GUARD + 64);
        memset(t->ubuf, 0x5a, t->req + 2 * GUARD + 64);
        /* any 8-byte aligned address */
        uintptr_t base = ((uintptr_t)t->ubuf + GUARD + 15) & ~(uintptr_t)15;
        base += (uintptr_t)(8 * (t->id & 1));
        t->ustack = (char *)base;
        CHK(ABT_thread_attr_set_stack(attr, t->ustack, t->req));
    } else if (reuse) {
        CHK(ABT_thread_attr_set_stack(attr, NULL, t->req));
    } else {
        CHK(ABT_thread_attr_set_stacksize(attr, t->req));
    }
    int e = rnd(g_nes);
    CHK(ABT_thread_create(g_pool[e], body, t, attr, &t->th));
    if (!reuse)
        CHK(ABT_thread_attr_free(&attr));
}
static void creator_ult(void *a)
{
    (void)a;
    for (int i = 1; i <= g_nt; i++)
        if (T[i].creator == 1)
            create_one(&T[i]);
}
static void *creator_ext(void *a)
{
    (void)a;
    for (int i = 1; i <= g_nt; i++)
        if (T[i].creator == 2)
            create_one(&T[i]);
    return NULL;
}
/* ---- descriptors of tasklets (option desc=1): an external thread creates a
 * burst of tasklets and frees them after they ran (their descriptors go back
 * through the external-thread path of the memory pool), then creates tasklets
 * that stay allocated (queued in a pool nobody serves) while the ULTs get their
 * stacks: a live descriptor must not lie inside a live stack. */
#define MAXD 12
#define DESC_BYTES 64
static ABT_pool g_hold;
static ABT_thread g_burst[64], g_dlive[MAXD];
static int g_nburst, g_ndlive;
static volatile int g_burst_done, g_dran;
static void burst_fn(void *a)
{
    (void)a;
    __sync_fetch_and_add(&g_burst_done, 1);
}
static void dlive_fn(void *a)
{
    (void)a;
    __sync_fetch_and_add(&g_dran, 1);
}
static void *burst_ext(void *a)
{
    /* descriptors that came from a stream's memory pool are freed by an external thread */
    (void)a;
    for (int i = 0; i < g_nburst; i++)
        CHK(ABT_thread_free(&g_burst[i]));
    return NULL;
}
static int cmp_u(const void *a, const void *b)
{
    uintptr_t x = *(const uintptr_t *)a, y = *(const uintptr_t *)b;
    return x < y ? -1 : x > y;
}

/* ---------------------------------------------------------------- white-box memory pool
 * Three local pools (one per external thread) over one global pool with tiny
 * buckets (2 headers) and pages (5 headers, so partial buckets occur).  Each
 * thread allocates and frees at random, owns what it holds (writes its mark
 * into the whole block and checks it before freeing). */
#define MP_THREADS 3
#define MP_ELEM 64
static ABTI_mem_pool_global_pool g_gp;
static ABTI_mem_pool_local_pool g_lp[MP_THREADS];
static void *g_seen[256];
static volatile int g_nseen;
static volatile int g_seen_lock;
static int block_id(void *p)
{
    while (__sync_lock_test_and_set(&g_seen_lock, 1))
        ;
    int id = -1;
    for (int i = 0; i < g_nseen; i++)
        if (g_seen[i] == p)
            id = i;
    if (id < 0 && g_nseen < 256) {
        id = g_nseen;
        g_seen[g_nseen++] = p;
    }
    __sync_lock_release(&g_seen_lock);
    return id + 1;
}
static void *g_left[16];
static volatile int g_nleft;
typedef struct {
    int t, nops;
    uint64_t rng;
} mp_arg_t;
static int mp_rnd(mp_arg_t *a, int n)
{
    a->rng ^= a->rng << 13;
    a->rng ^= a->rng >> 7;
    a->rng ^= a->rng << 17;
    return (int)((a->rng >> 11) % (uint64_t)n);
}
static void *mp_main(void *arg)
{
    mp_arg_t *a = (mp_arg_t *)arg;
    void *held[8];
    int nh = 0;
    for (int i = 0; i < a->nops; i++) {
        if (nh < 8 && (nh == 0 || mp_rnd(a, 5) < 3)) {
            void *p = NULL;
            int r = ABTI_mem_pool_alloc(&g_lp[a->t], &p);
            if (r != ABT_SUCCESS)
                abtv_fail("crash:api-error", ABTV_EXIT_CRASH);
            int al = (int)((uintptr_t)p % 64);
            memset(p, 0x40 + a->t, MP_ELEM);
            EV("\"e\":\"PAlloc\",\"t\":%d,\"h\":%d,\"al\":%d", a->t, block_id(p), al);
            held[nh++] = p;
        } else {
            int k = mp_rnd(a, nh);
            void *p = held[k];
            held[k] = held[--nh];
            int ok = 1;
            for (int b = 0; b < MP_ELEM; b++)
                ok &= ((unsigned char *)p)[b] == 0x40 + a->t;
            EV("\"e\":\"PFree\",\"t\":%d,\"h\":%d,\"intact\":%d", a->t, block_id(p), ok);
            ABTI_mem_pool_free(&g_lp[a->t], p);
        }
        abtv_point();
    }
    /* some blocks outlive the local pool they came from (it is destroyed while they are in use)
     * and are given back through another local pool later */
    int keep = a->t < 2 ? mp_rnd(a, 4) : 0;
    while (nh > keep) {
        void *p = held[--nh];
        int ok = 1;
        for (int b = 0; b < MP_ELEM; b++)
            ok &= ((unsigned char *)p)[b] == 0x40 + a->t;
        EV("\"e\":\"PFree\",\"t\":%d,\"h\":%d,\"intact\":%d", a->t, block_id(p), ok);
        ABTI_mem_pool_free(&g_lp[a->t], p);
    }
    while (nh) {
        void *p = held[--nh];
        EV("\"e\":\"PMove\",\"t\":%d,\"h\":%d,\"to\":9", a->t, block_id(p));
        memset(p, 0x49, MP_ELEM);
        g_left[__sync_fetch_and_add(&g_nleft, 1)] = p;
    }
    return NULL;
}
static void scn_mpool(uint64_t seed)
{
    abtv_ledger_reset();
    abtv_ledger_track(1);
    g_nseen = 0;
    ABTU_MEM_LARGEPAGE_TYPE types[1] = { ABTU_MEM_LARGEPAGE_MALLOC };
    /* buckets of 2..5 headers, pages of 2 buckets + 1 header (so partial buckets occur) */
    int nb = 2 + rnd(4);
    g_nleft = 0;
    ABTI_mem_pool_init_global_pool(&g_gp, (size_t)nb, MP_ELEM, 0, MP_ELEM * (size_t)(2 * nb + 1), types, 1, 64, NULL);
    for (int t = 0; t < MP_THREADS; t++)
        if (ABTI_mem_pool_init_local_pool(&g_lp[t], &g_gp) != ABT_SUCCESS)
            abtv_fail("crash:api-error", ABTV_EXIT_CRASH);
    pthread_t th[MP_THREADS];
    mp_arg_t args[MP_THREADS];
    for (int t = 0; t < MP_THREADS; t++) {
        args[t].t = t;
        args[t].nops = 6 + rnd(30);
        args[t].rng = (seed * 31 + (uint64_t)t + 1) * 0x9E3779B97F4A7C15ULL;
        pthread_create(&th[t], NULL, mp_main, &args[t]);
    }
    for (int t = 0; t < MP_THREADS; t++)
        pthread_join(th[t], NULL);
    /* two local pools go away (their incomplete buckets are merged in the global pool) while some
     * of their blocks are still in use; the third one gives those back and then takes several
     * buckets' worth of blocks: every one a block of its own, all of them usable */
    ABTI_mem_pool_destroy_local_pool(&g_lp[0]);
    ABTI_mem_pool_destroy_local_pool(&g_lp[1]);
    for (int i = 0; i < g_nleft; i++) {
        void *p = g_left[i];
        int ok = 1;
        for (int b = 0; b < MP_ELEM; b++)
            ok &= ((unsigned char *)p)[b] == 0x49;
        EV("\"e\":\"PFree\",\"t\":9,\"h\":%d,\"intact\":%d", block_id(p), ok);
        ABTI_mem_pool_free(&g_lp[2], p);
    }
    {
        void *many[24];
        int nm = 3 * nb + 2;
        for (int i = 0; i < nm; i++) {
            if (ABTI_mem_pool_alloc(&g_lp[2], &many[i]) != ABT_SUCCESS)
                abtv_fail("crash:api-error", ABTV_EXIT_CRASH);
            memset(many[i], 0x60 + i, MP_ELEM);
            EV("\"e\":\"PAlloc\",\"t\":9,\"h\":%d,\"al\":%d", block_id(many[i]), (int)((uintptr_t)many[i] % 64));
        }
        for (int i = 0; i < nm; i++) {
            int ok = 1;
            for (int b = 0; b < MP_ELEM; b++)
                ok &= ((unsigned char *)many[i])[b] == 0x60 + i;
            EV("\"e\":\"PFree\",\"t\":9,\"h\":%d,\"intact\":%d", block_id(many[i]), ok);
            ABTI_mem_pool_free(&g_lp[2], many[i]);
        }
    }
    ABTI_mem_pool_destroy_local_pool(&g_lp[2]);
    {
        /* conservation: every block is back in the global pool now; local pools that come and go,
         * each taking and returning some blocks (so that partial buckets are merged again and
         * again), must be served from what is there -- no further page is obtained */
        long live0 = abtv_ledger_live();
        for (int rep = 0; rep < 6; rep++) {
            ABTI_mem_pool_local_pool lp;
            void *some[24];
            int ns = 1 + rnd(3 * nb);
            if (ABTI_mem_pool_init_local_pool(&lp, &g_gp) != ABT_SUCCESS)
                abtv_fail("crash:api-error", ABTV_EXIT_CRASH);
            for (int i = 0; i < ns; i++)
                if (ABTI_mem_pool_alloc(&lp, &some[i]) != ABT_SUCCESS)
                    abtv_fail("crash:api-error", ABTV_EXIT_CRASH);
            for (int i = 0; i < ns; i++)
                ABTI_mem_pool_free(&lp, some[i]);
            ABTI_mem_pool_destroy_local_pool(&lp);
        }
        EV("\"e\":\"PConserve\",\"live0\":%ld,\"live1\":%ld", live0, abtv_ledger_live());
    }
    ABTI_mem_pool_destroy_global_pool(&g_gp);
    EV("\"e\":\"Ledger\",\"live\":%ld,\"errors\":%ld,\"allocs\":%d", abtv_ledger_live(), abtv_ledger_errors(), abtv_ledger_allocs() > 0);
    abtv_ledger_track(0);
}
/* ---------------------------------------------------------------- scenario "churn"
 * (free-running mode): ULTs in a pool shared by three streams create tasklets
 * and free them at once -- the free joins a tasklet that has not run yet, so the
 * caller yields and is usually resumed on another stream.  Descriptors must go
 * back to the pool of the stream the caller is on *now*; a descriptor returned
 * to the unsynchronized local pool of another stream corrupts that pool (two
 * live tasklets get the same descriptor, or the allocator crashes).  Plain
 * (non-atomic) pool state can only be raced by real threads, so this scenario
 * is meaningful in free mode only. */
#define CH_ULTS 6
#define CH_TAB 4096
static void *g_chtab[CH_TAB];
static volatile int g_chlk;
static volatile long g_chdup, g_chiters, g_chmoved;
static int g_chrounds;
static void ch_lock(void)
{
    while (__sync_lock_test_and_set(&g_chlk, 1))
        ;
}
static void ch_unlock(void) { __sync_lock_release(&g_chlk); }
static void ch_reg(void *h, int on)
{
    ch_lock();
    unsigned k = (unsigned)(((uintptr_t)h >> 6) * 2654435761u) % CH_TAB;
    for (unsigned i = 0; i < CH_TAB; i++) {
        unsigned j = (k + i) % CH_TAB;
        if (on) {
            if (g_chtab[j] == h)
                g_chdup++;
            if (g_chtab[j] == NULL || g_chtab[j] == (void *)1) {
                g_chtab[j] = h;
                break;
            }
        } else {
            if (g_chtab[j] == h) {
                g_chtab[j] = (void *)1;
                break;
            }
            if (g_chtab[j] == NULL)
                break;
        }
    }
    ch_unlock();
}
static void ch_task(void *a) { (void)a; }
static void ch_ult(void *a)
{
    ABT_pool sp = (ABT_pool)a;
    for (int i = 0; i < g_chrounds; i++) {
        ABT_thread t[4];
        int r0 = -1, r1 = -1;
        ABT_xstream_self_rank(&r0);
        for (int k = 0; k < 4; k++) {
            CHK(ABT_task_create(sp, ch_task, NULL, &t[k]));
            ch_reg((void *)t[k], 1);
        }
        for (int k = 0; k < 4; k++) {
            ch_reg((void *)t[k], 0);
            CHK(ABT_thread_free(&t[k]));
        }
        ABT_xstream_self_rank(&r1);
        if (r0 != r1)
            __sync_fetch_and_add(&g_chmoved, 1);
        __sync_fetch_and_add(&g_chiters, 1);
    }
}
static void scn_churn(void)
{
    g_chrounds = (int)opt_long("rounds", 1500);
    memset(g_chtab, 0, sizeof g_chtab);
    g_chdup = g_chiters = g_chmoved = 0;
    CHK(ABT_init(0, NULL));
    ABT_pool sp;
    ABT_xstream xs[2];
    CHK(ABT_pool_create_basic(ABT_POOL_FIFO, ABT_POOL_ACCESS_MPMC, ABT_TRUE, &sp));
    for (int e = 0; e < 2; e++) {
        ABT_sched sc;
        CHK(ABT_sched_create_basic(ABT_SCHED_BASIC, 1, &sp, ABT_SCHED_CONFIG_NULL, &sc));
        CHK(ABT_xstream_create(sc, &xs[e]));
    }
    ABT_thread u[CH_ULTS];
    for (int i = 0; i < CH_ULTS; i++)
        CHK(ABT_thread_create(sp, ch_ult, (void *)sp, ABT_THREAD_ATTR_NULL, &u[i]));
    for (int i = 0; i < CH_ULTS; i++)
        CHK(ABT_thread_free(&u[i]));
    for (int e = 0; e < 2; e++) {
        CHK(ABT_xstream_join(xs[e]));
        CHK(ABT_xstream_free(&xs[e]));
    }
    CHK(ABT_finalize());
    EV("\"e\":\"Churn\",\"iters\":%ld,\"dup\":%ld,\"moved\":%d", g_chiters, g_chdup, g_chmoved > 0);
}
static void scenario(const char *name, uint64_t seed)
{
    if (!strcmp(name, "churn")) {
        scn_churn();
        return;
    }
    if (!strcmp(name, "mpool")) {
        scn_mpool(seed);
        return;
    }
    (void)name;
    (void)seed;
    g_nes = 1 + (int)opt_long("nes", 1);
    int mem = (int)opt_long("mem", 0);
    static const char *lp[] = { "mmap_rp", "malloc", "mmap_rp", "malloc" };
    setenv("ABT_MEM_LP_ALLOC", lp[mem & 3], 1);
    if (mem >= 2) {
        setenv("ABT_MEM_MAX_NUM_STACKS", "8", 1);
        setenv("ABT_MEM_MAX_NUM_DESCS", "8", 1);
        setenv("ABT_MEM_STACK_PAGE_SIZE", "131072", 1);
        setenv("ABT_MEM_PAGE_SIZE", "4096", 1);
    } else {
        unsetenv("ABT_MEM_MAX_NUM_STACKS");
        unsetenv("ABT_MEM_MAX_NUM_DESCS");
        unsetenv("ABT_MEM_STACK_PAGE_SIZE");
        unsetenv("ABT_MEM_PAGE_SIZE");
    }
    int guard = (int)opt_long("guard", 0);
    g_guard = guard;
    if (guard)
        setenv("ABT_STACK_OVERFLOW_CHECK", guard == 2 ? "mprotect_strict" : "mprotect", 1);
    else
        unsetenv("ABT_STACK_OVERFLOW_CHECK");
    abtv_ledger_reset();
    abtv_ledger_track(1);
    CHK(ABT_init(0, NULL));
    CHK(ABT_xstream_self(&g_xs[0]));
    CHK(ABT_xstream_get_main_pools(g_xs[0], 1, &g_pool[0]));
    for (int e = 1; e < g_nes; e++) {
        CHK(ABT_xstream_create(ABT_SCHED_NULL, &g_xs[e]));
        CHK(ABT_xstream_get_main_pools(g_xs[e], 1, &g_pool[e]));
    }
    memset(T, 0, sizeof T);
    g_release = 0;
    int desc = (int)opt_long("desc", 0);
    g_nburst = g_ndlive = 0;
    g_burst_done = g_dran = 0;
    if (desc) {
        CHK(ABT_pool_create_basic(ABT_POOL_FIFO, ABT_POOL_ACCESS_MPMC, ABT_FALSE, &g_hold));
        g_nburst = 20 + rnd(44);
        g_ndlive = 2 + rnd(MAXD - 1);
        for (int i = 0; i < g_nburst; i++)
            CHK(ABT_task_create(g_pool[i % g_nes], burst_fn, NULL, &g_burst[i]));
        pthread_t bt;
        pthread_create(&bt, NULL, burst_ext, NULL);
        /* the primary ULT lets its scheduler run the burst */
        while (g_burst_done < g_nburst) {
            ABT_thread_yield();
            abtv_idle_hint();
        }
        pthread_join(bt, NULL);
        for (int i = 0; i < g_ndlive; i++)
            CHK(ABT_task_create(g_hold, dlive_fn, NULL, &g_dlive[i]));
    }
    g_nt = 2 + rnd(MAXT - 1);
    int have_ext = rnd(2), have_ult = g_nes > 1 && rnd(2);
    for (int i = 1; i <= g_nt; i++) {
        tinfo_t *t = &T[i];
        t->id = i;
        t->user = rnd(4) == 0;
        int c = rnd(3);
        t->req = c == 0 ? CLASSES[rnd((int)(sizeof CLASSES / sizeof *CLASSES))]
                        : c == 1 ? (size_t)(8192 + 8 * rnd(8192)) : (size_t)(16384 + rnd(200000));
        if (desc && rnd(4))
            t->user = 0, t->req = 16384; /* default size: the stack comes from the memory pool */
        if (g_guard && t->req < 40960)
            t->req += 32768; /* the guard page(s) are taken from the stack */
        if (t->user)
            t->req &= ~(size_t)7;
        t->creator = rnd(3);
        if (t->creator == 2 && !have_ext)
            t->creator = 0;
        if (t->creator == 1 && !have_ult)
            t->creator = 0;
    }
    g_rattr = ABT_THREAD_ATTR_NULL;
    if (rnd(2))
        CHK(ABT_thread_attr_create(&g_rattr));
    pthread_t ext;
    ABT_thread cu = ABT_THREAD_NULL;
    if (have_ext)
        pthread_create(&ext, NULL, creator_ext, NULL);
    if (have_ult)
        CHK(ABT_thread_create(g_pool[1], creator_ult, NULL, ABT_THREAD_ATTR_NULL, &cu));
    for (int i = 1; i <= g_nt; i++)
        if (T[i].creator == 0)
            create_one(&T[i]);
    if (have_ext)
        pthread_join(ext, NULL);
    if (have_ult)
        CHK(ABT_thread_free(&cu));
    if (g_rattr != ABT_THREAD_ATTR_NULL)
        CHK(ABT_thread_attr_free(&g_rattr));
    /* all units alive at the same time */
    for (int i = 1; i <= g_nt; i++)
        while (!T[i].alive) {
            ABT_thread_yield();
            abtv_idle_hint();
        }
    /* ranks of all range end points */
    uintptr_t pts[2 * MAXT + 2 * MAXD];
    int np = 0;
    for (int i = 1; i <= g_nt; i++) {
        pts[np++] = T[i].lo;
        pts[np++] = T[i].hi;
    }
    for (int i = 0; i < g_ndlive; i++) {
        pts[np++] = (uintptr_t)g_dlive[i];
        pts[np++] = (uintptr_t)g_dlive[i] + DESC_BYTES;
    }
    qsort(pts, (size_t)np, sizeof pts[0], cmp_u);
    for (int i = 0; i < g_ndlive; i++) {
        uintptr_t lo = (uintptr_t)g_dlive[i], hi = lo + DESC_BYTES;
        int rlo = 0, rhi = 0;
        for (int k = 0; k < np; k++) {
            if (pts[k] < lo)
                rlo = k + 1;
            if (pts[k] < hi)
                rhi = k + 1;
        }
        EV("\"e\":\"Desc\",\"u\":%d,\"rlo\":%d,\"rhi\":%d,\"al\":%d", 101 + i, rlo, rhi, (int)(lo % 8));
    }
    for (int i = 1; i <= g_nt; i++) {
        tinfo_t *t = &T[i];
        int rlo = 0, rhi = 0;
        for (int k = 0; k < np; k++) {
            if (pts[k] < t->lo)
                rlo = k + 1;
            if (pts[k] < t->hi)
                rhi = k + 1;
        }
        /* distinct addresses get distinct ranks; equal addresses the same rank */
        EV("\"e\":\"Stack\",\"u\":%d,\"user\":%d,\"req\":%d,\"size\":%d,\"rep\":%d,\"rlo\":%d,\"rhi\":%d,\"lo8\":%d,\"sp16\":%d,\"inr\":%d,"
           "\"userlo\":%d",
           i, t->user, (int)t->req, (int)(t->hi - t->lo), (int)t->reported, rlo, rhi, (int)(t->lo % 8), t->sp_mod16, t->in_range,
           t->user ? (t->lo == (uintptr_t)t->ustack) : 1);
    }
    g_release = 1;
    for (int i = 1; i <= g_nt; i++) {
        tinfo_t *t = &T[i];
        /* frees come from different kinds of callers too */
        CHK(ABT_thread_free(&t->th));
        int guard_ok = 1;
        if (t->user) {
            for (char *p = t->ubuf; p < t->ustack; p++)
                guard_ok &= (*p == 0x5a);
            for (char *p = t->ustack + t->req; p < t->ubuf + t->req + 2 * GUARD + 64; p++)
                guard_ok &= (*p == 0x5a);
            /* the stack is the user's again: every byte of it must be writable */
            memset(t->ustack, 0x33, t->req);
            free(t->ubuf);
        }
        EV("\"e\":\"StackEnd\",\"u\":%d,\"touched\":%d,\"guard\":%d,\"done\":%d", i, t->touched_ok, guard_ok, t->done);
    }
    if (desc) {
        for (int i = 0; i < g_ndlive; i++) {
            ABT_thread t = ABT_THREAD_NULL;
            CHK(ABT_pool_pop_thread(g_hold, &t));
            if (t != ABT_THREAD_NULL)
                CHK(ABT_self_schedule(t, ABT_POOL_NULL));
        }
        for (int i = 0; i < g_ndlive; i++) {
            CHK(ABT_thread_free(&g_dlive[i]));
            EV("\"e\":\"DescEnd\",\"u\":%d,\"ran\":%d", 101 + i, g_dran == g_ndlive);
        }
        CHK(ABT_pool_free(&g_hold));
    }
    for (int e = 1; e < g_nes; e++) {
        CHK(ABT_xstream_join(g_xs[e]));
        CHK(ABT_xstream_free(&g_xs[e]));
    }
    CHK(ABT_finalize());
    EV("\"e\":\"Ledger\",\"live\":%ld,\"errors\":%ld,\"allocs\":%d", abtv_ledger_live(), abtv_ledger_errors(), abtv_ledger_allocs() > 0);
    abtv_ledger_track(0);
}
