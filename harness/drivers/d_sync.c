/* Driver for the synchronisation objects: C04 mutex, C05/C19 cond, C08
 * barrier, C09 eventual/future, C10 rwlock.  Callers are ULTs on 1..3
 * execution streams, external threads and (where legal) tasklets.  Scripts
 * are generated from the seed but always follow a discipline under which a
 * correct implementation terminates, so a run that does not finish is
 * evidence of a lost wake-up / stuck locker.  Raw returns are logged (no
 * predicate loops) so spurious or missing wake-ups are visible to the
 * history specs spec/hist/H_{Mutex,Cond,Barrier,Eventual,Future,RWLock}. */
#include "callers.h"
#include <time.h>

static int g_nes_sec;

/* kinds allowed: bit0 ULT, bit1 EXT */
static void assign_kinds(int n, int allow_ext, int allow_task)
{
    g_nc = n;
    for (int i = 0; i < n; i++) {
        caller_t *c = &g_c[i];
        memset(c, 0, sizeof *c);
        c->id = i + 1;
        int r = rnd(10);
        c->kind = K_ULT;
        if (allow_ext && r < 3)
            c->kind = K_EXT;
        else if (allow_task && r == 3)
            c->kind = K_TASK;
        c->es = rnd(g_nes);
    }
}

/* ======================================================================= mutex */
static ABT_mutex g_m;
static ABT_mutex_memory g_m_mem = ABT_MUTEX_INITIALIZER;
static ABT_mutex_memory g_m_rmem = ABT_RECURSIVE_MUTEX_INITIALIZER;
static int g_recursive, g_cs_yield;
static volatile int g_holders;

enum { A_LOCK, A_LOW, A_HIGH, A_TRY, A_SPIN };
static int acquire(caller_t *c, int how, int blocking_try)
{
    int id = c->id;
    switch (how) {
        case A_LOCK:
            EV("\"e\":\"MCall\",\"t\":%d,\"op\":\"lock\"", id);
            CHK(ABT_mutex_lock(g_m));
            EV("\"e\":\"MRet\",\"t\":%d,\"op\":\"lock\",\"r\":1", id);
            return 1;
        case A_LOW:
            EV("\"e\":\"MCall\",\"t\":%d,\"op\":\"lock\"", id);
            CHK(ABT_mutex_lock_low(g_m));
            EV("\"e\":\"MRet\",\"t\":%d,\"op\":\"lock\",\"r\":1", id);
            return 1;
        case A_HIGH:
            EV("\"e\":\"MCall\",\"t\":%d,\"op\":\"lock\"", id);
            CHK(ABT_mutex_lock_high(g_m));
            EV("\"e\":\"MRet\",\"t\":%d,\"op\":\"lock\",\"r\":1", id);
            return 1;
        case A_SPIN:
            EV("\"e\":\"MCall\",\"t\":%d,\"op\":\"lock\"", id);
            CHK(ABT_mutex_spinlock(g_m));
            EV("\"e\":\"MRet\",\"t\":%d,\"op\":\"lock\",\"r\":1", id);
            return 1;
        case A_TRY:
            for (int tries = 0;; tries++) {
                EV("\"e\":\"MCall\",\"t\":%d,\"op\":\"try\"", id);
                int r = ABT_mutex_trylock(g_m);
                if (r != ABT_SUCCESS && r != ABT_ERR_MUTEX_LOCKED)
                    CHK(r);
                EV("\"e\":\"MRet\",\"t\":%d,\"op\":\"try\",\"r\":%d", id, r == ABT_SUCCESS);
                if (r == ABT_SUCCESS)
                    return 1;
                if (!blocking_try || tries > 200)
                    return 0;
                drv_pause(c);
            }
    }
    return 0;
}
static void release(caller_t *c, int how)
{
    EV("\"e\":\"MCall\",\"t\":%d,\"op\":\"unlock\"", c->id);
    if (how == 0)
        CHK(ABT_mutex_unlock(g_m));
    else if (how == 1)
        CHK(ABT_mutex_unlock_se(g_m));
    else
        CHK(ABT_mutex_unlock_de(g_m));
    EV("\"e\":\"MRet\",\"t\":%d,\"op\":\"unlock\",\"r\":1", c->id);
}
static void mutex_body(caller_t *c)
{
    int rounds = c->x[0];
    for (int r = 0; r < rounds; r++) {
        int how = c->x[1 + (r % 3)];
        if (c->kind == K_TASK)
            how = A_TRY;
        if (!acquire(c, how, c->kind != K_TASK))
            continue;
        int h = __sync_add_and_fetch(&g_holders, 1);
        EV("\"e\":\"Enter\",\"t\":%d,\"h\":%d", c->id, h);
        int nest = 0, deep = 0;
        if (g_recursive && c->x[5]) {
            /* nested acquisition by the owner must succeed without blocking */
            acquire(c, (r & 1) ? A_TRY : A_LOCK, 0);
            nest = 1;
            if (c->x[7]) {
                /* deep nesting: the mutex stays held until as many unlocks as locks */
                deep = c->x[7];
                for (int k = 0; k < deep; k++) {
                    int rr = (k % 3 == 0) ? ABT_mutex_trylock(g_m) : (k % 3 == 1) ? ABT_mutex_lock(g_m) : ABT_mutex_spinlock(g_m);
                    CHK(rr);
                }
                EV("\"e\":\"MNest\",\"t\":%d,\"n\":%d", c->id, deep);
            }
        }
        if (g_cs_yield && c->kind == K_ULT && c->x[4])
            ABT_thread_yield();
        else
            abtv_point();
        if (deep) {
            for (int k = 0; k < deep; k++) {
                CHK(ABT_mutex_unlock(g_m));
                if (k % 37 == 0)
                    abtv_point();
            }
            EV("\"e\":\"MNest\",\"t\":%d,\"n\":%d", c->id, -deep);
            abtv_point();
        }
        if (nest)
            release(c, 0);
        h = __sync_sub_and_fetch(&g_holders, 1);
        EV("\"e\":\"Leave\",\"t\":%d,\"h\":%d", c->id, h);
        release(c, c->x[6]);
        if (c->kind == K_ULT && rnd(2))
            ABT_thread_yield();
    }
}
static void scn_mutex(void)
{
    int n = 2 + rnd(3);
    int variant = rnd(4); /* 0 dynamic, 1 static, 2 dynamic recursive, 3 static recursive */
    g_recursive = variant >= 2;
    int use_spin = rnd(4) == 0;
    g_cs_yield = !use_spin;
    g_holders = 0;
    if (variant == 0) {
        CHK(ABT_mutex_create(&g_m));
    } else if (variant == 2) {
        ABT_mutex_attr at;
        CHK(ABT_mutex_attr_create(&at));
        CHK(ABT_mutex_attr_set_recursive(at, ABT_TRUE));
        CHK(ABT_mutex_create_with_attr(at, &g_m));
        CHK(ABT_mutex_attr_free(&at));
    } else if (variant == 1) {
        ABT_mutex_memory init = ABT_MUTEX_INITIALIZER;
        g_m_mem = init;
        g_m = ABT_MUTEX_MEMORY_GET_HANDLE(&g_m_mem);
    } else {
        ABT_mutex_memory init = ABT_RECURSIVE_MUTEX_INITIALIZER;
        g_m_rmem = init;
        g_m = ABT_MUTEX_MEMORY_GET_HANDLE(&g_m_rmem);
    }
    EV("\"e\":\"Mutex\",\"recursive\":%d,\"variant\":%d", g_recursive, variant);
    /* tasklets only try once: a tasklet that blocks stops its whole stream */
    assign_kinds(n, 1, 1);
    for (int i = 0; i < n; i++) {
        caller_t *c = &g_c[i];
        c->body = mutex_body;
        c->x[0] = 1 + rnd(3);
        for (int k = 1; k <= 3; k++) {
            int h = rnd(use_spin ? 5 : 4);
            c->x[k] = h;
        }
        c->x[4] = rnd(2);
        c->x[5] = rnd(2);
        c->x[6] = rnd(3);
        static const int depths[] = { 0, 0, 0, 2, 5, 260, 700, 66000 };
        c->x[7] = (c->kind != K_TASK) ? depths[rnd(8)] : 0;
    }
    callers_launch(32768);
    callers_join();
    if (variant == 0 || variant == 2)
        CHK(ABT_mutex_free(&g_m));
}

/* ======================================================================= cond */
static ABT_cond g_cv;
static struct {
    int nwaiters, returned, success, issued_credit; /* under g_m */
    int present_untimed;
} g_cs;
static int64_t g_t0;
static int rel_us(void) { return (int)((abtv_now_ns() - g_t0) / 1000); }
/* reading the clock lets (virtual) time pass */
static int rel_us_tick(void)
{
    struct timespec ts;
    clock_gettime(CLOCK_REALTIME, &ts);
    return (int)(((int64_t)ts.tv_sec * 1000000000LL + ts.tv_nsec - g_t0) / 1000);
}

static void cond_waiter(caller_t *c)
{
    int timed = c->x[0], dl_us = c->x[1];
    if (c->kind == K_ULT && c->x[2])
        ABT_thread_yield();
    /* a late waiter joins the queue after the short deadlines have expired */
    while (c->x[3] > 0 && rel_us_tick() < c->x[3]) {
        abtv_poll_until(g_t0 + (int64_t)c->x[3] * 1000);
        drv_pause(c);
    }
    CHK(ABT_mutex_lock(g_m));
    EV("\"e\":\"Acq\",\"t\":%d", c->id);
    int r;
    if (timed) {
        int64_t dl = abtv_now_ns() + (int64_t)dl_us * 1000;
        struct timespec ts = { dl / 1000000000LL, dl % 1000000000LL };
        if (dl_us >= 100000000)
            g_cs.present_untimed++; /* a far deadline behaves like an untimed wait */
        EV("\"e\":\"WaitCall\",\"t\":%d,\"timed\":1,\"dl\":%d", c->id, (int)((dl - g_t0) / 1000));
        r = ABT_cond_timedwait(g_cv, g_m, &ts);
    } else {
        g_cs.present_untimed++;
        EV("\"e\":\"WaitCall\",\"t\":%d,\"timed\":0,\"dl\":0", c->id);
        r = ABT_cond_wait(g_cv, g_m);
        g_cs.present_untimed--;
    }
    if (timed && dl_us >= 100000000)
        g_cs.present_untimed--;
    int h = __sync_add_and_fetch(&g_holders, 1);
    if (r != ABT_SUCCESS && r != ABT_ERR_COND_TIMEDOUT)
        CHK(r);
    EV("\"e\":\"WaitRet\",\"t\":%d,\"ok\":%d,\"now\":%d,\"h\":%d", c->id, r == ABT_SUCCESS, rel_us(), h);
    g_cs.returned++;
    if (r == ABT_SUCCESS)
        g_cs.success++;
    /* stay inside for a moment: nobody else may get the mutex now */
    for (int k = 0; k < 4; k++)
        abtv_point();
    __sync_sub_and_fetch(&g_holders, 1);
    EV("\"e\":\"Rel\",\"t\":%d", c->id);
    CHK(ABT_mutex_unlock(g_m));
}
/* The signaller issues a signal only while an untimed waiter is inside
 * ABT_cond_wait, and waits for the SUCCESS return(s) each signal must cause
 * before issuing the next one: in a correct implementation every signal
 * issued while the queue is non-empty produces exactly one SUCCESS return. */
static void cond_signaller(caller_t *c)
{
    int use_bcast = c->x[0];
    /* holding the signals back lets timed waiters expire in the middle of the
     * queue while untimed ones stay in it */
    while (c->x[1] > 0 && rel_us_tick() < c->x[1]) {
        abtv_poll_until(g_t0 + (int64_t)c->x[1] * 1000);
        drv_pause(c);
    }
    for (;;) {
        CHK(ABT_mutex_lock(g_m));
        __sync_add_and_fetch(&g_holders, 1);
        int done = g_cs.returned == g_cs.nwaiters;
        int p = g_cs.present_untimed;
        int expect = -1, after = 0;
        if (!done && p > 0 && rnd(4) == 0) {
            /* signal after the mutex has been given back: the waiters counted above have all
             * released it inside their wait, i.e. they are on the wait list */
            after = 1 + (use_bcast && rnd(2));
            expect = g_cs.success + (after == 2 ? p : 1);
            EV("\"e\":\"Acq\",\"t\":%d", c->id);
            EV("\"e\":\"Rel\",\"t\":%d", c->id);
        } else if (!done && p > 0) {
            EV("\"e\":\"Acq\",\"t\":%d", c->id);
            if (use_bcast && rnd(2)) {
                EV("\"e\":\"Bcast\",\"t\":%d,\"at\":%d", c->id, rel_us());
                CHK(ABT_cond_broadcast(g_cv));
                expect = g_cs.success + p; /* at least the untimed ones present */
            } else {
                /* one signal, or as many signals in a row as waiters are certainly present */
                int nsig = (p >= 2 && rnd(2)) ? 2 + (p >= 3 && rnd(2)) : 1;
                for (int k = 0; k < nsig; k++) {
                    EV("\"e\":\"Signal\",\"t\":%d,\"at\":%d", c->id, rel_us());
                    CHK(ABT_cond_signal(g_cv));
                }
                expect = g_cs.success + nsig;
            }
            EV("\"e\":\"Rel\",\"t\":%d", c->id);
        }
        __sync_sub_and_fetch(&g_holders, 1);
        CHK(ABT_mutex_unlock(g_m));
        if (!done && p == 0 && c->x[2]) {
            /* nobody was waiting a moment ago: signals sent now, without touching the mutex, may
             * reach a waiter that has arrived meanwhile */
            for (int k = 0; k < 2; k++) {
                for (int j = 0; j < 6; j++)
                    drv_pause(c);
                EV("\"e\":\"SigCall\",\"t\":%d,\"kind\":\"maybe\",\"at\":%d", c->id, rel_us());
                CHK(ABT_cond_signal(g_cv));
                EV("\"e\":\"SigRet\",\"t\":%d", c->id);
            }
        }
        if (after) {
            EV("\"e\":\"SigCall\",\"t\":%d,\"kind\":\"%s\",\"at\":%d", c->id, after == 1 ? "signal" : "bcast", rel_us());
            if (after == 1)
                CHK(ABT_cond_signal(g_cv));
            else
                CHK(ABT_cond_broadcast(g_cv));
            EV("\"e\":\"SigRet\",\"t\":%d", c->id);
        }
        if (done)
            break;
        if (expect >= 0) {
            while (*(volatile int *)&g_cs.success < expect)
                drv_pause(c);
        } else {
            drv_pause(c);
        }
    }
}
static void scn_cond(int timed_mode)
{
    /* timed_mode 0: untimed waiters only (C05); 1: mixed timed/untimed (C19) */
    int nw = 1 + rnd(timed_mode ? 6 : 4);
    memset(&g_cs, 0, sizeof g_cs);
    g_holders = 0;
    g_t0 = abtv_now_ns();
    abtv_clock_tick_ns(1000);
    int recursive = rnd(4) == 0;
    if (recursive) {
        /* a recursive mutex, locked once by each waiter */
        ABT_mutex_attr ma;
        CHK(ABT_mutex_attr_create(&ma));
        CHK(ABT_mutex_attr_set_recursive(ma, ABT_TRUE));
        CHK(ABT_mutex_create_with_attr(ma, &g_m));
        CHK(ABT_mutex_attr_free(&ma));
    } else
        CHK(ABT_mutex_create(&g_m));
    CHK(ABT_cond_create(&g_cv));
    assign_kinds(nw + 1, 1, 0);
    g_cs.nwaiters = nw;
    int all_timed = timed_mode && rnd(3) == 0;
    int ext_heavy = timed_mode && rnd(4) == 0;
    for (int i = 0; i < nw; i++) {
        caller_t *c = &g_c[i];
        c->body = cond_waiter;
        c->x[0] = timed_mode ? (all_timed || rnd(2)) : 0;
        /* deadlines: in the past, near, far */
        int cls = rnd(4);
        c->x[1] = cls == 0 ? -5 : cls == 1 ? 3 + rnd(20) : cls == 2 ? 40 + rnd(200) : 100000000;
        c->x[2] = rnd(2);
        c->x[3] = (timed_mode && rnd(3) == 0) ? 250 + rnd(150) : 0;
        if (ext_heavy) {
            /* external threads sleeping (futex) in timed waits with far deadlines */
            c->kind = K_EXT;
            c->x[0] = 1;
            c->x[1] = 100000000;
            c->x[3] = 0;
        }
    }
    caller_t *s = &g_c[nw];
    s->body = cond_signaller;
    s->x[0] = rnd(2);
    s->x[1] = (timed_mode && rnd(2)) ? 300 + rnd(200) : 0;
    s->x[2] = recursive || rnd(3) == 0;
    EV("\"e\":\"Cond\",\"nw\":%d,\"timed\":%d,\"hold\":%d", nw, timed_mode, s->x[1]);
    callers_launch(32768);
    callers_join();
    EV("\"e\":\"CondEnd\",\"returned\":%d", g_cs.returned);
    CHK(ABT_cond_free(&g_cv));
    CHK(ABT_mutex_free(&g_m));
}

/* ======================================================================= barrier */
static ABT_barrier g_bar;
static volatile int g_bar_reinit_n; /* >0: the first caller that leaves the last round reinitialises the barrier */
static void barrier_body(caller_t *c)
{
    int first = c->x[0], rounds = c->x[1];
    for (int k = 0; k < rounds; k++) {
        if (c->kind == K_ULT && ((c->x[2] >> k) & 1))
            ABT_thread_yield();
        EV("\"e\":\"BarCall\",\"t\":%d,\"k\":%d", c->id, first + k);
        CHK(ABT_barrier_wait(g_bar));
        EV("\"e\":\"BarRet\",\"t\":%d,\"k\":%d", c->id, first + k);
    }
    /* a fast caller reinitialises the barrier while slow ones are still leaving the last round */
    int n2 = g_bar_reinit_n;
    if (n2 > 0 && __sync_bool_compare_and_swap(&g_bar_reinit_n, n2, -n2)) {
        uint32_t got = 0;
        CHK(ABT_barrier_reinit(g_bar, (uint32_t)n2));
        CHK(ABT_barrier_get_num_waiters(g_bar, &got));
        EV("\"e\":\"Barrier\",\"n\":%d", (int)got);
    }
}
/* a tasklet is not allowed to wait on a barrier (1.x API): the call is rejected
 * and must not count as an arrival */
static void barrier_tasklet(void *a)
{
    (void)a;
    int r = ABT_barrier_wait(g_bar);
    EV("\"e\":\"BarReject\",\"ret\":%d", r == ABT_ERR_BARRIER ? 1 : r == ABT_SUCCESS ? 0 : 2);
}
static void barrier_intruder(void)
{
    ABT_thread t;
    CHK(ABT_task_create(g_pools[rnd(g_nes)], barrier_tasklet, NULL, &t));
    CHK(ABT_thread_free(&t));
}
/* Execution-stream barrier: the waiter blocks its whole stream (or external thread), so at
 * most one ULT / tasklet waiter per secondary stream; the rest are external threads. */
static ABT_xstream_barrier g_xbar;
static void xbarrier_body(caller_t *c)
{
    for (int k = 0; k < c->x[1]; k++) {
        if (c->kind == K_ULT && ((c->x[2] >> k) & 1))
            ABT_thread_yield();
        EV("\"e\":\"BarCall\",\"t\":%d,\"k\":%d", c->id, k);
        CHK(ABT_xstream_barrier_wait(g_xbar));
        EV("\"e\":\"BarRet\",\"t\":%d,\"k\":%d", c->id, k);
    }
}
static void scn_xbarrier(void)
{
    int nult = g_nes > 1 ? rnd(g_nes) : 0;
    int next = rnd(3);
    if (nult + next == 0)
        next = 1;
    int n = nult + next, rounds = 1 + rnd(3);
    CHK(ABT_xstream_barrier_create((uint32_t)n, &g_xbar));
    g_nc = n;
    for (int i = 0; i < n; i++) {
        caller_t *c = &g_c[i];
        memset(c, 0, sizeof *c);
        c->id = i + 1;
        c->kind = i < nult ? (rnd(4) == 0 ? K_TASK : K_ULT) : K_EXT;
        c->es = i < nult ? 1 + i : 0;
        c->body = xbarrier_body;
        c->x[1] = rounds;
        c->x[2] = rnd(8);
    }
    EV("\"e\":\"Barrier\",\"n\":%d", n);
    callers_launch(32768);
    callers_join();
    CHK(ABT_xstream_barrier_free(&g_xbar));
}
/* a re-initialisation with an invalid number of waiters is rejected and changes nothing */
static void barrier_bad_reinit(void)
{
    uint32_t got = 99;
    int r = ABT_barrier_reinit(g_bar, 0);
    CHK(ABT_barrier_get_num_waiters(g_bar, &got));
    EV("\"e\":\"BarRejReinit\",\"ret\":%d,\"n\":%d", r == ABT_ERR_INV_ARG ? 1 : r == ABT_SUCCESS ? 0 : 2, (int)got);
}
static void scn_barrier(void)
{
    int n = 1 + rnd(4);
    int rounds1 = 1 + rnd(3);
    CHK(ABT_barrier_create((uint32_t)n, &g_bar));
    assign_kinds(n, 1, 0);
    for (int i = 0; i < n; i++) {
        g_c[i].body = barrier_body;
        g_c[i].x[0] = 0;
        g_c[i].x[1] = rounds1;
        g_c[i].x[2] = rnd(8);
    }
    EV("\"e\":\"Barrier\",\"n\":%d", n);
    if (rnd(3) == 0)
        barrier_intruder();
    if (rnd(3) == 0)
        barrier_bad_reinit();
    /* phase 2 after reinit with a different number of waiters: by the main thread
     * after everybody left, or by the first caller that leaves phase 1 */
    int n2 = 1 + rnd(4);
    g_bar_reinit_n = rnd(2) ? n2 : 0;
    callers_launch(32768);
    callers_join();
    uint32_t got = 0;
    if (g_bar_reinit_n == 0) {
        CHK(ABT_barrier_reinit(g_bar, (uint32_t)n2));
        CHK(ABT_barrier_get_num_waiters(g_bar, &got));
        EV("\"e\":\"Barrier\",\"n\":%d", (int)got);
    }
    g_bar_reinit_n = 0;
    if (rnd(3) == 0)
        barrier_intruder();
    if (rnd(3) == 0)
        barrier_bad_reinit();
    assign_kinds(n2, 1, 0);
    int rounds2 = 1 + rnd(3);
    for (int i = 0; i < n2; i++) {
        g_c[i].body = barrier_body;
        g_c[i].x[0] = 100;
        g_c[i].x[1] = rounds2;
        g_c[i].x[2] = rnd(8);
    }
    callers_launch(32768);
    callers_join();
    CHK(ABT_barrier_free(&g_bar));
}

/* ======================================================================= eventual */
static ABT_eventual g_ev;
static int g_ev_nbytes;
static void ev_setter(caller_t *c)
{
    if (c->kind == K_ULT && c->x[1])
        ABT_thread_yield();
    int val = c->x[0];
    EV("\"e\":\"ECall\",\"t\":%d,\"op\":\"set\",\"v\":%d", c->id, val);
    int r = ABT_eventual_set(g_ev, g_ev_nbytes ? &val : NULL, g_ev_nbytes);
    if (r != ABT_SUCCESS && r != ABT_ERR_EVENTUAL)
        CHK(r);
    EV("\"e\":\"ERet\",\"t\":%d,\"op\":\"set\",\"ok\":%d,\"v\":0", c->id, r == ABT_SUCCESS);
}
static void ev_waiter(caller_t *c)
{
    if (c->kind == K_ULT && c->x[1])
        ABT_thread_yield();
    if (c->x[2]) {
        /* test (allowed for tasklets too) */
        for (int i = 0; i < c->x[2]; i++) {
            void *p = NULL;
            ABT_bool rdy = ABT_FALSE;
            EV("\"e\":\"ECall\",\"t\":%d,\"op\":\"test\",\"v\":0", c->id);
            CHK(ABT_eventual_test(g_ev, &p, &rdy));
            int v = (rdy == ABT_TRUE && p && g_ev_nbytes) ? *(int *)p : 0;
            EV("\"e\":\"ERet\",\"t\":%d,\"op\":\"test\",\"ok\":%d,\"v\":%d", c->id, rdy == ABT_TRUE, v);
            if (c->kind == K_ULT)
                ABT_thread_yield();
            else
                abtv_point();
        }
        if (c->kind == K_TASK)
            return;
    }
    void *p = NULL;
    EV("\"e\":\"ECall\",\"t\":%d,\"op\":\"wait\",\"v\":0", c->id);
    CHK(ABT_eventual_wait(g_ev, &p));
    int v = (p && g_ev_nbytes) ? *(int *)p : 0;
    EV("\"e\":\"ERet\",\"t\":%d,\"op\":\"wait\",\"ok\":1,\"v\":%d", c->id, v);
}
/* A consumer that recycles the eventual as soon as it sees it ready (test, reset, wait for the
 * next set) while the first setter may still be waking the waiters of the first round; the
 * second value is set only some time after the consumer has started to wait again. */
static volatile int g_ev_recycled;
static void ev_recycler(caller_t *c)
{
    int seen = 0;
    for (int i = 0; i < 3000 && !seen; i++) {
        void *p = NULL;
        ABT_bool rdy = ABT_FALSE;
        EV("\"e\":\"ECall\",\"t\":%d,\"op\":\"test\",\"v\":0", c->id);
        CHK(ABT_eventual_test(g_ev, &p, &rdy));
        int v = (rdy == ABT_TRUE && p && g_ev_nbytes) ? *(int *)p : 0;
        EV("\"e\":\"ERet\",\"t\":%d,\"op\":\"test\",\"ok\":%d,\"v\":%d", c->id, rdy == ABT_TRUE, v);
        seen = rdy == ABT_TRUE;
        if (!seen)
            drv_pause(c);
    }
    if (!seen) {
        g_ev_recycled = -1;
        return;
    }
    EV("\"e\":\"ECall\",\"t\":%d,\"op\":\"reset\",\"v\":0", c->id);
    CHK(ABT_eventual_reset(g_ev));
    EV("\"e\":\"ERet\",\"t\":%d,\"op\":\"reset\",\"ok\":1,\"v\":0", c->id);
    void *p = NULL;
    EV("\"e\":\"ECall\",\"t\":%d,\"op\":\"wait\",\"v\":0", c->id);
    g_ev_recycled = 1;
    CHK(ABT_eventual_wait(g_ev, &p));
    int v = (p && g_ev_nbytes) ? *(int *)p : 0;
    EV("\"e\":\"ERet\",\"t\":%d,\"op\":\"wait\",\"ok\":1,\"v\":%d", c->id, v);
}
static void ev_late_setter(caller_t *c)
{
    while (!g_ev_recycled)
        drv_pause(c);
    if (g_ev_recycled < 0)
        return;
    for (int i = 0; i < c->x[1]; i++)
        drv_pause(c);
    int val = c->x[0];
    EV("\"e\":\"ECall\",\"t\":%d,\"op\":\"set\",\"v\":%d", c->id, val);
    int r = ABT_eventual_set(g_ev, g_ev_nbytes ? &val : NULL, g_ev_nbytes);
    if (r != ABT_SUCCESS && r != ABT_ERR_EVENTUAL)
        CHK(r);
    EV("\"e\":\"ERet\",\"t\":%d,\"op\":\"set\",\"ok\":%d,\"v\":0", c->id, r == ABT_SUCCESS);
}
static void scn_eventual(void)
{
    g_ev_nbytes = rnd(4) ? (int)sizeof(int) : 0;
    CHK(ABT_eventual_create(g_ev_nbytes, &g_ev));
    int rounds = 1 + rnd(2);
    for (int r = 0; r < rounds; r++) {
        int nset = 1 + rnd(2), nwait = rnd(4);
        int recycle = rnd(3) == 0;
        g_ev_recycled = 0;
        if (recycle) {
            nset = 1;
            nwait = 1 + rnd(4);
        }
        assign_kinds(nset + nwait + 2 * recycle, 1, 1);
        EV("\"e\":\"Eventual\",\"nbytes\":%d,\"round\":%d", g_ev_nbytes, r);
        for (int i = 0; i < nset + nwait + 2 * recycle; i++) {
            caller_t *c = &g_c[i];
            if (i >= nset + nwait) {
                /* the recycler and the late setter: never tasklets (they poll) */
                if (c->kind == K_TASK)
                    c->kind = K_ULT;
                c->body = i == nset + nwait ? ev_recycler : ev_late_setter;
                c->x[0] = g_ev_nbytes ? 10 * (r + 1) + 7 : 0;
                c->x[1] = 20 + rnd(60);
            } else if (i < nset) {
                c->body = ev_setter;
                c->x[0] = g_ev_nbytes ? 10 * (r + 1) + i + 1 : 0;
                c->x[1] = rnd(2);
            } else {
                c->body = ev_waiter;
                c->x[1] = rnd(2);
                c->x[2] = rnd(3);
                if (c->kind == K_TASK && !c->x[2])
                    c->x[2] = 1;
            }
        }
        callers_launch(32768);
        callers_join();
        EV("\"e\":\"ECall\",\"t\":0,\"op\":\"reset\",\"v\":0");
        CHK(ABT_eventual_reset(g_ev));
        EV("\"e\":\"ERet\",\"t\":0,\"op\":\"reset\",\"ok\":1,\"v\":0");
    }
    CHK(ABT_eventual_free(&g_ev));
}

/* ======================================================================= future */
static ABT_future g_fu;
static int g_fu_n;
static void fu_cb(void **arr)
{
    /* a callback takes time: give the other callers a chance to look at the future now */
    abtv_point();
    abtv_point();
    char buf[128];
    int p = 0;
    buf[0] = 0;
    for (int i = 0; i < g_fu_n; i++)
        p += sprintf(buf + p, "%s%d", i ? "," : "", (int)(intptr_t)arr[i]);
    EV("\"e\":\"FCb\",\"vals\":[%s]", buf);
}
static void fu_setter(caller_t *c)
{
    for (int k = 0; k < c->x[1]; k++) {
        if (c->kind == K_ULT && rnd(2))
            ABT_thread_yield();
        int val = c->x[0] + k;
        EV("\"e\":\"FCall\",\"t\":%d,\"op\":\"set\",\"v\":%d", c->id, val);
        int r = ABT_future_set(g_fu, (void *)(intptr_t)val);
        if (r != ABT_SUCCESS && r != ABT_ERR_FUTURE)
            CHK(r);
        EV("\"e\":\"FRet\",\"t\":%d,\"op\":\"set\",\"ok\":%d", c->id, r == ABT_SUCCESS);
    }
}
static void fu_waiter(caller_t *c)
{
    for (int i = 0; i < c->x[2]; i++) {
        ABT_bool rdy = ABT_FALSE;
        EV("\"e\":\"FCall\",\"t\":%d,\"op\":\"test\",\"v\":0", c->id);
        CHK(ABT_future_test(g_fu, &rdy));
        EV("\"e\":\"FRet\",\"t\":%d,\"op\":\"test\",\"ok\":%d", c->id, rdy == ABT_TRUE);
        if (c->kind == K_ULT)
            ABT_thread_yield();
        else
            abtv_point();
    }
    if (c->kind == K_TASK)
        return;
    EV("\"e\":\"FCall\",\"t\":%d,\"op\":\"wait\",\"v\":0", c->id);
    CHK(ABT_future_wait(g_fu));
    EV("\"e\":\"FRet\",\"t\":%d,\"op\":\"wait\",\"ok\":1", c->id);
}
static void scn_future(void)
{
    g_fu_n = rnd(4); /* 0..3 compartments */
    int with_cb = rnd(3) != 0;
    CHK(ABT_future_create((uint32_t)g_fu_n, with_cb ? fu_cb : NULL, &g_fu));
    /* total sets issued: n plus possibly one extra (which must fail) */
    int extra = rnd(2);
    int total = g_fu_n + extra;
    int nset = total ? 1 + rnd(total < 3 ? total : 3) : 0;
    int nwait = rnd(3) + (nset == 0);
    assign_kinds(nset + nwait, 1, 1);
    EV("\"e\":\"Future\",\"n\":%d,\"cb\":%d", g_fu_n, with_cb);
    int left = total, val = 1;
    for (int i = 0; i < nset + nwait; i++) {
        caller_t *c = &g_c[i];
        if (i < nset) {
            c->body = fu_setter;
            int mine = (i == nset - 1) ? left : (left > 0 ? 1 + rnd(left) : 0);
            if (mine > left)
                mine = left;
            c->x[0] = val;
            c->x[1] = mine;
            val += mine;
            left -= mine;
        } else {
            c->body = fu_waiter;
            c->x[2] = rnd(3);
            if (c->kind == K_TASK && !c->x[2])
                c->x[2] = 1;
        }
    }
    callers_launch(32768);
    callers_join();
    CHK(ABT_future_free(&g_fu));
}

/* ======================================================================= rwlock */
static ABT_rwlock g_rw;
static volatile int g_readers_in, g_rendezvous;
static void rw_body(caller_t *c)
{
    for (int r = 0; r < c->x[0]; r++) {
        int wr = (c->x[1] >> r) & 1;
        if (c->kind == K_ULT && rnd(2))
            ABT_thread_yield();
        EV("\"e\":\"RWCall\",\"t\":%d,\"op\":\"%s\"", c->id, wr ? "wr" : "rd");
        if (wr)
            CHK(ABT_rwlock_wrlock(g_rw));
        else
            CHK(ABT_rwlock_rdlock(g_rw));
        EV("\"e\":\"RWRet\",\"t\":%d,\"op\":\"%s\"", c->id, wr ? "wr" : "rd");
        if (!wr && c->x[3]) {
            /* many more read holds by the same caller (no writer may get in until the last one is
             * given back), kept for a while */
            for (int k = 0; k < c->x[3]; k++)
                CHK(ABT_rwlock_rdlock(g_rw));
            EV("\"e\":\"RWNest\",\"t\":%d,\"n\":%d", c->id, c->x[3]);
            for (int k = 0; k < 12; k++)
                drv_pause(c);
            for (int k = 0; k < c->x[3]; k++)
                CHK(ABT_rwlock_unlock(g_rw));
        } else if (!wr && c->x[2] && g_rendezvous) {
            /* two readers meet inside the read-side critical section: a
             * reader must not be blocked while only readers hold the lock */
            __sync_add_and_fetch(&g_readers_in, 1);
            while (g_readers_in < 2)
                drv_pause(c);
        } else if (c->kind == K_ULT && rnd(2))
            ABT_thread_yield();
        else
            abtv_point();
        EV("\"e\":\"RWCall\",\"t\":%d,\"op\":\"un\"", c->id);
        CHK(ABT_rwlock_unlock(g_rw));
        EV("\"e\":\"RWRet\",\"t\":%d,\"op\":\"un\"", c->id);
    }
}
/* a tasklet is not allowed to take the lock (1.x API): the call is rejected and has no effect */
static void rw_tasklet(void *a)
{
    int r = a ? ABT_rwlock_wrlock(g_rw) : ABT_rwlock_rdlock(g_rw);
    EV("\"e\":\"RWReject\",\"ret\":%d", r == ABT_ERR_RWLOCK ? 1 : r == ABT_SUCCESS ? 0 : 2);
}
static void rw_intruder(void)
{
    ABT_thread t;
    CHK(ABT_task_create(g_pools[rnd(g_nes)], rw_tasklet, rnd(2) ? (void *)&g_rw : NULL, &t));
    CHK(ABT_thread_free(&t));
}
static void scn_rwlock(void)
{
    CHK(ABT_rwlock_create(&g_rw));
    int n = 2 + rnd(3);
    g_readers_in = 0;
    g_rendezvous = rnd(3) == 0;
    assign_kinds(n, 1, 0);
    EV("\"e\":\"RWLock\",\"n\":%d,\"rv\":%d", n, g_rendezvous);
    int rv_left = g_rendezvous ? 2 : 0;
    for (int i = 0; i < n; i++) {
        caller_t *c = &g_c[i];
        c->body = rw_body;
        c->x[0] = 1 + rnd(3);
        c->x[1] = rnd(8);
        c->x[2] = 0;
        c->x[3] = rnd(6) ? 0 : (rnd(2) ? 255 + rnd(3) : 500 + rnd(30));
        if (rv_left) {
            /* a dedicated reader of the rendezvous: exactly one read round */
            c->x[0] = 1;
            c->x[1] = 0;
            c->x[2] = 1;
            c->x[3] = 0;
            rv_left--;
            /* both must be able to run at the same time */
            if (c->kind == K_ULT)
                c->es = (g_nes > 1) ? (1 + (rv_left % (g_nes - 1))) : 0;
        }
    }
    if (g_rendezvous && g_nes < 3) {
        /* two ULT readers on one stream can still meet: they yield while waiting */
    }
    if (rnd(3) == 0)
        rw_intruder();
    callers_launch(32768);
    if (rnd(3) == 0)
        rw_intruder();
    callers_join();
    CHK(ABT_rwlock_free(&g_rw));
}

static void scenario(const char *name, uint64_t seed)
{
    (void)seed;
    g_nes_sec = (int)opt_long("nes", 1);
    CHK(ABT_init(0, NULL));
    streams_start(g_nes_sec, ABT_SCHED_DEFAULT);
    if (!strcmp(name, "mutex"))
        scn_mutex();
    else if (!strcmp(name, "cond"))
        scn_cond(0);
    else if (!strcmp(name, "condtimed"))
        scn_cond(1);
    else if (!strcmp(name, "barrier"))
        scn_barrier();
    else if (!strcmp(name, "xbarrier"))
        scn_xbarrier();
    else if (!strcmp(name, "eventual"))
        scn_eventual();
    else if (!strcmp(name, "future"))
        scn_future();
    else if (!strcmp(name, "rwlock"))
        scn_rwlock();
    else
        abtv_fail("broken:unknown-scenario", ABTV_EXIT_BROKEN);
    streams_stop();
    CHK(ABT_finalize());
}
