/* C18 driver: the k-th allocation / OS-resource request inside one Argobots
 * routine fails.
 *
 *   d_fault ops <seed0> <count> [nes=0|1] [cold=0|1]
 *
 * One run (seed) = one routine (seed % NOPS) with one set of variations.
 * For k = 1, 2, ... the run performs one cycle
 *     ABT_init; set-up of pre-existing objects; [warm-up call + undo];
 *     snapshot; the routine with the k-th request failing; snapshot;
 *     if it failed: the same call without fault; snapshot;
 *     settle (run every queued unit, free everything); ABT_finalize; ledger
 * until a cycle completes without the fault firing (k is larger than the
 * number of requests the routine makes).  ABT_init itself is one of the
 * routines.  Every observation is logged; spec/hist/H_Fault.tla is the judge:
 * a failed call changes nothing that the API lets us see, hands out no handle
 * and leaves no allocation behind; a call fails only if the fault fired; the
 * retry succeeds and has exactly the documented effect; every unit that was
 * successfully created runs exactly once in the follow-up workload. */
#include "drv.h"

#define SENT(T) ((T)(uintptr_t)0x5a5a5a50)
static int g_nes, g_cold, g_pk;
static ABT_xstream g_self, g_xs1;
static ABT_pool g_p0, g_p1, g_p2, g_up, g_px;
static ABT_key g_key[3], g_xkey[48];
static int g_nxkey;
static ABT_mutex g_mx;
static ABT_thread g_pre0, g_pre1, g_dead, g_deadu;
static volatile int g_ran, g_cb;
static int g_ulive;     /* live units of the user-defined pool */
static ABT_thread g_named[32];
static int g_nnamed;
static const char *g_h; /* classification of the output handle of the last attempt */

/* ---------------------------------------------------------------- user-defined pool (LIFO) */
typedef struct unode {
    ABT_thread th;
    struct unode *next;
} unode_t;
typedef struct {
    unode_t *top;
    int n;
} upool_t;
static ABT_pool_user_def g_def;
static ABT_unit up_create_unit(ABT_pool pool, ABT_thread th)
{
    (void)pool;
    unode_t *n = (unode_t *)malloc(sizeof *n);
    if (!n)
        return ABT_UNIT_NULL;
    n->th = th;
    n->next = NULL;
    g_ulive++;
    return (ABT_unit)n;
}
static void up_free_unit(ABT_pool pool, ABT_unit u)
{
    (void)pool;
    g_ulive--;
    free((void *)u);
}
static ABT_bool up_is_empty(ABT_pool pool)
{
    upool_t *d;
    ABT_pool_get_data(pool, (void **)&d);
    return d->n == 0 ? ABT_TRUE : ABT_FALSE;
}
static ABT_thread up_pop(ABT_pool pool, ABT_pool_context c)
{
    (void)c;
    upool_t *d;
    ABT_pool_get_data(pool, (void **)&d);
    if (!d->top)
        return ABT_THREAD_NULL;
    unode_t *n = d->top;
    d->top = n->next;
    d->n--;
    return n->th;
}
static void up_push(ABT_pool pool, ABT_unit u, ABT_pool_context c)
{
    (void)c;
    upool_t *d;
    ABT_pool_get_data(pool, (void **)&d);
    unode_t *n = (unode_t *)u;
    n->next = d->top;
    d->top = n;
    d->n++;
}
static int up_init(ABT_pool pool, ABT_pool_config cfg)
{
    (void)cfg;
    upool_t *d = (upool_t *)calloc(1, sizeof *d);
    if (!d)
        return ABT_ERR_MEM;
    ABT_pool_set_data(pool, d);
    return ABT_SUCCESS;
}
static void up_free(ABT_pool pool)
{
    upool_t *d;
    ABT_pool_get_data(pool, (void **)&d);
    free(d);
}
static size_t up_get_size(ABT_pool pool)
{
    upool_t *d;
    ABT_pool_get_data(pool, (void **)&d);
    return (size_t)d->n;
}
static int mk_user_def(ABT_pool_user_def *def)
{
    int r = ABT_pool_user_def_create(up_create_unit, up_free_unit, up_is_empty, up_pop, up_push, def);
    if (r != ABT_SUCCESS)
        return r;
    CHK(ABT_pool_user_def_set_init(*def, up_init));
    CHK(ABT_pool_user_def_set_free(*def, up_free));
    CHK(ABT_pool_user_def_set_get_size(*def, up_get_size));
    return ABT_SUCCESS;
}

/* ---------------------------------------------------------------- user-defined scheduler */
static int us_init(ABT_sched s, ABT_sched_config c)
{
    (void)c;
    void *d = malloc(32);
    if (!d)
        return ABT_ERR_MEM;
    ABT_sched_set_data(s, d);
    return ABT_SUCCESS;
}
static void us_run(ABT_sched s)
{
    int n;
    ABT_pool p;
    ABT_sched_get_num_pools(s, &n);
    ABT_sched_get_pools(s, 1, 0, &p);
    for (;;) {
        ABT_thread t;
        ABT_pool_pop_thread(p, &t);
        if (t != ABT_THREAD_NULL)
            ABT_self_schedule(t, ABT_POOL_NULL);
        ABT_bool stop;
        ABT_sched_has_to_stop(s, &stop);
        if (stop == ABT_TRUE)
            break;
        ABT_xstream_check_events(s);
    }
}
static int us_free(ABT_sched s)
{
    void *d;
    ABT_sched_get_data(s, &d);
    free(d);
    return ABT_SUCCESS;
}
/* a scheduler that counts as one executed unit when it has run (stacked into a pool) */
static void us_run_counted(ABT_sched s)
{
    us_run(s);
    g_ran++;
}
static ABT_sched_def g_sdef_c = { .type = ABT_SCHED_TYPE_ULT, .init = us_init, .run = us_run_counted, .free = us_free, .get_migr_pool = NULL };
static ABT_sched_def g_sdef = { .type = ABT_SCHED_TYPE_ULT, .init = us_init, .run = us_run, .free = us_free, .get_migr_pool = NULL };

/* ---------------------------------------------------------------- work-unit bodies */
static void body(void *a)
{
    (void)a;
    g_ran++;
}
static void body_yield(void *a)
{
    (void)a;
    ABT_thread_yield();
    g_ran++;
}
static void mig_cb(ABT_thread t, void *a)
{
    (void)t;
    (void)a;
    g_cb++;
}
static void key_dtor(void *v) { (void)v; }
static void fut_cb(void **args) { (void)args; }

/* ---------------------------------------------------------------- the routines under fault
 * attempt(): performs the call with sentinel output handles, classifies the
 * output handle in g_h, remembers what to release; undo(): releases what a
 * successful attempt created (units are released by settle()). */
static void track(ABT_thread t) { g_named[g_nnamed++] = t; }
#define CLASSIFY(h, T, NUL) (g_h = ((h) == SENT(T)) ? "same" : ((h) == (NUL)) ? "null" : "new")

static ABT_thread_attr g_attr;
static char *g_ustack;
static void *g_obj;     /* object created by the last successful attempt */
static void *g_obj2;

static int a_thread_create(void)
{
    ABT_thread t = SENT(ABT_thread);
    int r = ABT_thread_create(g_p1, body, NULL, ABT_THREAD_ATTR_NULL, &t);
    CLASSIFY(t, ABT_thread, ABT_THREAD_NULL);
    if (r == ABT_SUCCESS)
        track(t);
    return r;
}
static int a_thread_create_unnamed(void)
{
    g_h = "na";
    return ABT_thread_create(g_p1, body, NULL, ABT_THREAD_ATTR_NULL, NULL);
}
static int a_thread_create_attr(void)
{
    ABT_thread t = SENT(ABT_thread);
    int r = ABT_thread_create(g_p1, body, NULL, g_attr, &t);
    CLASSIFY(t, ABT_thread, ABT_THREAD_NULL);
    if (r == ABT_SUCCESS)
        track(t);
    return r;
}
static int a_thread_create_xs(void)
{
    ABT_thread t = SENT(ABT_thread);
    int r = ABT_thread_create_on_xstream(g_self, body, NULL, ABT_THREAD_ATTR_NULL, &t);
    CLASSIFY(t, ABT_thread, ABT_THREAD_NULL);
    if (r == ABT_SUCCESS)
        track(t);
    return r;
}
static int a_thread_create_up(void)
{
    ABT_thread t = SENT(ABT_thread);
    int r = ABT_thread_create(g_up, body, NULL, ABT_THREAD_ATTR_NULL, &t);
    CLASSIFY(t, ABT_thread, ABT_THREAD_NULL);
    if (r == ABT_SUCCESS)
        track(t);
    return r;
}
static int a_thread_create_to(void)
{
    ABT_thread t = SENT(ABT_thread);
    int r = ABT_thread_create_to(g_p1, body, NULL, ABT_THREAD_ATTR_NULL, &t);
    CLASSIFY(t, ABT_thread, ABT_THREAD_NULL);
    if (r == ABT_SUCCESS)
        track(t);
    return r;
}
static int a_task_create(void)
{
    ABT_task t = SENT(ABT_task);
    int r = ABT_task_create(g_p1, body, NULL, &t);
    CLASSIFY(t, ABT_task, ABT_TASK_NULL);
    if (r == ABT_SUCCESS)
        track(t);
    return r;
}
static int a_task_create_unnamed(void)
{
    g_h = "na";
    return ABT_task_create(g_p1, body, NULL, NULL);
}
static int a_task_create_xs(void)
{
    ABT_task t = SENT(ABT_task);
    int r = ABT_task_create_on_xstream(g_self, body, NULL, &t);
    CLASSIFY(t, ABT_task, ABT_TASK_NULL);
    if (r == ABT_SUCCESS)
        track(t);
    return r;
}
static int a_task_create_up(void)
{
    ABT_task t = SENT(ABT_task);
    int r = ABT_task_create(g_up, body, NULL, &t);
    CLASSIFY(t, ABT_task, ABT_TASK_NULL);
    if (r == ABT_SUCCESS)
        track(t);
    return r;
}
static int a_thread_revive(void)
{
    g_h = "na";
    return ABT_thread_revive(g_p1, body, NULL, &g_dead);
}
static int a_thread_revive_up(void)
{
    /* a terminated unit of a built-in pool is revived into the user-defined pool:
     * create_unit and the unit map allocate */
    g_h = "na";
    return ABT_thread_revive(g_up, body, NULL, &g_dead);
}
static int a_thread_revive_same(void)
{
    g_h = "na";
    return ABT_thread_revive(g_up, body, NULL, &g_deadu);
}
static int a_thread_revive_down(void)
{
    /* from the user-defined pool to a built-in one: the user unit is freed */
    g_h = "na";
    return ABT_thread_revive(g_p1, body, NULL, &g_deadu);
}
static int a_xstream_create(void)
{
    ABT_xstream x = SENT(ABT_xstream);
    int r = ABT_xstream_create(ABT_SCHED_NULL, &x);
    CLASSIFY(x, ABT_xstream, ABT_XSTREAM_NULL);
    g_obj = r == ABT_SUCCESS ? (void *)x : NULL;
    return r;
}
static int a_xstream_create_basic(void)
{
    ABT_xstream x = SENT(ABT_xstream);
    /* one user-given pool (must survive a failure) and one created by the routine */
    ABT_pool ps[2] = { g_p2, ABT_POOL_NULL };
    if (g_pk & 1)
        ps[0] = ABT_POOL_NULL, ps[1] = g_p2;
    int r = ABT_xstream_create_basic(g_pk & 2 ? ABT_SCHED_BASIC_WAIT : ABT_SCHED_BASIC, 2, ps, ABT_SCHED_CONFIG_NULL, &x);
    CLASSIFY(x, ABT_xstream, ABT_XSTREAM_NULL);
    g_obj = r == ABT_SUCCESS ? (void *)x : NULL;
    return r;
}
static int a_xstream_create_rank(void)
{
    ABT_xstream x = SENT(ABT_xstream);
    int r = ABT_xstream_create_with_rank(ABT_SCHED_NULL, 7, &x);
    CLASSIFY(x, ABT_xstream, ABT_XSTREAM_NULL);
    g_obj = r == ABT_SUCCESS ? (void *)x : NULL;
    return r;
}
static void u_xstream(void)
{
    ABT_xstream x = (ABT_xstream)g_obj;
    CHK(ABT_xstream_join(x));
    CHK(ABT_xstream_free(&x));
}
static int a_sched_create_basic(void)
{
    ABT_sched s = SENT(ABT_sched);
    int r = ABT_sched_create_basic(ABT_SCHED_BASIC, 1, NULL, ABT_SCHED_CONFIG_NULL, &s);
    CLASSIFY(s, ABT_sched, ABT_SCHED_NULL);
    g_obj = r == ABT_SUCCESS ? (void *)s : NULL;
    return r;
}
static int a_sched_create_prio(void)
{
    ABT_sched s = SENT(ABT_sched);
    int r = ABT_sched_create_basic(ABT_SCHED_PRIO, 3, NULL, ABT_SCHED_CONFIG_NULL, &s);
    CLASSIFY(s, ABT_sched, ABT_SCHED_NULL);
    g_obj = r == ABT_SUCCESS ? (void *)s : NULL;
    return r;
}
static int a_sched_create_randws(void)
{
    ABT_sched s = SENT(ABT_sched);
    ABT_pool ps[2] = { g_p2, ABT_POOL_NULL };
    int r = ABT_sched_create_basic(ABT_SCHED_RANDWS, 2, ps, ABT_SCHED_CONFIG_NULL, &s);
    CLASSIFY(s, ABT_sched, ABT_SCHED_NULL);
    g_obj = r == ABT_SUCCESS ? (void *)s : NULL;
    return r;
}
static int a_sched_create_user(void)
{
    ABT_sched s = SENT(ABT_sched);
    ABT_pool ps[2] = { g_p2, ABT_POOL_NULL };
    int r = ABT_sched_create(&g_sdef, 2, ps, ABT_SCHED_CONFIG_NULL, &s);
    CLASSIFY(s, ABT_sched, ABT_SCHED_NULL);
    g_obj = r == ABT_SUCCESS ? (void *)s : NULL;
    return r;
}
static void u_sched(void)
{
    ABT_sched s = (ABT_sched)g_obj;
    CHK(ABT_sched_free(&s));
}
static int a_pool_create_basic(void)
{
    ABT_pool p = SENT(ABT_pool);
    static const ABT_pool_kind K[3] = { ABT_POOL_FIFO, ABT_POOL_FIFO_WAIT, ABT_POOL_RANDWS };
    int r = ABT_pool_create_basic(K[g_pk % 3], ABT_POOL_ACCESS_MPMC, ABT_FALSE, &p);
    CLASSIFY(p, ABT_pool, ABT_POOL_NULL);
    g_obj = r == ABT_SUCCESS ? (void *)p : NULL;
    return r;
}
static int a_pool_create_user(void)
{
    ABT_pool p = SENT(ABT_pool);
    int r = ABT_pool_create(g_def, ABT_POOL_CONFIG_NULL, &p);
    CLASSIFY(p, ABT_pool, ABT_POOL_NULL);
    g_obj = r == ABT_SUCCESS ? (void *)p : NULL;
    return r;
}
static void u_pool(void)
{
    ABT_pool p = (ABT_pool)g_obj;
    CHK(ABT_pool_free(&p));
}
static int a_pool_user_def_create(void)
{
    ABT_pool_user_def d = SENT(ABT_pool_user_def);
    int r = ABT_pool_user_def_create(up_create_unit, up_free_unit, up_is_empty, up_pop, up_push, &d);
    CLASSIFY(d, ABT_pool_user_def, ABT_POOL_USER_DEF_NULL);
    g_obj = r == ABT_SUCCESS ? (void *)d : NULL;
    return r;
}
static void u_pool_user_def(void)
{
    ABT_pool_user_def d = (ABT_pool_user_def)g_obj;
    CHK(ABT_pool_user_def_free(&d));
}
static int a_pool_config_create(void)
{
    ABT_pool_config c = SENT(ABT_pool_config);
    int r = ABT_pool_config_create(&c);
    CLASSIFY(c, ABT_pool_config, ABT_POOL_CONFIG_NULL);
    g_obj = r == ABT_SUCCESS ? (void *)c : NULL;
    return r;
}
static void u_pool_config(void)
{
    ABT_pool_config c = (ABT_pool_config)g_obj;
    CHK(ABT_pool_config_free(&c));
}
static ABT_pool_config g_pcfg;
static int a_pool_config_set(void)
{
    g_h = "na";
    int v = 5;
    return ABT_pool_config_set(g_pcfg, 3 + g_pk, ABT_POOL_CONFIG_INT, &v);
}
static int a_sched_config_create(void)
{
    ABT_sched_config c = SENT(ABT_sched_config);
    ABT_sched_config_var v1 = { .idx = 0, .type = ABT_SCHED_CONFIG_INT };
    ABT_sched_config_var v2 = { .idx = 5, .type = ABT_SCHED_CONFIG_DOUBLE };
    int r = ABT_sched_config_create(&c, v1, 3, v2, 1.5, ABT_sched_config_var_end);
    CLASSIFY(c, ABT_sched_config, ABT_SCHED_CONFIG_NULL);
    g_obj = r == ABT_SUCCESS ? (void *)c : NULL;
    return r;
}
static void u_sched_config(void)
{
    ABT_sched_config c = (ABT_sched_config)g_obj;
    CHK(ABT_sched_config_free(&c));
}
#define SYNC_OP(name, T, NUL, create_expr, free_expr)                          \
    static int a_##name(void)                                                  \
    {                                                                          \
        T o = SENT(T);                                                         \
        int r = create_expr;                                                   \
        CLASSIFY(o, T, NUL);                                                   \
        g_obj = r == ABT_SUCCESS ? (void *)o : NULL;                           \
        return r;                                                              \
    }                                                                          \
    static void u_##name(void)                                                 \
    {                                                                          \
        T o = (T)g_obj;                                                        \
        CHK(free_expr);                                                        \
    }
static ABT_mutex_attr g_mattr;
static ABT_timer g_timer;
SYNC_OP(mutex_create, ABT_mutex, ABT_MUTEX_NULL, ABT_mutex_create(&o), ABT_mutex_free(&o))
SYNC_OP(mutex_create_attr, ABT_mutex, ABT_MUTEX_NULL, ABT_mutex_create_with_attr(g_mattr, &o), ABT_mutex_free(&o))
SYNC_OP(mutex_attr_create, ABT_mutex_attr, ABT_MUTEX_ATTR_NULL, ABT_mutex_attr_create(&o), ABT_mutex_attr_free(&o))
SYNC_OP(cond_create, ABT_cond, ABT_COND_NULL, ABT_cond_create(&o), ABT_cond_free(&o))
SYNC_OP(rwlock_create, ABT_rwlock, ABT_RWLOCK_NULL, ABT_rwlock_create(&o), ABT_rwlock_free(&o))
SYNC_OP(eventual_create, ABT_eventual, ABT_EVENTUAL_NULL, ABT_eventual_create(24, &o), ABT_eventual_free(&o))
SYNC_OP(eventual_create0, ABT_eventual, ABT_EVENTUAL_NULL, ABT_eventual_create(0, &o), ABT_eventual_free(&o))
SYNC_OP(future_create, ABT_future, ABT_FUTURE_NULL, ABT_future_create(3, fut_cb, &o), ABT_future_free(&o))
SYNC_OP(barrier_create, ABT_barrier, ABT_BARRIER_NULL, ABT_barrier_create(3, &o), ABT_barrier_free(&o))
SYNC_OP(xbarrier_create, ABT_xstream_barrier, ABT_XSTREAM_BARRIER_NULL, ABT_xstream_barrier_create(2, &o), ABT_xstream_barrier_free(&o))
SYNC_OP(key_create, ABT_key, ABT_KEY_NULL, ABT_key_create(key_dtor, &o), ABT_key_free(&o))
SYNC_OP(thread_attr_create, ABT_thread_attr, ABT_THREAD_ATTR_NULL, ABT_thread_attr_create(&o), ABT_thread_attr_free(&o))
SYNC_OP(timer_create, ABT_timer, ABT_TIMER_NULL, ABT_timer_create(&o), ABT_timer_free(&o))
SYNC_OP(timer_dup, ABT_timer, ABT_TIMER_NULL, ABT_timer_dup(g_timer, &o), ABT_timer_free(&o))

static int a_key_set_self(void)
{
    g_h = "na";
    return ABT_key_set(g_key[2], (void *)(intptr_t)33);
}
static int a_set_specific_pre(void)
{
    g_h = "na";
    return ABT_thread_set_specific(g_pre0, g_key[1], (void *)(intptr_t)55);
}
static int a_set_callback(void)
{
    g_h = "na";
    return ABT_thread_set_callback(g_pre0, mig_cb, NULL);
}
static int a_migrate_to_pool(void)
{
    g_h = "na";
    return ABT_thread_migrate_to_pool(g_pre0, g_p2);
}
static int a_set_main_sched_basic(void)
{
    g_h = "na";
    int r = ABT_xstream_set_main_sched_basic(g_self, ABT_SCHED_BASIC, 1, NULL);
    if (r == ABT_SUCCESS)
        CHK(ABT_xstream_get_main_pools(g_self, 1, &g_p0));
    return r;
}
static int a_set_main_sched(void)
{
    /* the scheduler object is created outside the fault window */
    g_h = "na";
    ABT_sched s = (ABT_sched)g_obj2;
    int r = ABT_xstream_set_main_sched(g_self, s);
    if (r == ABT_SUCCESS) {
        CHK(ABT_xstream_get_main_pools(g_self, 1, &g_p0));
        g_obj2 = NULL;
    }
    return r;
}
/* A scheduler that exists already (made outside the fault window, freed automatically once it has
 * run) is stacked into a pool: a failed call must leave it as it was, for the retry. */
static int add_sched_to(ABT_pool pool)
{
    g_h = "na";
    ABT_sched s = (ABT_sched)g_obj2;
    int r = ABT_pool_add_sched(pool, s);
    if (r == ABT_SUCCESS)
        g_obj2 = NULL; /* the runtime owns it now */
    return r;
}
static int a_pool_add_sched(void) { return add_sched_to(g_p1); }
static int a_pool_add_sched_up(void) { return add_sched_to(g_up); }
/* The main scheduler of ANOTHER, joined (not yet freed) stream is replaced by a scheduler whose
 * first pool is user-defined: the scheduler's ULT needs a unit of that pool.  A failed call must
 * leave the scheduler unused, for the retry. */
static ABT_pool g_up2 = ABT_POOL_NULL;
static int a_set_main_sched_other(void)
{
    g_h = "na";
    if (!g_nes)
        return ABT_SUCCESS; /* (needs a secondary stream) */
    ABT_sched s = (ABT_sched)g_obj2;
    int r = ABT_xstream_set_main_sched(g_xs1, s);
    if (r == ABT_SUCCESS)
        g_obj2 = NULL;
    return r;
}
/* The main scheduler of another, joined stream is replaced by a predefined one over a pool the
 * caller owns (ABT_xstream_set_main_sched_basic with a user-given pool).  A failed call must give
 * back the reference it took on that pool: the number of schedulers the pool reports (info
 * interface) is what it was. */
static ABT_pool g_p3 = ABT_POOL_NULL;
static int pool_num_scheds(ABT_pool pool)
{
    static char buf[4096];
    int n = -1;
    if (pool == ABT_POOL_NULL)
        return -1;
    memset(buf, 0, sizeof buf);
    FILE *f = fmemopen(buf, sizeof buf - 1, "w");
    if (!f)
        return -1;
    int r = ABT_info_print_pool(f, pool);
    fclose(f);
    if (r != ABT_SUCCESS)
        return -1;
    char *q = strstr(buf, "num_scheds");
    if (q && (q = strchr(q, ':')))
        n = atoi(q + 1);
    return n;
}
static int a_set_main_sched_basic_pool(void)
{
    g_h = "na";
    if (!g_nes)
        return ABT_SUCCESS; /* (needs a secondary stream) */
    return ABT_xstream_set_main_sched_basic(g_xs1, ABT_SCHED_BASIC, 1, &g_p3);
}
static int a_info_print(void)
{
    g_h = "na";
    FILE *f = fopen("/dev/null", "w");
    if (!f)
        return ABT_ERR_OTHER;
    int r = ABT_info_print_all_xstreams(f);
    if (r == ABT_SUCCESS)
        r = ABT_info_print_pool(f, g_p1);
    if (r == ABT_SUCCESS)
        r = ABT_info_print_thread(f, g_pre0);
    fclose(f);
    return r;
}

typedef struct {
    const char *name;
    const char *eff; /* documented visible effect of a successful call */
    int (*attempt)(void);
    void (*undo)(void);
    int needs_ult; /* the routine must be called by a ULT */
    int nowarm;    /* a warm-up call would change what the call under fault does */
} op_t;
static const op_t OPS[] = {
    { "init", "none", NULL, NULL }, /* ABT_init itself */
    { "thread_create", "p1", a_thread_create, NULL },
    { "thread_create_unnamed", "p1", a_thread_create_unnamed, NULL },
    { "thread_create_attr", "p1", a_thread_create_attr, NULL },
    { "thread_create_xs", "p0", a_thread_create_xs, NULL },
    { "thread_create_up", "up", a_thread_create_up, NULL },
    { "thread_create_to", "ran", a_thread_create_to, NULL, 1 },
    { "task_create", "p1", a_task_create, NULL },
    { "task_create_unnamed", "p1", a_task_create_unnamed, NULL },
    { "task_create_xs", "p0", a_task_create_xs, NULL },
    { "task_create_up", "up", a_task_create_up, NULL },
    { "thread_revive", "p1", a_thread_revive, NULL },
    { "thread_revive_up", "upk", a_thread_revive_up, NULL, 0, 1 },
    { "thread_revive_same", "upr", a_thread_revive_same, NULL },
    { "thread_revive_down", "p1f", a_thread_revive_down, NULL, 0, 1 },
    { "xstream_create", "nx", a_xstream_create, u_xstream },
    { "xstream_create_basic", "nx", a_xstream_create_basic, u_xstream },
    { "xstream_create_rank", "nx", a_xstream_create_rank, u_xstream },
    { "sched_create_basic", "none", a_sched_create_basic, u_sched },
    { "sched_create_prio", "none", a_sched_create_prio, u_sched },
    { "sched_create_randws", "none", a_sched_create_randws, u_sched },
    { "sched_create_user", "none", a_sched_create_user, u_sched },
    { "pool_create_basic", "none", a_pool_create_basic, u_pool },
    { "pool_create_user", "none", a_pool_create_user, u_pool },
    { "pool_user_def_create", "none", a_pool_user_def_create, u_pool_user_def },
    { "pool_config_create", "none", a_pool_config_create, u_pool_config },
    { "pool_config_set", "none", a_pool_config_set, NULL },
    { "sched_config_create", "none", a_sched_config_create, u_sched_config },
    { "mutex_create", "none", a_mutex_create, u_mutex_create },
    { "mutex_create_attr", "none", a_mutex_create_attr, u_mutex_create_attr },
    { "mutex_attr_create", "none", a_mutex_attr_create, u_mutex_attr_create },
    { "cond_create", "none", a_cond_create, u_cond_create },
    { "rwlock_create", "none", a_rwlock_create, u_rwlock_create },
    { "eventual_create", "none", a_eventual_create, u_eventual_create },
    { "eventual_create0", "none", a_eventual_create0, u_eventual_create0 },
    { "future_create", "none", a_future_create, u_future_create },
    { "barrier_create", "none", a_barrier_create, u_barrier_create },
    { "xbarrier_create", "none", a_xbarrier_create, u_xbarrier_create },
    { "key_create", "none", a_key_create, u_key_create },
    { "thread_attr_create", "none", a_thread_attr_create, u_thread_attr_create },
    { "timer_create", "none", a_timer_create, u_timer_create },
    { "timer_dup", "none", a_timer_dup, u_timer_dup },
    { "key_set_self", "k2", a_key_set_self, NULL, 1 },
    { "set_specific_pre", "pk", a_set_specific_pre, NULL },
    { "set_callback", "none", a_set_callback, NULL },
    { "migrate_to_pool", "none", a_migrate_to_pool, NULL },
    { "set_main_sched_basic", "none", a_set_main_sched_basic, NULL, 1, 1 },
    { "set_main_sched", "none", a_set_main_sched, NULL, 1, 1 },
    { "info_print", "none", a_info_print, NULL },
    { "set_main_sched_other", "upm", a_set_main_sched_other, NULL, 1, 1 },
    { "set_main_sched_basic_pool", "upm", a_set_main_sched_basic_pool, NULL, 1, 1 },
    { "pool_add_sched", "p1", a_pool_add_sched, NULL, 0, 1 },
    { "pool_add_sched_up", "up", a_pool_add_sched_up, NULL, 0, 1 },
};
#define NOPS ((int)(sizeof OPS / sizeof OPS[0]))

/* the routine is called by the primary ULT or, with ext=1, by an external thread
 * (which has no local memory pools: other allocation paths) */
static int g_ext;
typedef struct {
    const op_t *op;
    int k, ret, fired;
    long seen, leak;
} call_t;
static void *ext_call(void *p)
{
    call_t *c = (call_t *)p;
    long live0 = abtv_ledger_live();
    if (c->k >= 0)
        abtv_fault_arm(c->k);
    c->ret = c->op->attempt();
    if (c->k >= 0) {
        c->seen = abtv_fault_disarm();
        c->fired = abtv_fault_fired();
    }
    c->leak = c->ret != ABT_SUCCESS ? abtv_ledger_live() - live0 : 0;
    return NULL;
}
static void do_call(call_t *c)
{
    c->seen = c->leak = 0;
    c->fired = 0;
    if (g_ext && !c->op->needs_ult) {
        pthread_t th;
        pthread_create(&th, NULL, ext_call, c);
        pthread_join(th, NULL);
    } else {
        ext_call(c);
    }
}

/* ---------------------------------------------------------------- observation */
static void snap(const char *tag)
{
    int nx = -1;
    size_t s0 = 99, s1 = 99, s2 = 99, su = 99;
    void *kv = NULL, *k2 = NULL, *pk = NULL;
    ABT_thread_state st0 = ABT_THREAD_STATE_TERMINATED, st1 = ABT_THREAD_STATE_TERMINATED;
    CHK(ABT_xstream_get_num(&nx));
    CHK(ABT_pool_get_total_size(g_p0, &s0));
    CHK(ABT_pool_get_total_size(g_p1, &s1));
    CHK(ABT_pool_get_total_size(g_p2, &s2));
    CHK(ABT_pool_get_total_size(g_up, &su));
    CHK(ABT_key_get(g_key[0], &kv));
    CHK(ABT_key_get(g_key[2], &k2));
    if (g_nnamed > 0) { /* the pre-existing units have not been freed yet */
        CHK(ABT_thread_get_specific(g_pre0, g_key[1], &pk));
        CHK(ABT_thread_get_state(g_pre0, &st0));
        CHK(ABT_thread_get_state(g_pre1, &st1));
    }
    int mx = ABT_mutex_trylock(g_mx) == ABT_SUCCESS;
    if (mx)
        CHK(ABT_mutex_unlock(g_mx));
    ABT_bool onp = ABT_FALSE;
    CHK(ABT_self_on_primary_xstream(&onp));
    EV("\"e\":\"Snap\",\"tag\":\"%s\",\"nx\":%d,\"s0\":%d,\"s1\":%d,\"s2\":%d,\"su\":%d,\"ul\":%d,\"ran\":%d,\"kv\":%d,\"k2\":%d,\"pk\":%d,"
       "\"pre\":%d,\"mx\":%d,\"prim\":%d",
       tag, nx, (int)s0, (int)s1, (int)s2, (int)su, g_ulive, g_ran, (int)(intptr_t)kv, (int)(intptr_t)k2, (int)(intptr_t)pk,
       (st0 == ABT_THREAD_STATE_READY) + (st1 == ABT_THREAD_STATE_READY), mx, onp == ABT_TRUE);
}

/* pre-existing work units */
static void setup_units(void)
{
    CHK(ABT_thread_create(g_p1, body_yield, NULL, ABT_THREAD_ATTR_NULL, &g_pre0));
    CHK(ABT_task_create(g_up, body, NULL, &g_pre1));
    track(g_pre0);
    track(g_pre1);
}
/* run everything that is queued anywhere, free all named units */
static void settle(void)
{
    for (int round = 0; round < 1000; round++) {
        int progress = 0;
        ABT_pool ps[3] = { g_p1, g_p2, g_up };
        for (int i = 0; i < 3; i++) {
            for (;;) {
                ABT_thread t = ABT_THREAD_NULL;
                CHK(ABT_pool_pop_thread(ps[i], &t));
                if (t == ABT_THREAD_NULL)
                    break;
                CHK(ABT_self_schedule(t, ABT_POOL_NULL));
                progress = 1;
            }
        }
        size_t s0;
        CHK(ABT_pool_get_total_size(g_p0, &s0));
        if (s0 > 0) {
            CHK(ABT_thread_yield());
            progress = 1;
        }
        if (!progress)
            break;
    }
    for (int i = 0; i < g_nnamed; i++)
        CHK(ABT_thread_free(&g_named[i]));
    g_nnamed = 0;
}

static int cycle(const op_t *op, int k, uint64_t var)
{
    int fired = 0;
    g_ran = g_cb = g_ulive = g_nnamed = 0;
    abtv_ledger_reset();
    abtv_ledger_track(1);
    if (g_cold) {
        setenv("ABT_MEM_MAX_NUM_STACKS", "8", 1);
        setenv("ABT_MEM_MAX_NUM_DESCS", "8", 1);
        setenv("ABT_MEM_STACK_PAGE_SIZE", "65536", 1);
        setenv("ABT_MEM_PAGE_SIZE", "4096", 1);
        setenv("ABT_MEM_LP_ALLOC", (var / 2) % 2 ? "mmap_rp" : "malloc", 1);
        /* a key table that does not fit into a descriptor is malloc'ed */
        if ((var / 64) % 2)
            setenv("ABT_KEY_TABLE_SIZE", "64", 1);
        else
            unsetenv("ABT_KEY_TABLE_SIZE");
    }
    /* ---- ABT_init (the routine under fault when op->attempt == NULL) */
    if (!op->attempt) {
        abtv_fault_arm(k);
        int r = ABT_init(0, NULL);
        long seen = abtv_fault_disarm();
        fired = abtv_fault_fired();
        ABT_bool inited = ABT_initialized() == ABT_SUCCESS;
        EV("\"e\":\"Init\",\"k\":%d,\"fired\":%d,\"ret\":%d,\"leak\":%ld,\"inited\":%d,\"nreq\":%ld", k, fired, r != ABT_SUCCESS, r != ABT_SUCCESS ? abtv_ledger_live() : 0,
           inited, seen);
        if (r != ABT_SUCCESS) {
            /* the same call without the fault */
            r = ABT_init(0, NULL);
            EV("\"e\":\"Init\",\"k\":0,\"fired\":0,\"ret\":%d,\"leak\":0,\"inited\":%d,\"nreq\":0", r != ABT_SUCCESS, ABT_initialized() == ABT_SUCCESS);
            if (r != ABT_SUCCESS)
                return fired;
        }
    } else {
        CHK(ABT_init(0, NULL));
        EV("\"e\":\"Init\",\"k\":0,\"fired\":0,\"ret\":0,\"leak\":0,\"inited\":1,\"nreq\":0");
    }
    /* ---- pre-existing objects */
    CHK(ABT_xstream_self(&g_self));
    CHK(ABT_xstream_get_main_pools(g_self, 1, &g_p0));
    static const ABT_pool_kind K[3] = { ABT_POOL_FIFO, ABT_POOL_FIFO_WAIT, ABT_POOL_RANDWS };
    CHK(ABT_pool_create_basic(K[var % 3], ABT_POOL_ACCESS_MPMC, ABT_FALSE, &g_p1));
    CHK(ABT_pool_create_basic(K[(var / 3) % 3], ABT_POOL_ACCESS_MPMC, ABT_FALSE, &g_p2));
    g_pk = (int)(var % 7);
    CHK(mk_user_def(&g_def));
    CHK(ABT_pool_create(g_def, ABT_POOL_CONFIG_NULL, &g_up));
    if (g_nes) {
        CHK(ABT_xstream_create(ABT_SCHED_NULL, &g_xs1));
        CHK(ABT_xstream_get_main_pools(g_xs1, 1, &g_px));
    }
    for (int i = 0; i < 3; i++)
        CHK(ABT_key_create(key_dtor, &g_key[i]));
    CHK(ABT_key_set(g_key[0], (void *)(intptr_t)77));
    /* the primary ULT's key table holds a varying number of entries: the next
     * ABT_key_set may need a new chunk of entries */
    g_nxkey = g_cold ? (int)((var / 128) % 48) : 0;
    for (int i = 0; i < g_nxkey; i++) {
        CHK(ABT_key_create(NULL, &g_xkey[i]));
        CHK(ABT_key_set(g_xkey[i], (void *)(intptr_t)(100 + i)));
    }
    CHK(ABT_mutex_create(&g_mx));
    CHK(ABT_mutex_attr_create(&g_mattr));
    CHK(ABT_mutex_attr_set_recursive(g_mattr, ABT_TRUE));
    CHK(ABT_timer_create(&g_timer));
    CHK(ABT_pool_config_create(&g_pcfg));
    CHK(ABT_thread_attr_create(&g_attr));
    g_ustack = NULL;
    if ((var / 9) % 2) {
        g_ustack = (char *)malloc(32768 + 64);
        CHK(ABT_thread_attr_set_stack(g_attr, g_ustack + 8 * (var % 8), 32768));
    } else {
        CHK(ABT_thread_attr_set_stacksize(g_attr, 20000 + 8 * (var % 11)));
    }
    /* two terminated, named units that can be revived */
    CHK(ABT_thread_create(g_p1, body, NULL, ABT_THREAD_ATTR_NULL, &g_dead));
    CHK(ABT_thread_create(g_up, body, NULL, ABT_THREAD_ATTR_NULL, &g_deadu));
    g_nnamed = 0;
    {
        ABT_thread t;
        CHK(ABT_pool_pop_thread(g_p1, &t));
        CHK(ABT_self_schedule(t, ABT_POOL_NULL));
        CHK(ABT_pool_pop_thread(g_up, &t));
        CHK(ABT_self_schedule(t, ABT_POOL_NULL));
    }
    g_obj2 = NULL;
    setup_units();
    if (g_cold) {
        /* fillers: the faulted call finds the memory pools at every fill level */
        int nf = (int)((var / 4) % 13);
        for (int i = 0; i < nf && g_nnamed < 15; i++) {
            ABT_thread t;
            if (i % 3 == 2)
                CHK(ABT_task_create(g_p1, body, NULL, &t));
            else
                CHK(ABT_thread_create(g_p1, body, NULL, ABT_THREAD_ATTR_NULL, &t));
            track(t);
        }
    }
    int warm = 0;
    if (op->attempt && !g_cold && !op->nowarm) {
        /* warm-up: one successful call and its undo, so that the routine's
         * caches (memory pools) are in the state the faulted call will find */
        warm = 1;
        g_obj = NULL;
        call_t w = { op, -1, 0, 0, 0, 0 };
        do_call(&w);
        CHK(w.ret);
        if (op->undo)
            op->undo();
        settle();
        /* the revivable units ran again: they are terminated again */
        setup_units();
    }
    if (!strcmp(op->name, "set_main_sched")) {
        ABT_sched s;
        CHK(ABT_sched_create_basic(ABT_SCHED_BASIC, 1, NULL, ABT_SCHED_CONFIG_NULL, &s));
        g_obj2 = (void *)s;
    }
    if (!strncmp(op->name, "pool_add_sched", 14)) {
        ABT_sched s;
        ABT_sched_config cfg;
        ABT_pool sp;
        CHK(ABT_sched_config_create(&cfg, ABT_sched_config_automatic, 1, ABT_sched_config_var_end));
        CHK(ABT_pool_create_basic(ABT_POOL_FIFO, ABT_POOL_ACCESS_MPMC, ABT_TRUE, &sp));
        CHK(ABT_sched_create(&g_sdef_c, 1, &sp, cfg, &s));
        CHK(ABT_sched_config_free(&cfg));
        g_obj2 = (void *)s;
    }
    g_up2 = ABT_POOL_NULL;
    if (!strcmp(op->name, "set_main_sched_other") && g_nes) {
        ABT_sched s;
        CHK(ABT_xstream_join(g_xs1));
        CHK(ABT_pool_create(g_def, ABT_POOL_CONFIG_NULL, &g_up2));
        CHK(ABT_sched_create_basic(ABT_SCHED_BASIC, 1, &g_up2, ABT_SCHED_CONFIG_NULL, &s));
        g_obj2 = (void *)s;
    }
    g_p3 = ABT_POOL_NULL;
    if (!strcmp(op->name, "set_main_sched_basic_pool") && g_nes) {
        CHK(ABT_xstream_join(g_xs1));
        CHK(ABT_pool_create(g_def, ABT_POOL_CONFIG_NULL, &g_p3)); /* user-defined: the scheduler's ULT needs a unit of it */
    }
    g_ran = 0;
    if (op->attempt) {
        snap("base");
        g_obj = NULL;
        call_t c = { op, k, 0, 0, 0, 0 };
        int nsb = pool_num_scheds(g_p3);
        do_call(&c);
        int r = c.ret;
        long seen = c.seen, leak = c.leak;
        fired = c.fired;
        EV("\"e\":\"Op\",\"op\":\"%s\",\"eff\":\"%s\",\"k\":%d,\"fired\":%d,\"ret\":%d,\"code\":%d,\"h\":\"%s\",\"leak\":%ld,\"warm\":%d,\"nreq\":%ld,\"nsb\":%d,\"nsa\":%d", op->name, op->eff, k,
           fired, r != ABT_SUCCESS, r, g_h, leak, warm, seen, nsb, pool_num_scheds(g_p3));
        snap("after");
        if (r != ABT_SUCCESS) {
            g_obj = NULL;
            call_t c2 = { op, -1, 0, 0, 0, 0 };
            do_call(&c2);
            r = c2.ret;
            EV("\"e\":\"Op\",\"op\":\"%s\",\"eff\":\"%s\",\"k\":0,\"fired\":0,\"ret\":%d,\"code\":%d,\"h\":\"%s\",\"leak\":0,\"warm\":%d,\"nreq\":0", op->name, op->eff,
               r != ABT_SUCCESS, r, g_h, warm);
            snap("retry");
        }
        if (r == ABT_SUCCESS && op->undo) {
            op->undo();
            EV("\"e\":\"Undo\",\"eff\":\"%s\"", op->eff);
        }
    } else {
        snap("base");
    }
    /* ---- follow-up workload: every unit that exists runs exactly once */
    settle();
    snap("settled");
    CHK(ABT_thread_free(&g_dead));
    CHK(ABT_thread_free(&g_deadu));
    if (g_obj2) {
        ABT_sched s = (ABT_sched)g_obj2;
        CHK(ABT_sched_free(&s));
    }
    CHK(ABT_thread_attr_free(&g_attr));
    CHK(ABT_pool_config_free(&g_pcfg));
    CHK(ABT_timer_free(&g_timer));
    CHK(ABT_mutex_attr_free(&g_mattr));
    CHK(ABT_mutex_free(&g_mx));
    for (int i = 0; i < 3; i++)
        CHK(ABT_key_free(&g_key[i]));
    for (int i = 0; i < g_nxkey; i++)
        CHK(ABT_key_free(&g_xkey[i]));
    if (g_nes) {
        CHK(ABT_xstream_join(g_xs1));
        CHK(ABT_xstream_free(&g_xs1));
    }
    CHK(ABT_pool_free(&g_p1));
    CHK(ABT_pool_free(&g_p2));
    CHK(ABT_pool_free(&g_up));
    if (g_up2 != ABT_POOL_NULL)
        CHK(ABT_pool_free(&g_up2));
    if (g_p3 != ABT_POOL_NULL)
        CHK(ABT_pool_free(&g_p3));
    CHK(ABT_pool_user_def_free(&g_def));
    CHK(ABT_finalize());
    free(g_ustack);
    EV("\"e\":\"Final\",\"live\":%ld,\"errors\":%ld,\"ul\":%d", abtv_ledger_live(), abtv_ledger_errors(), g_ulive);
    abtv_ledger_track(0);
    return fired;
}

static void scenario(const char *name, uint64_t seed)
{
    (void)name;
    g_nes = (int)opt_long("nes", 0);
    g_cold = (int)opt_long("cold", 0);
    g_ext = (int)opt_long("ext", 0);
    long only = opt_long("op", -1);
    const op_t *op = &OPS[only >= 0 ? (uint64_t)only : seed % NOPS];
    uint64_t var = abtv_rand() >> 8; /* variations: pool kinds, stack provenance, memory-pool fill level */
    EV("\"e\":\"FaultRun\",\"op\":\"%s\",\"var\":%d", op->name, (int)(var % 1000));
    for (int k = 1; k <= 200; k++) {
        int fired = cycle(op, k, var);
        if (!fired)
            break;
    }
}
