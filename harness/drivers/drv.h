/* Common skeleton of all drivers.
 *   <driver> <scenario> <seed0> <count> [key=val ...]
 * Each seed is one run: Reset event, ABT_init ... ABT_finalize, End event. */
#ifndef DRV_H
#define DRV_H
#define _GNU_SOURCE
#include <abt.h>
#include <pthread.h>
#include <stdint.h>
#include <stdio.h>
#include <stdlib.h>
#include <string.h>
#include "abtv_rt.h"

#define EV abtv_ev
#define CHK(x)                                                                 \
    do {                                                                       \
        int _r = (x);                                                          \
        if (_r != ABT_SUCCESS) {                                               \
            EV("\"e\":\"DrvErr\",\"line\":%d,\"ret\":%d", __LINE__, _r);       \
            /* a legal call that the scenario relies on returned an error code: \
             * on the unchanged tree this never happens, so it is evidence, not  \
             * an infrastructure problem */                                      \
            abtv_fail("crash:api-error", ABTV_EXIT_CRASH);                      \
        }                                                                      \
    } while (0)

static int g_argc;
static char **g_argv;
static inline long opt_long(const char *key, long def)
{
    size_t n = strlen(key);
    for (int i = 4; i < g_argc; i++)
        if (!strncmp(g_argv[i], key, n) && g_argv[i][n] == '=')
            return atol(g_argv[i] + n + 1);
    return def;
}
static inline const char *opt_str(const char *key, const char *def)
{
    size_t n = strlen(key);
    for (int i = 4; i < g_argc; i++)
        if (!strncmp(g_argv[i], key, n) && g_argv[i][n] == '=')
            return g_argv[i] + n + 1;
    return def;
}
static inline int rnd(int n) { return (int)(abtv_rand() % (uint64_t)n); }

/* implemented by each driver */
static void scenario(const char *name, uint64_t seed);

int main(int argc, char **argv)
{
    g_argc = argc;
    g_argv = argv;
    if (argc < 4) {
        fprintf(stderr, "usage: %s scenario seed0 count [k=v...]\n", argv[0]);
        return 2;
    }
    abtv_init();
    uint64_t s0 = strtoull(argv[2], NULL, 10);
    long cnt = atol(argv[3]);
    for (long i = 0; i < cnt; i++) {
        abtv_run_begin(argv[1], s0 + (uint64_t)i);
        scenario(argv[1], s0 + (uint64_t)i);
        abtv_run_end();
    }
    abtv_flush();
    return 0;
}
#endif
