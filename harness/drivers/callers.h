/* Shared by the drivers that run scripts on "callers" of mixed kinds:
 * ULTs on any execution stream, tasklets, external threads. */
#ifndef CALLERS_H
#define CALLERS_H
#include "drv.h"

enum { K_ULT = 0, K_EXT = 1, K_TASK = 2 };
#define MAXC 8
#define MAXES 4
typedef struct caller {
    int id, kind, es;
    void (*body)(struct caller *);
    ABT_thread th;
    pthread_t pt;
    void *arg;
    int x[8]; /* scenario-specific parameters */
} caller_t;

static caller_t g_c[MAXC];
static int g_nc, g_nes;
static ABT_xstream g_xs[MAXES];
static ABT_pool g_pools[MAXES];

static void caller_ult(void *p)
{
    caller_t *c = (caller_t *)p;
    c->body(c);
}
static void *caller_ext(void *p)
{
    caller_t *c = (caller_t *)p;
    c->body(c);
    return NULL;
}
/* driver-level wait: polling with a scheduling point; ULT callers yield */
static inline void drv_pause(caller_t *c)
{
    if (c && c->kind == K_ULT)
        ABT_thread_yield();
    abtv_idle_hint();
}
static void streams_start(int nes_secondary, ABT_sched_predef predef)
{
    g_nes = 1 + nes_secondary;
    CHK(ABT_xstream_self(&g_xs[0]));
    CHK(ABT_xstream_get_main_pools(g_xs[0], 1, &g_pools[0]));
    if (opt_long("shared", 0) && nes_secondary >= 2) {
        /* all secondary streams serve one shared pool: a ULT that blocks may be
         * resumed on another stream than the one it blocked on */
        ABT_pool sp;
        CHK(ABT_pool_create_basic(ABT_POOL_FIFO, ABT_POOL_ACCESS_MPMC, ABT_TRUE, &sp));
        for (int i = 1; i < g_nes; i++) {
            ABT_sched sc;
            CHK(ABT_sched_create_basic(ABT_SCHED_BASIC, 1, &sp, ABT_SCHED_CONFIG_NULL, &sc));
            CHK(ABT_xstream_create(sc, &g_xs[i]));
            g_pools[i] = sp;
        }
        return;
    }
    for (int i = 1; i < g_nes; i++) {
        if (predef == ABT_SCHED_DEFAULT)
            CHK(ABT_xstream_create(ABT_SCHED_NULL, &g_xs[i]));
        else
            CHK(ABT_xstream_create_basic(predef, 1, NULL, ABT_SCHED_CONFIG_NULL, &g_xs[i]));
        CHK(ABT_xstream_get_main_pools(g_xs[i], 1, &g_pools[i]));
    }
}
static void streams_stop(void)
{
    for (int i = 1; i < g_nes; i++) {
        CHK(ABT_xstream_join(g_xs[i]));
        CHK(ABT_xstream_free(&g_xs[i]));
    }
}
static void callers_launch(size_t stacksize)
{
    ABT_thread_attr attr;
    CHK(ABT_thread_attr_create(&attr));
    CHK(ABT_thread_attr_set_stacksize(attr, stacksize));
    for (int i = 0; i < g_nc; i++) {
        caller_t *c = &g_c[i];
        c->th = ABT_THREAD_NULL;
        if (c->kind == K_ULT)
            CHK(ABT_thread_create(g_pools[c->es], caller_ult, c, attr, &c->th));
        else if (c->kind == K_TASK)
            CHK(ABT_task_create(g_pools[c->es], caller_ult, c, &c->th));
    }
    CHK(ABT_thread_attr_free(&attr));
    for (int i = 0; i < g_nc; i++)
        if (g_c[i].kind == K_EXT)
            pthread_create(&g_c[i].pt, NULL, caller_ext, &g_c[i]);
}
static void callers_join(void)
{
    for (int i = 0; i < g_nc; i++)
        if (g_c[i].kind != K_EXT)
            CHK(ABT_thread_free(&g_c[i].th));
    for (int i = 0; i < g_nc; i++)
        if (g_c[i].kind == K_EXT)
            pthread_join(g_c[i].pt, NULL);
}
#endif
