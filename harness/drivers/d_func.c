/* C20 driver: textual settings and configuration maps.
 *   d_func atoi  <infile>   one input per line, hex-encoded bytes  -> Parse records
 *   d_func aff   <infile>                                           -> Aff records
 *   d_func env   <infile>   lines "<VAR> <hex>"                      -> Env records
 *   d_func cfg   <seed0> <count>                                    -> Cfg* records (sequences generated from the seed)
 *   d_func cfgx  <depth>    exhaustive op sequences over a small key set
 * White-box: calls ABTU_ato*, ABTD_affinity_list_create and the ABTD_env_*
 * getters directly (they need no initialised runtime).  The records are judged
 * by spec/func/{Atoi,Affinity,EnvClamp,CfgMap}.tla. */
#define _GNU_SOURCE
#include "abti.h"
#include "abtv_rt.h"
#include <inttypes.h>
#include <stdio.h>
#include <stdlib.h>
#include <string.h>

#define EV abtv_ev
static int unhex(const char *h, char *out, int max)
{
    int n = 0;
    while (h[0] && h[1] && h[0] != '\n' && n < max - 1) {
        unsigned v;
        if (sscanf(h, "%2x", &v) != 1)
            break;
        out[n++] = (char)v;
        h += 2;
    }
    out[n] = 0;
    return n;
}
static void codes(const char *s, int n, char *buf)
{
    int p = 0;
    buf[0] = 0;
    for (int i = 0; i < n; i++)
        p += sprintf(buf + p, "%s%d", i ? "," : "", (unsigned char)s[i]);
}
static void digits_of(uint64_t v, char *buf)
{
    char t[32];
    int n = 0;
    if (!v)
        t[n++] = 0;
    while (v) {
        t[n++] = (char)(v % 10);
        v /= 10;
    }
    int p = 0;
    for (int i = n - 1; i >= 0; i--)
        p += sprintf(buf + p, "%s%d", p ? "," : "", t[i]);
}

static void do_atoi(FILE *f)
{
    char line[512], s[200], cs[1024], dg[128];
    while (fgets(line, sizeof line, f)) {
        int n = unhex(line, s, sizeof s);
        codes(s, n, cs);
        {
            int v = 0;
            ABT_bool o = 2;
            int r = ABTU_atoi(s, &v, &o);
            uint64_t a = v < 0 ? (uint64_t)(-(int64_t)v) : (uint64_t)v;
            digits_of(a, dg);
            EV("\"e\":\"Parse\",\"fn\":\"int\",\"s\":[%s],\"err\":%d,\"neg\":%d,\"val\":[%s],\"ovf\":%d", cs, r != ABT_SUCCESS,
               r == ABT_SUCCESS && v < 0, r == ABT_SUCCESS ? dg : "", r == ABT_SUCCESS ? (o == ABT_TRUE) : 0);
        }
        {
            uint32_t v = 0;
            ABT_bool o = 2;
            int r = ABTU_atoui32(s, &v, &o);
            digits_of(v, dg);
            EV("\"e\":\"Parse\",\"fn\":\"u32\",\"s\":[%s],\"err\":%d,\"neg\":0,\"val\":[%s],\"ovf\":%d", cs, r != ABT_SUCCESS,
               r == ABT_SUCCESS ? dg : "", r == ABT_SUCCESS ? (o == ABT_TRUE) : 0);
        }
        {
            uint64_t v = 0;
            ABT_bool o = 2;
            int r = ABTU_atoui64(s, &v, &o);
            digits_of(v, dg);
            EV("\"e\":\"Parse\",\"fn\":\"u64\",\"s\":[%s],\"err\":%d,\"neg\":0,\"val\":[%s],\"ovf\":%d", cs, r != ABT_SUCCESS,
               r == ABT_SUCCESS ? dg : "", r == ABT_SUCCESS ? (o == ABT_TRUE) : 0);
        }
        {
            size_t v = 0;
            ABT_bool o = 2;
            int r = ABTU_atosz(s, &v, &o);
            digits_of(v, dg);
            EV("\"e\":\"Parse\",\"fn\":\"sz\",\"s\":[%s],\"err\":%d,\"neg\":0,\"val\":[%s],\"ovf\":%d", cs, r != ABT_SUCCESS,
               r == ABT_SUCCESS ? dg : "", r == ABT_SUCCESS ? (o == ABT_TRUE) : 0);
        }
    }
}
static void do_aff(FILE *f)
{
    char line[512], s[200], cs[1024];
    static char out[1 << 16];
    while (fgets(line, sizeof line, f)) {
        int n = unhex(line, s, sizeof s);
        codes(s, n, cs);
        ABTD_affinity_list *l = NULL;
        int r = ABTD_affinity_list_create(s, &l);
        int p = 0;
        out[0] = 0;
        int big = 0;
        if (r == ABT_SUCCESS) {
            for (uint32_t i = 0; i < l->num && !big; i++) {
                if (p > 500) {
                    big = 1;
                    break;
                }
                p += sprintf(out + p, "%s[", i ? "," : "");
                for (uint32_t j = 0; j < l->p_id_lists[i]->num; j++) {
                    p += sprintf(out + p, "%s%d", j ? "," : "", l->p_id_lists[i]->ids[j]);
                    if (p > 500) { /* the event buffer is 1 KiB: long expansions are only checked for acceptance */
                        big = 1;
                        break;
                    }
                }
                p += sprintf(out + p, "]");
            }
            ABTD_affinity_list_free(l);
        }
        if (big)
            EV("\"e\":\"Aff\",\"s\":[%s],\"ok\":1,\"big\":1,\"lists\":[]", cs);
        else
            EV("\"e\":\"Aff\",\"s\":[%s],\"ok\":%d,\"big\":0,\"lists\":[%s]", cs, r == ABT_SUCCESS, out);
    }
}
static void do_env(FILE *f)
{
    char line[512], var[64], hex[400], s[200], cs[1024], dg[128], name[96];
    while (fgets(line, sizeof line, f)) {
        if (sscanf(line, "%63s %399s", var, hex) < 1)
            continue;
        int n = 0;
        int unset = !strcmp(hex, "-") || line[strlen(var)] == '\n';
        snprintf(name, sizeof name, "ABT_%s", var);
        if (unset) {
            unsetenv(name);
            s[0] = 0;
        } else {
            n = unhex(hex, s, sizeof s);
            setenv(name, s, 1);
        }
        codes(s, n, cs);
        uint64_t v = 0;
        if (!strcmp(var, "MAX_NUM_XSTREAMS"))
            v = (uint64_t)ABTD_env_get_max_xstreams();
        else if (!strcmp(var, "KEY_TABLE_SIZE"))
            v = ABTD_env_key_table_size();
        else if (!strcmp(var, "SYS_PAGE_SIZE"))
            v = ABTD_env_get_sys_pagesize();
        else if (!strcmp(var, "THREAD_STACKSIZE"))
            v = ABTD_env_get_thread_stacksize();
        else if (!strcmp(var, "SCHED_STACKSIZE"))
            v = ABTD_env_get_sched_stacksize();
        else if (!strcmp(var, "SCHED_EVENT_FREQ"))
            v = ABTD_env_get_sched_event_freq();
        else if (!strcmp(var, "SCHED_SLEEP_NSEC"))
            v = ABTD_env_get_sched_sleep_nsec();
        else
            continue;
        digits_of(v, dg);
        EV("\"e\":\"Env\",\"var\":\"%s\",\"set\":%d,\"s\":[%s],\"val\":[%s]", var, !unset, cs, dg);
        unsetenv(name);
    }
}

/* ---------------------------------------------------------------- configuration maps */
static const int KEYS[] = { -9, -5, 0, 1, 3, 8, 9, 11, 16, 17 };
#define NKEYS ((int)(sizeof KEYS / sizeof *KEYS))
static uint64_t g_rng;
static int rnd(int n)
{
    g_rng ^= g_rng << 13;
    g_rng ^= g_rng >> 7;
    g_rng ^= g_rng << 17;
    return (int)((g_rng >> 11) % (uint64_t)n);
}
typedef struct {
    int is_pool;
    ABT_sched_config sc;
    ABT_pool_config pc;
} cfg_t;
static void cfg_set(cfg_t *c, int id, int k, int t, int v)
{
    int iv = v;
    double dv = (double)v;
    void *pv = (void *)(intptr_t)v;
    const void *p = t == 0 ? (void *)&iv : t == 1 ? (void *)&dv : (void *)&pv;
    int r;
    if (c->is_pool)
        r = ABT_pool_config_set(c->pc, k, t == 0 ? ABT_POOL_CONFIG_INT : t == 1 ? ABT_POOL_CONFIG_DOUBLE : ABT_POOL_CONFIG_PTR, p);
    else
        r = ABT_sched_config_set(c->sc, k, t == 0 ? ABT_SCHED_CONFIG_INT : t == 1 ? ABT_SCHED_CONFIG_DOUBLE : ABT_SCHED_CONFIG_PTR, p);
    EV("\"e\":\"CfgSet\",\"c\":%d,\"k\":%d,\"t\":%d,\"v\":%d,\"ret\":%d", id, k, t, v, r != ABT_SUCCESS);
}
static void cfg_del(cfg_t *c, int id, int k)
{
    int r;
    if (c->is_pool)
        r = ABT_pool_config_set(c->pc, k, ABT_POOL_CONFIG_INT, NULL);
    else
        r = ABT_sched_config_set(c->sc, k, ABT_SCHED_CONFIG_INT, NULL);
    EV("\"e\":\"CfgDel\",\"c\":%d,\"k\":%d,\"ret\":%d", id, k, r != ABT_SUCCESS);
}
static void cfg_get(cfg_t *c, int id, int k)
{
    union {
        int i;
        double d;
        void *p;
        char pad[32];
    } u;
    memset(&u, 0, sizeof u);
    int r, t = -1, v = 0;
    if (c->is_pool) {
        ABT_pool_config_type ty = (ABT_pool_config_type)77;
        r = ABT_pool_config_get(c->pc, k, &ty, &u);
        if (r == ABT_SUCCESS)
            t = ty == ABT_POOL_CONFIG_INT ? 0 : ty == ABT_POOL_CONFIG_DOUBLE ? 1 : ty == ABT_POOL_CONFIG_PTR ? 2 : 9;
    } else {
        ABT_sched_config_type ty = (ABT_sched_config_type)77;
        r = ABT_sched_config_get(c->sc, k, &ty, &u);
        if (r == ABT_SUCCESS)
            t = ty == ABT_SCHED_CONFIG_INT ? 0 : ty == ABT_SCHED_CONFIG_DOUBLE ? 1 : ty == ABT_SCHED_CONFIG_PTR ? 2 : 9;
    }
    if (r == ABT_SUCCESS)
        v = t == 0 ? u.i : t == 1 ? (int)u.d : (int)(intptr_t)u.p;
    EV("\"e\":\"CfgGet\",\"c\":%d,\"k\":%d,\"found\":%d,\"t\":%d,\"v\":%d", id, k, r == ABT_SUCCESS, r == ABT_SUCCESS ? t : 0, v);
}
static void cfg_read(cfg_t *c, int id)
{
    /* ABT_sched_config_read reads indices 0..n-1 into the given locations; the
     * type of each location must match what was stored, so read only after
     * looking up the types */
    if (c->is_pool)
        return;
    union {
        int i;
        double d;
        void *p;
    } u[4];
    int ty[4], found[4];
    for (int i = 0; i < 4; i++) {
        ABT_sched_config_type t;
        found[i] = ABT_sched_config_get(c->sc, i, &t, NULL) == ABT_SUCCESS;
        ty[i] = found[i] ? (t == ABT_SCHED_CONFIG_INT ? 0 : t == ABT_SCHED_CONFIG_DOUBLE ? 1 : 2) : 0;
        u[i].p = NULL;
        if (ty[i] == 0)
            u[i].i = -777;
        else if (ty[i] == 1)
            u[i].d = -777.0;
        else
            u[i].p = (void *)(intptr_t)-777;
    }
    int r = ABT_sched_config_read(c->sc, 4, &u[0], &u[1], &u[2], &u[3]);
    char buf[128];
    int p = 0;
    for (int i = 0; i < 4; i++)
        p += sprintf(buf + p, "%s%d", i ? "," : "", ty[i] == 0 ? u[i].i : ty[i] == 1 ? (int)u[i].d : (int)(intptr_t)u[i].p);
    EV("\"e\":\"CfgRead\",\"c\":%d,\"ret\":%d,\"vals\":[%s]", id, r != ABT_SUCCESS, buf);
}
static void cfg_new(cfg_t *c, int id, int is_pool, int with_init)
{
    c->is_pool = is_pool;
    if (is_pool) {
        int r = ABT_pool_config_create(&c->pc);
        EV("\"e\":\"CfgNew\",\"c\":%d,\"pool\":1,\"ret\":%d,\"init\":[]", id, r != ABT_SUCCESS);
    } else if (!with_init) {
        int r = ABT_sched_config_create(&c->sc, ABT_sched_config_var_end);
        EV("\"e\":\"CfgNew\",\"c\":%d,\"pool\":0,\"ret\":%d,\"init\":[]", id, r != ABT_SUCCESS);
    } else {
        ABT_sched_config_var v1 = { 1, ABT_SCHED_CONFIG_INT }, v2 = { 9, ABT_SCHED_CONFIG_DOUBLE }, v3 = { -9, ABT_SCHED_CONFIG_PTR };
        int r = ABT_sched_config_create(&c->sc, v1, 41, v2, 42.0, v3, (void *)(intptr_t)43, v1, 44, ABT_sched_config_var_end);
        EV("\"e\":\"CfgNew\",\"c\":%d,\"pool\":0,\"ret\":%d,\"init\":[[1,0,41],[9,1,42],[-9,2,43],[1,0,44]]", id, r != ABT_SUCCESS);
    }
}
static void cfg_free(cfg_t *c, int id)
{
    int r = c->is_pool ? ABT_pool_config_free(&c->pc) : ABT_sched_config_free(&c->sc);
    EV("\"e\":\"CfgFree\",\"c\":%d,\"ret\":%d", id, r != ABT_SUCCESS);
}
static void do_cfg(uint64_t seed0, long count)
{
    ABT_init(0, NULL);
    for (long s = 0; s < count; s++) {
        g_rng = (seed0 + (uint64_t)s + 1) * 0x9E3779B97F4A7C15ULL;
        EV("\"e\":\"Reset\",\"scn\":\"cfg\",\"seed\":%llu", (unsigned long long)(seed0 + (uint64_t)s));
        cfg_t c[2];
        cfg_new(&c[0], 0, rnd(2), rnd(2));
        cfg_new(&c[1], 1, rnd(2), rnd(2));
        int n = 4 + rnd(60);
        for (int i = 0; i < n; i++) {
            int id = rnd(2), k = KEYS[rnd(NKEYS)];
            switch (rnd(7)) {
                case 0:
                case 1:
                case 2:
                    cfg_set(&c[id], id, k, rnd(3), rnd(100));
                    break;
                case 3:
                    cfg_del(&c[id], id, k);
                    break;
                case 4:
                case 5:
                    cfg_get(&c[id], id, k);
                    break;
                case 6:
                    cfg_read(&c[id], id);
                    break;
            }
        }
        for (int k = 0; k < NKEYS; k++) {
            cfg_get(&c[0], 0, KEYS[k]);
            cfg_get(&c[1], 1, KEYS[k]);
        }
        cfg_free(&c[0], 0);
        cfg_free(&c[1], 1);
        EV("\"e\":\"End\",\"why\":\"done\"");
    }
    ABT_finalize();
}
/* every sequence of `depth` operations over 3 colliding keys, then a full read-out */
static void do_cfgx(int depth)
{
    static const int K3[] = { 0, 8, -8 };
    ABT_init(0, NULL);
    int nops = 9; /* set k (3), del k (3), get k (3) */
    long total = 1;
    for (int i = 0; i < depth; i++)
        total *= nops;
    for (long code = 0; code < total; code++) {
        EV("\"e\":\"Reset\",\"scn\":\"cfgx\",\"seed\":%ld", code);
        cfg_t c;
        cfg_new(&c, 0, (int)(code & 1), 0);
        long x = code;
        for (int i = 0; i < depth; i++) {
            int o = (int)(x % nops);
            x /= nops;
            int k = K3[o % 3];
            if (o < 3)
                cfg_set(&c, 0, k, i % 3, 10 + i);
            else if (o < 6)
                cfg_del(&c, 0, k);
            else
                cfg_get(&c, 0, k);
        }
        for (int k = 0; k < 3; k++)
            cfg_get(&c, 0, K3[k]);
        cfg_free(&c, 0);
        EV("\"e\":\"End\",\"why\":\"done\"");
    }
    ABT_finalize();
}

/* several settings at once, through ABTD_env_init(): some limits depend on other settings
 *   line: six fields  THREAD_STACKSIZE MEM_STACK_PAGE_SIZE MEM_PAGE_SIZE MEM_MAX_NUM_STACKS MEM_MAX_NUM_DESCS HUGE_PAGE_SIZE
 *   each a decimal number or "-" (unset) */
static void do_envg(FILE *f)
{
    static const char *N[6] = { "ABT_THREAD_STACKSIZE", "ABT_MEM_STACK_PAGE_SIZE", "ABT_MEM_PAGE_SIZE",
                                "ABT_MEM_MAX_NUM_STACKS", "ABT_MEM_MAX_NUM_DESCS", "ABT_HUGE_PAGE_SIZE" };
    char line[512], w[6][64];
    setenv("ABT_SET_AFFINITY", "0", 1);
    while (fgets(line, sizeof line, f)) {
        if (sscanf(line, "%63s %63s %63s %63s %63s %63s", w[0], w[1], w[2], w[3], w[4], w[5]) != 6)
            continue;
        long in[6];
        for (int i = 0; i < 6; i++) {
            if (!strcmp(w[i], "-")) {
                unsetenv(N[i]);
                in[i] = -1;
            } else {
                setenv(N[i], w[i], 1);
                in[i] = atol(w[i]);
            }
        }
        static ABTI_global g;
        memset(&g, 0, sizeof g);
        ABTD_env_init(&g);
        EV("\"e\":\"EnvG\",\"in\":[%ld,%ld,%ld,%ld,%ld,%ld],\"ts\":%lu,\"sp\":%lu,\"pg\":%lu,\"ms\":%lu,\"md\":%lu,\"hp\":%lu", in[0], in[1], in[2],
           in[3], in[4], in[5], (unsigned long)g.thread_stacksize, (unsigned long)g.mem_sp_size, (unsigned long)g.mem_page_size,
           (unsigned long)g.mem_max_stacks, (unsigned long)g.mem_max_descs, (unsigned long)g.huge_page_size);
        for (int i = 0; i < 6; i++)
            unsetenv(N[i]);
    }
}

int main(int argc, char **argv)
{
    if (argc < 3) {
        fprintf(stderr, "usage: d_func atoi|aff|env <file> | cfg <seed0> <count> | cfgx <depth>\n");
        return 2;
    }
    abtv_init();
    if (!strcmp(argv[1], "cfg")) {
        do_cfg(strtoull(argv[2], NULL, 10), argc > 3 ? atol(argv[3]) : 1);
    } else if (!strcmp(argv[1], "cfgx")) {
        do_cfgx(atoi(argv[2]));
    } else {
        FILE *f = fopen(argv[2], "r");
        if (!f)
            return 2;
        if (!strcmp(argv[1], "atoi"))
            do_atoi(f);
        else if (!strcmp(argv[1], "aff"))
            do_aff(f);
        else if (!strcmp(argv[1], "env"))
            do_env(f);
        else if (!strcmp(argv[1], "envg"))
            do_envg(f);
        fclose(f);
    }
    abtv_flush();
    return 0;
}
