/* Driver for the scheduling kernel: C01 (exactly-once execution), C03
 * (join/free), C06 (stream join / finalize, blocked counter), C12 (life
 * cycle: exit, cancel, auto-free, revive).  Scenario "exec".
 *
 * A scenario is a random but disciplined program: a forest of work units
 * (named/unnamed ULTs and tasklets) created by the primary ULT, by other
 * units and by an external thread, into pools of 1..3 execution streams.
 * Every event that the property talks about is logged; spec/hist/H_Exec.tla
 * decides whether the history is legal.
 *
 * options: nes=0..2   cfg=0..5 (scheduler / pool configuration)  freq=N (event_freq)
 */
#include "drv.h"
#include "abti.h"

#define MAXU 12
#define MAXS 6
#define MAXES 4
enum { U_ULT, U_TASK };
/* ======================================================================= context canaries (C02)
 * abtv_canary_call(fn, arg, in, out) loads in[0..5] into the callee-saved
 * registers rbx, rbp, r12..r15, in[6] into MXCSR and in[7] into the x87 control
 * word, calls fn(arg) -- which performs one context-switching primitive -- and
 * stores what it finds in the same places afterwards into out[].  Whatever
 * happened in between (other ULTs, schedulers, other streams), a ULT must come
 * back with its callee-saved registers and floating-point control state as it
 * left them. */
long abtv_canary_call(long (*fn)(void *), void *arg, const uint64_t *in, uint64_t *out);
__asm__(".text\n"
        ".globl abtv_canary_call\n"
        ".type abtv_canary_call,@function\n"
        "abtv_canary_call:\n"
        "    pushq %rbx\n    pushq %rbp\n    pushq %r12\n    pushq %r13\n    pushq %r14\n    pushq %r15\n"
        "    subq $40, %rsp\n"
        "    movq %rcx, 0(%rsp)\n"
        "    stmxcsr 8(%rsp)\n"
        "    fnstcw 12(%rsp)\n"
        "    movq %rdi, 16(%rsp)\n"
        "    movq 0(%rdx), %rbx\n    movq 8(%rdx), %rbp\n    movq 16(%rdx), %r12\n"
        "    movq 24(%rdx), %r13\n    movq 32(%rdx), %r14\n    movq 40(%rdx), %r15\n"
        "    ldmxcsr 48(%rdx)\n"
        "    fldcw 56(%rdx)\n"
        "    movq %rsi, %rdi\n"
        "    callq *16(%rsp)\n"
        "    movq 0(%rsp), %rcx\n"
        "    movq %rbx, 0(%rcx)\n    movq %rbp, 8(%rcx)\n    movq %r12, 16(%rcx)\n"
        "    movq %r13, 24(%rcx)\n    movq %r14, 32(%rcx)\n    movq %r15, 40(%rcx)\n"
        "    movq $0, 48(%rcx)\n    movq $0, 56(%rcx)\n"
        "    stmxcsr 48(%rcx)\n"
        "    fnstcw 56(%rcx)\n"
        "    ldmxcsr 8(%rsp)\n"
        "    fldcw 12(%rsp)\n"
        "    addq $40, %rsp\n"
        "    popq %r15\n    popq %r14\n    popq %r13\n    popq %r12\n    popq %rbp\n    popq %rbx\n"
        "    ret\n"
        ".size abtv_canary_call,.-abtv_canary_call\n");
enum { PK_YIELD, PK_SELF_YIELD, PK_YIELD_TO, PK_THREAD_YIELD_TO, PK_SUSPEND, PK_SUSPEND_TO, PK_EXIT_TO, PK_RESUME_YIELD_TO, PK_RESUME_SUSPEND_TO,
       PK_RESUME_EXIT_TO, PK_CREATE_TO, PK_REVIVE_TO, PK_JOIN, PK_FREE, PK_MUTEX, PK_EVENTUAL, PK_SET_MAIN_SCHED };
typedef struct {
    int kind;
    ABT_thread th, *pth;
    ABT_pool pool;
    void (*f)(void *);
    void *arg;
    ABT_thread_attr attr;
    ABT_mutex mx;
    ABT_eventual ev;
    int kind2;
} prim_t;
static long prim_thunk(void *q)
{
    prim_t *p = (prim_t *)q;
    switch (p->kind) {
        case PK_YIELD: return ABT_thread_yield();
        case PK_SELF_YIELD: return ABT_self_yield();
        case PK_YIELD_TO: return ABT_self_yield_to(p->th);
        case PK_THREAD_YIELD_TO: return ABT_thread_yield_to(p->th);
        case PK_SUSPEND: return ABT_self_suspend();
        case PK_SUSPEND_TO: return ABT_self_suspend_to(p->th);
        case PK_EXIT_TO: return ABT_self_exit_to(p->th);
        case PK_RESUME_YIELD_TO: return ABT_self_resume_yield_to(p->th);
        case PK_RESUME_SUSPEND_TO: return ABT_self_resume_suspend_to(p->th);
        case PK_RESUME_EXIT_TO: return ABT_self_resume_exit_to(p->th);
        case PK_CREATE_TO: return ABT_thread_create_to(p->pool, p->f, p->arg, p->attr, p->pth);
        case PK_REVIVE_TO: return ABT_thread_revive_to(p->pool, p->f, p->arg, p->pth);
        case PK_JOIN: return ABT_thread_join(p->th);
        case PK_FREE: return ABT_thread_free(p->pth);
        case PK_MUTEX: return ABT_mutex_lock(p->mx);
        case PK_SET_MAIN_SCHED: {
            ABT_xstream self_xs;
            ABT_xstream_self(&self_xs);
            return ABT_xstream_set_main_sched_basic(self_xs, p->kind2 ? ABT_SCHED_BASIC : ABT_SCHED_PRIO, 1, &p->pool);
        }
        default: return ABT_eventual_wait(p->ev, NULL);
    }
}
static const char *const PK_NAME[] = { "yield", "self_yield", "yield_to", "thread_yield_to", "suspend", "suspend_to", "exit_to", "resume_yield_to",
                                       "resume_suspend_to", "resume_exit_to", "create_to", "revive_to", "join", "free", "mutex_lock", "eventual_wait", "set_main_sched" };
static volatile unsigned g_canary_n;
/* performs the primitive with live canaries; *flags = what came back intact (bit 0 registers, 1 MXCSR, 2 x87 CW) */
static int ccall_q(int u, prim_t *p, int *flags)
{
    uint64_t in[8], out[8];
    unsigned n = __sync_add_and_fetch(&g_canary_n, 1);
    for (int i = 0; i < 6; i++)
        in[i] = 0xC0DE000000000000ULL ^ ((uint64_t)u << 40) ^ ((uint64_t)n << 8) ^ (uint64_t)(i + 1) * 0x0101010101ULL;
    /* MXCSR: all exceptions masked, rounding mode and flush-to-zero / denormals-are-zero vary */
    in[6] = 0x1F80u | ((n & 3u) << 13) | ((n >> 2 & 1u) << 15) | ((n >> 3 & 1u) << 6);
    /* x87 control word: all exceptions masked, precision and rounding control vary */
    in[7] = 0x003Fu | 0x0040u | (((n >> 1 & 1u) ? 3u : 2u) << 8) | ((n >> 2 & 3u) << 10);
    long r = abtv_canary_call(prim_thunk, p, in, out);
    int regs = 1;
    for (int i = 0; i < 6; i++)
        regs &= in[i] == out[i];
    int mx = (in[6] & 0xFFC0u) == (out[6] & 0xFFC0u);
    int cw = (in[7] & 0xFFFFu) == (out[7] & 0xFFFFu);
    *flags = regs | mx << 1 | cw << 2;
    return (int)r;
}
static void ctx_log(int u, int kind, int flags)
{
    int rank = -1;
    ABT_xstream_self_rank(&rank);
    EV("\"e\":\"Ctx\",\"u\":%d,\"prim\":\"%s\",\"regs\":%d,\"mxcsr\":%d,\"x87\":%d,\"es\":%d", u, PK_NAME[kind], flags & 1, flags >> 1 & 1, flags >> 2 & 1, rank);
}
/* ... and logs it at once */
static int ccall(int u, prim_t *p)
{
    int flags = 0;
    int r = ccall_q(u, p, &flags);
    ctx_log(u, p->kind, flags);
    return r;
}
#define CC1(u, k, t) ccall((u), &(prim_t){ .kind = (k), .th = (t) })

enum { OP_YIELD, OP_CREATE, OP_FREE, OP_JOIN, OP_REVIVE, OP_SUSPEND, OP_EXIT, OP_LOOP, OP_SUSPLOOP, OP_POINT };
typedef struct {
    int op, k;
} sop_t;
typedef struct unit {
    int id, kind, named, pool, creator; /* creator: 0 main, -1 ext, >0 unit */
    int reaper;                         /* who frees it (same convention), -2 nobody (unnamed) */
    sop_t s[MAXS];
    int ns;
    int inc;            /* incarnation */
    int cancel_me;      /* 0 no, 1 cancelled by main, 2 by ext */
    int revive;         /* revived once by its reaper */
    int stack;          /* stack size class */
    int late;           /* resumed (by the external thread) only after the stream joins have been issued */
    ABT_thread th;
    volatile int created, want_resume, resumed, cancelled, looping, token, started, accounted;
    ABT_thread lp_partner; /* a looping unit's partner for directed yields, parked in lp_hold (no scheduler) */
    ABT_pool lp_hold;
    volatile int lp_stop, lp_on;
    int many_freed, spin;
} unit_t;
typedef struct {
    unit_t *u;
    int inc;
} uarg_t;

static unit_t U[MAXU + 1];
static uarg_t UA[MAXU + 1][3];
static int g_nu, g_nes, g_cfg;
static ABT_xstream g_xs[MAXES];
static ABT_pool g_pool[MAXES][2];
static int g_npools[MAXES];
static ABT_sched g_sched[MAXES];
static int g_shared; /* pools are shared among streams (work stealing) */
static pthread_t g_ext;
static int g_have_ext;
static volatile int g_ext_done, g_live, g_joining;

static void body(void *arg);
static const char *STN[] = { "READY", "RUNNING", "BLOCKED", "TERMINATED" };
static int state_of(ABT_thread t)
{
    ABT_thread_state s;
    CHK(ABT_thread_get_state(t, &s));
    switch (s) {
        case ABT_THREAD_STATE_READY: return 0;
        case ABT_THREAD_STATE_RUNNING: return 1;
        case ABT_THREAD_STATE_BLOCKED: return 2;
        case ABT_THREAD_STATE_TERMINATED: return 3;
    }
    return -1;
}
static void pause_any(int who)
{
    if (who >= 0)
        ABT_thread_yield();
    abtv_idle_hint();
}
static ABT_pool pool_of(unit_t *u) { return g_pool[u->pool % g_nes][0]; }
static int pool_size(ABT_pool p);
static int g_jm; /* exec option jm=1: see generate() */
static void lp_partner_body(void *a)
{
    unit_t *u = (unit_t *)a;
    while (!u->lp_stop)
        ABT_thread_yield();
}
/* after the looping unit is gone: let its partner finish (on the primary stream) and free it */
static void lp_cleanup(int who, unit_t *c)
{
    if (!c->lp_on)
        return;
    c->lp_on = 0;
    c->lp_stop = 1;
    while (state_of(c->lp_partner) != 3) {
        ABT_thread t = ABT_THREAD_NULL;
        CHK(ABT_pool_pop_thread(c->lp_hold, &t));
        if (t != ABT_THREAD_NULL)
            CHK(ABT_pool_push_thread(g_pool[0][0], t));
        pause_any(who);
    }
    CHK(ABT_thread_free(&c->lp_partner));
    CHK(ABT_pool_free(&c->lp_hold));
}

/* what the calling ULT reads as its own state: a running unit never sees anything but RUNNING,
 * whichever way control came back to it (popped by a scheduler or handed over directly) */
static int self_state(void)
{
    ABT_thread t;
    CHK(ABT_thread_self(&t));
    return state_of(t);
}
static void do_create(int who, unit_t *c)
{
    uarg_t *a = &UA[c->id][c->inc];
    a->u = c;
    a->inc = c->inc;
    __sync_add_and_fetch(&g_live, 1);
    EV("\"e\":\"Create\",\"by\":%d,\"u\":%d,\"kind\":%d,\"named\":%d,\"arg\":%d,\"pool\":%d", who, c->id, c->kind, c->named,
       c->id * 10 + c->inc, c->pool % g_nes);
    int r;
    if (c->kind == U_ULT) {
        ABT_thread_attr attr = ABT_THREAD_ATTR_NULL;
        if (c->stack) {
            CHK(ABT_thread_attr_create(&attr));
            CHK(ABT_thread_attr_set_stacksize(attr, c->stack == 1 ? 65536 : 32768 + 4096));
        }
        r = ABT_thread_create(pool_of(c), body, a, attr, c->named ? &c->th : NULL);
        if (c->stack)
            CHK(ABT_thread_attr_free(&attr));
    } else {
        r = ABT_task_create(pool_of(c), body, a, c->named ? &c->th : NULL);
    }
    CHK(r);
    c->created = 1;
    EV("\"e\":\"CreateRet\",\"by\":%d,\"u\":%d", who, c->id);
}
static void do_join(int who, unit_t *c)
{
    EV("\"e\":\"JoinCall\",\"by\":%d,\"u\":%d", who, c->id);
    if (c->kind == U_TASK && rnd(2))
        CHK(ABT_task_join(c->th));
    else if (who > 0 && U[who].kind == U_ULT) {
        int fl = 0;
        CHK(ccall_q(who, &(prim_t){ .kind = PK_JOIN, .th = c->th }, &fl));
        EV("\"e\":\"JoinRet\",\"by\":%d,\"u\":%d,\"st\":%d,\"tok\":%d,\"self\":%d", who, c->id, state_of(c->th), c->token, self_state());
        ctx_log(who, PK_JOIN, fl);
        return;
    } else
        CHK(ABT_thread_join(c->th));
    EV("\"e\":\"JoinRet\",\"by\":%d,\"u\":%d,\"st\":%d,\"tok\":%d", who, c->id, state_of(c->th), c->token);
}
static void do_free(int who, unit_t *c)
{
    EV("\"e\":\"FreeCall\",\"by\":%d,\"u\":%d", who, c->id);
    int tok_before = c->token;
    (void)tok_before;
    int isnull;
    if (c->kind == U_TASK && rnd(2)) {
        CHK(ABT_task_free(&c->th));
        isnull = c->th == ABT_TASK_NULL;
    } else if (who > 0 && U[who].kind == U_ULT) {
        int fl = 0;
        CHK(ccall_q(who, &(prim_t){ .kind = PK_FREE, .pth = &c->th }, &fl));
        isnull = c->th == ABT_THREAD_NULL;
        EV("\"e\":\"FreeRet\",\"by\":%d,\"u\":%d,\"null\":%d,\"tok\":%d,\"self\":%d", who, c->id, isnull, c->token, self_state());
        ctx_log(who, PK_FREE, fl);
        if (!c->accounted) {
            c->accounted = 1;
            __sync_sub_and_fetch(&g_live, 1);
        }
        lp_cleanup(who, c);
        return;
    } else {
        CHK(ABT_thread_free(&c->th));
        isnull = c->th == ABT_THREAD_NULL;
    }
    EV("\"e\":\"FreeRet\",\"by\":%d,\"u\":%d,\"null\":%d,\"tok\":%d", who, c->id, isnull, c->token);
    if (!c->accounted) { /* cancelled before it could finish */
        c->accounted = 1;
        __sync_sub_and_fetch(&g_live, 1);
    }
    lp_cleanup(who, c);
}
static void do_revive(int who, unit_t *c)
{
    c->inc++;
    uarg_t *a = &UA[c->id][c->inc];
    a->u = c;
    a->inc = c->inc;
    c->started = 0;
    c->accounted = 0;
    __sync_add_and_fetch(&g_live, 1);
    EV("\"e\":\"Revive\",\"by\":%d,\"u\":%d,\"arg\":%d,\"pool\":%d", who, c->id, c->id * 10 + c->inc, c->pool % g_nes);
    if (c->kind == U_TASK && rnd(2))
        CHK(ABT_task_revive(pool_of(c), body, a, &c->th));
    else
        CHK(ABT_thread_revive(pool_of(c), body, a, &c->th));
    EV("\"e\":\"ReviveRet\",\"by\":%d,\"u\":%d", who, c->id);
}
/* everything `who` has to reap, in creation order */
static void reap_children(int who)
{
    if (g_jm || rnd(3) == 0) {
        /* join (or free) them all with one call first; null handles in the list are skipped */
        ABT_thread list[2 * MAXU + 2];
        unit_t *cs[MAXU + 1], *of[2 * MAXU + 2];
        int n = 0, nc = 0, anyrev = 0;
        for (int i = 1; i <= g_nu; i++) {
            unit_t *c = &U[i];
            if (c->reaper != who || !c->named)
                continue;
            while (!c->created)
                pause_any(who);
            cs[nc++] = c;
            anyrev |= c->revive;
        }
        /* any order (a tasklet that is still running before a ULT that is still running, ...) */
        for (int k = nc - 1; k > 0; k--) {
            int j = rnd(k + 1);
            unit_t *t = cs[k];
            cs[k] = cs[j];
            cs[j] = t;
        }
        for (int k = 0; k < nc; k++) {
            if (rnd(3) == 0) {
                of[n] = NULL;
                list[n++] = ABT_THREAD_NULL;
            }
            of[n] = cs[k];
            list[n++] = cs[k]->th;
        }
        int many_free = nc && !anyrev && rnd(2);
        if (nc && !many_free) {
            for (int k = 0; k < nc; k++)
                EV("\"e\":\"JoinCall\",\"by\":%d,\"u\":%d", who, cs[k]->id);
            CHK(ABT_thread_join_many(n, list));
            for (int k = 0; k < nc; k++)
                EV("\"e\":\"JoinRet\",\"by\":%d,\"u\":%d,\"st\":%d,\"tok\":%d", who, cs[k]->id, state_of(cs[k]->th), cs[k]->token);
        } else if (nc) {
            for (int k = 0; k < nc; k++)
                EV("\"e\":\"FreeCall\",\"by\":%d,\"u\":%d", who, cs[k]->id);
            CHK(ABT_thread_free_many(n, list));
            for (int k = 0; k < n; k++) {
                unit_t *c = of[k];
                if (!c)
                    continue;
                EV("\"e\":\"FreeRet\",\"by\":%d,\"u\":%d,\"null\":%d,\"tok\":%d", who, c->id, list[k] == ABT_THREAD_NULL, c->token);
                c->th = ABT_THREAD_NULL;
                c->many_freed = 1;
                if (!c->accounted) { /* cancelled before it could finish */
                    c->accounted = 1;
                    __sync_sub_and_fetch(&g_live, 1);
                }
                lp_cleanup(who, c);
            }
        }
    }
    for (int i = 1; i <= g_nu; i++) {
        unit_t *c = &U[i];
        if (c->reaper != who || !c->named)
            continue;
        while (!c->created)
            pause_any(who);
        if (c->many_freed)
            continue;
        if (c->revive) {
            do_join(who, c);
            do_revive(who, c);
        } else if (rnd(3) == 0) {
            do_join(who, c);
        }
        do_free(who, c);
    }
}
static void run_script(unit_t *u, int inc)
{
    int who = u->id;
    if (inc > 0) {
        /* second incarnation: short */
        if (u->kind == U_ULT && rnd(2))
            ABT_thread_yield();
        return;
    }
    if (rnd(4) == 0) {
        /* a unit cannot free itself: the call is rejected and leaves the caller's handle alone */
        ABT_thread me, h;
        CHK(ABT_thread_self(&me));
        h = me;
        int r = ABT_thread_free(&h);
        EV("\"e\":\"FreeRej\",\"u\":%d,\"ret\":%d,\"same\":%d", who, r == ABT_ERR_INV_THREAD ? 1 : r == ABT_SUCCESS ? 0 : 2, h == me);
    }
    for (int i = 0; i < u->ns; i++) {
        sop_t *o = &u->s[i];
        switch (o->op) {
            case OP_YIELD:
                for (int k = 0; k < o->k; k++) {
                    int fl = 0;
                    EV("\"e\":\"Yield\",\"u\":%d", who);
                    CHK(ccall_q(who, &(prim_t){ .kind = PK_YIELD }, &fl));
                    EV("\"e\":\"Back\",\"u\":%d,\"self\":%d", who, self_state());
                    ctx_log(who, PK_YIELD, fl);
                }
                break;
            case OP_POINT:
                abtv_point();
                break;
            case OP_CREATE:
                do_create(who, &U[o->k]);
                break;
            case OP_SUSPEND:
                EV("\"e\":\"Suspend\",\"u\":%d", who);
                u->want_resume = 1;
                {
                    int fl = 0;
                    CHK(ccall_q(who, &(prim_t){ .kind = PK_SUSPEND }, &fl));
                    EV("\"e\":\"Resumed\",\"u\":%d,\"self\":%d", who, self_state());
                    ctx_log(who, PK_SUSPEND, fl);
                }
                break;
            case OP_LOOP:
                /* runs until cancelled */
                if (rnd(2)) {
                    CHK(ABT_pool_create_basic(ABT_POOL_FIFO, ABT_POOL_ACCESS_MPMC, ABT_FALSE, &u->lp_hold));
                    CHK(ABT_thread_create(u->lp_hold, lp_partner_body, u, ABT_THREAD_ATTR_NULL, &u->lp_partner));
                    u->lp_on = 1;
                }
                u->looping = 1;
                for (;;) {
                    /* the cancellation request is honoured at a plain or at a directed yield */
                    if (u->lp_on && rnd(2) && pool_size(u->lp_hold) == 1) {
                        EV("\"e\":\"YieldTo\",\"u\":%d", who);
                        CHK(ABT_thread_yield_to(u->lp_partner));
                    } else {
                        EV("\"e\":\"Yield\",\"u\":%d", who);
                        CHK(ABT_thread_yield());
                    }
                    EV("\"e\":\"Back\",\"u\":%d", who);
                    abtv_idle_hint();
                }
                break;
            case OP_SUSPLOOP:
                /* suspends; it is cancelled while blocked, then resumed */
                EV("\"e\":\"Suspend\",\"u\":%d", who);
                u->want_resume = 2;
                CHK(ABT_self_suspend());
                EV("\"e\":\"Resumed\",\"u\":%d", who);
                break;
            case OP_EXIT:
                reap_children(who);
                u->token = u->id * 10 + inc;
                u->accounted = 1;
                __sync_sub_and_fetch(&g_live, 1);
                EV("\"e\":\"Exit\",\"u\":%d", who);
                if (o->k)
                    ABT_self_exit();
                else
                    ABT_thread_exit();
                EV("\"e\":\"AfterExit\",\"u\":%d", who);
                break;
        }
    }
    reap_children(who);
}
static void body(void *arg)
{
    uarg_t *a = (uarg_t *)arg;
    unit_t *u = a->u;
    int rank = -1;
    ABT_xstream_self_rank(&rank);
    u->started++;
    EV("\"e\":\"Start\",\"u\":%d,\"arg\":%d,\"es\":%d,\"n\":%d", u->id, u->id * 10 + a->inc, rank, u->started);
    if (u->kind == U_ULT)
        run_script(u, a->inc);
    else {
        /* tasklet: creations only */
        if (a->inc == 0)
            for (int i = 0; i < u->ns; i++)
                if (u->s[i].op == OP_CREATE)
                    do_create(u->id, &U[u->s[i].k]);
        /* some tasklets are still running when their reaper starts to wait for them */
        for (int k = u->spin ? u->spin : (u->id * 7 + u->pool) % 5 == 0 ? 30 : 1; k > 0; k--)
            abtv_point();
    }
    /* the value a joiner must see */
    u->token = u->id * 10 + a->inc;
    u->accounted = 1;
    __sync_sub_and_fetch(&g_live, 1);
    EV("\"e\":\"Finish\",\"u\":%d", u->id);
}

/* resume / cancel duties of main (who = 0) or the external thread (who = -1) */
static void serve(int who)
{
    for (;;) {
        int pending = 0;
        for (int i = 1; i <= g_nu; i++) {
            unit_t *u = &U[i];
            int mine = (u->late ? -1 : u->cancel_me ? (u->cancel_me == 1 ? 0 : -1) : (i % 2 && g_have_ext ? -1 : 0)) == who;
            if (!mine)
                continue;
            int has_susp = 0, has_loop = 0, has_sloop = 0;
            for (int k = 0; k < u->ns; k++) {
                has_susp |= u->s[k].op == OP_SUSPEND;
                has_loop |= u->s[k].op == OP_LOOP;
                has_sloop |= u->s[k].op == OP_SUSPLOOP;
            }
            if (has_susp && !u->resumed) {
                pending = 1;
                if (u->want_resume == 1 && u->created && (!u->late || g_joining) && state_of(u->th) == 2) {
                    u->resumed = 1;
                    EV("\"e\":\"ResumeCall\",\"by\":%d,\"u\":%d", who, i);
                    if (rnd(2))
                        abtv_stall_within(8, 150 + rnd(400));
                    CHK(ABT_thread_resume(u->th));
                    EV("\"e\":\"ResumeRet\",\"by\":%d,\"u\":%d", who, i);
                }
            }
            if (has_loop && !u->cancelled) {
                pending = 1;
                /* cancel it while it loops */
                if (u->created && u->looping) {
                    u->cancelled = 1;
                    EV("\"e\":\"Cancel\",\"by\":%d,\"u\":%d", who, i);
                    if (rnd(2))
                        abtv_stall_within(3, 100 + rnd(200));
                    CHK(ABT_thread_cancel(u->th));
                    EV("\"e\":\"CancelRet\",\"by\":%d,\"u\":%d", who, i);
                }
            }
            if (has_sloop && !u->cancelled) {
                pending = 1;
                if (u->want_resume == 2 && u->created && state_of(u->th) == 2) {
                    u->cancelled = 1;
                    EV("\"e\":\"Cancel\",\"by\":%d,\"u\":%d", who, i);
                    CHK(ABT_thread_cancel(u->th));
                    EV("\"e\":\"CancelRet\",\"by\":%d,\"u\":%d", who, i);
                    EV("\"e\":\"ResumeCall\",\"by\":%d,\"u\":%d", who, i);
                    CHK(ABT_thread_resume(u->th));
                    EV("\"e\":\"ResumeRet\",\"by\":%d,\"u\":%d", who, i);
                }
            }
        }
        if (!pending)
            break;
        pause_any(who == 0 ? 0 : -1);
    }
}
static void sample_blocked(const char *tag)
{
    for (int e = 0; e < g_nes; e++) {
        /* one snapshot of both sizes: no hand-over in between (serialized mode); when
         * free-running, only a pair of values that stayed stable is reported */
        size_t ts = 0, s = 0, ts2 = 1, s2 = 1;
        abtv_atomic_begin();
        for (int tries = 0; tries < 50 && (ts != ts2 || s != s2); tries++) {
            CHK(ABT_pool_get_total_size(g_pool[e][0], &ts));
            CHK(ABT_pool_get_size(g_pool[e][0], &s));
            CHK(ABT_pool_get_total_size(g_pool[e][0], &ts2));
            CHK(ABT_pool_get_size(g_pool[e][0], &s2));
        }
        abtv_atomic_end();
        if (ts != ts2 || s != s2)
            continue;
        EV("\"e\":\"Blocked\",\"tag\":\"%s\",\"p\":%d,\"n\":%d,\"size\":%d", tag, e, (int)ts - (int)s, (int)s);
    }
}
static void *ext_main(void *p)
{
    (void)p;
    for (int i = 1; i <= g_nu; i++)
        if (U[i].creator == -1)
            do_create(-1, &U[i]);
    serve(-1);
    reap_children(-1);
    g_ext_done = 1;
    return NULL;
}


/* ======================================================================= migration (C13)
 * Movers are ULTs that yield / suspend in a loop and report the pool they
 * were last popped from; requesters (the primary ULT, an external thread, the
 * mover itself) issue one request at a time and wait until it is performed
 * (callback observed) or must be rejected.  Judged by the migration part of
 * H_Exec. */
#define MAXM 4
typedef struct {
    int id, home, rounds, migratable, cbmode, self_req, suspend_round;
    int block_kind; /* how it blocks in its suspend round: 0 ABT_self_suspend, 1 ABT_eventual_wait, 3 ABT_self_resume_suspend_to */
    ABT_thread th, partner, parker;
    ABT_pool hold; /* where the partner parks: served by no scheduler */
    ABT_eventual ev;
    volatile int cb_count, done, round, state_hint, cb_ready, last_pool, backs, tok, cancelled;
    int cancel_self; /* at its suspension the unit has asked for its own migration and cancellation */
    int revive_after; /* its last act is a migration request that is never served; it is revived afterwards */
    volatile int rev_done;
} mover_t;
static volatile int g_partner_stop;
static void partner_body(void *a)
{
    (void)a;
    /* parked in a pool that no scheduler serves; runs only when yielded to */
    while (!g_partner_stop)
        ABT_thread_yield();
}
/* a helper that is always blocked: the target of ABT_self_resume_suspend_to */
static void parker_body(void *a)
{
    (void)a;
    while (!g_partner_stop)
        CHK(ABT_self_suspend());
}
static int pool_size(ABT_pool p)
{
    size_t n = 0;
    CHK(ABT_pool_get_size(p, &n));
    return (int)n;
}
static mover_t MV[MAXM + 1];
static int g_nm;
static int pool_index(ABT_pool p)
{
    for (int e = 0; e < g_nes; e++)
        if (g_pool[e][0] == p)
            return e;
    return -1;
}
static void mig_cb(ABT_thread th, void *arg)
{
    mover_t *m = (mover_t *)arg;
    (void)th;
    /* log first: requesters wait for the counter and then log their next request */
    EV("\"e\":\"MigCb\",\"u\":%d", m->id);
    m->cb_count++;
}
static int last_pool_of_self(void)
{
    ABT_pool p;
    CHK(ABT_self_get_last_pool(&p));
    return pool_index(p);
}
/* the word of the unit's migration record that holds the requested target */
static const void *mig_target_word(ABT_thread th)
{
    ABTI_key k;
    memset(&k, 0, sizeof k);
    k.id = ABTI_KEY_ID_MIGRATION;
    ABTI_thread_mig_data *d = (ABTI_thread_mig_data *)ABTI_ktable_get(&ABTI_thread_get_ptr(th)->p_keytable, &k);
    return d ? (const void *)&d->p_migration_pool : NULL;
}
/* the pools (by index) that the main scheduler of stream e serves: configuration knowledge */
static int sched_has(int e, int *out)
{
    int n = 0;
    if (g_cfg == 4 && e >= 1) {
        for (int k = 0; k < g_nes - 1; k++)
            out[n++] = 1 + (e - 1 + k) % (g_nes - 1);
    } else
        out[n++] = e;
    return n;
}
static void request(int who, mover_t *m, int how, int tgt)
{
    /* how: 0 to_pool, 1 to_xstream, 2 to_sched, 3 migrate (any other stream) */
    int r;
    char has[64] = "";
    if (how == 0)
        snprintf(has, sizeof has, "%d", tgt);
    else if (how != 3) {
        int hs[MAXES], n = sched_has(tgt, hs), o = 0;
        for (int k = 0; k < n; k++)
            o += snprintf(has + o, sizeof has - (size_t)o, "%s%d", k ? "," : "", hs[k]);
    }
    EV("\"e\":\"MigReq\",\"by\":%d,\"u\":%d,\"tgt\":%d,\"how\":%d,\"has\":[%s]", who, m->id, how == 3 ? -1 : tgt, how, has);
    if (how == 0)
        r = ABT_thread_migrate_to_pool(m->th, g_pool[tgt][0]);
    else if (how == 1)
        r = ABT_thread_migrate_to_xstream(m->th, g_xs[tgt]);
    else if (how == 2) {
        ABT_sched sc;
        CHK(ABT_xstream_get_main_sched(g_xs[tgt], &sc));
        r = ABT_thread_migrate_to_sched(m->th, sc);
    } else
        r = ABT_thread_migrate(m->th);
    EV("\"e\":\"MigRet\",\"by\":%d,\"u\":%d,\"ret\":%d", who, m->id,
       r == ABT_SUCCESS ? 0 : r == ABT_ERR_MIGRATION_TARGET ? 1 : r == ABT_ERR_INV_THREAD ? 2 : r == ABT_ERR_MIGRATION_NA ? 3 : 9);
}
static void mover_body(void *arg)
{
    mover_t *m = (mover_t *)arg;
    int rank = -1;
    ABT_xstream_self_rank(&rank);
    EV("\"e\":\"Start\",\"u\":%d,\"arg\":%d,\"es\":%d,\"n\":1", m->id, m->id * 10, rank);
    EV("\"e\":\"Back\",\"u\":%d,\"pool\":%d", m->id, last_pool_of_self());
    /* the migration record must exist before requests can race on creating it
     * (known finding S2 is exercised by scenario "migrace" only) */
    while (!m->cb_ready) {
        EV("\"e\":\"Yield\",\"u\":%d", m->id);
        CHK(ABT_thread_yield());
        EV("\"e\":\"Back\",\"u\":%d,\"pool\":%d", m->id, last_pool_of_self());
    }
    for (int r = 0; r < m->rounds; r++) {
        m->round = r;
        if (m->self_req && (r % 2) == 0 && g_nes > 1) {
            /* self-migration, possibly overwritten by a second request */
            int cur = last_pool_of_self();
            int t1 = (cur + 1 + rnd(g_nes - 1)) % g_nes;
            request(m->id, m, g_cfg == 4 ? 0 : rnd(3), t1);
            if (m->self_req == 2 && g_nes > 2) {
                int t2 = (cur + 1 + rnd(g_nes - 1)) % g_nes;
                request(m->id, m, 0, t2);
            }
        }
        if (r == m->suspend_round) {
            /* every blocking path counts the unit in num_blocked of the pool it will
             * come back to -- also when a migration request is handled right there */
            int kind = m->block_kind;
            if (kind == 3 && (m->parker == ABT_THREAD_NULL || state_of(m->parker) != 2))
                kind = 0;
            if (m->cancel_self) {
                /* a migration and a cancellation are both pending when it blocks (by suspending, in a wait, or by
                 * handing over to a parked unit with resume_suspend_to): the migration is
                 * performed there, the cancellation when it is resumed -- it never runs again */
                int cur = last_pool_of_self();
                request(m->id, m, 0, (cur + 1 + rnd(g_nes - 1)) % g_nes);
                EV("\"e\":\"Cancel\",\"by\":%d,\"u\":%d", m->id, m->id);
                CHK(ABT_thread_cancel(m->th));
                EV("\"e\":\"CancelRet\",\"by\":%d,\"u\":%d", m->id, m->id);
                m->cancelled = 1;
            }
            EV("\"e\":\"Suspend\",\"u\":%d,\"how\":%d", m->id, kind);
            if (kind == 1) {
                m->state_hint = 3;
                CHK(ABT_eventual_wait(m->ev, NULL));
            } else if (kind == 3) {
                m->state_hint = 1;
                CHK(ABT_self_resume_suspend_to(m->parker));
            } else {
                m->state_hint = 1;
                CHK(ABT_self_suspend());
            }
            m->state_hint = 0;
            EV("\"e\":\"Resumed\",\"u\":%d", m->id);
        } else if (m->partner != ABT_THREAD_NULL && rnd(3) == 0 && pool_size(m->hold) == 1) {
            /* the old directed yield: the partner runs next, yields at once and parks again */
            /* (the target of a directed yield must be ready and in its pool: after this unit has
             * moved to another stream the partner may still be running on the old one) */
            EV("\"e\":\"YieldTo\",\"u\":%d", m->id);
            CHK(ABT_thread_yield_to(m->partner));
        } else {
            EV("\"e\":\"Yield\",\"u\":%d", m->id);
            CHK(ABT_thread_yield());
        }
        m->last_pool = last_pool_of_self();
        EV("\"e\":\"Back\",\"u\":%d,\"pool\":%d", m->id, m->last_pool);
        m->backs++;
    }
    if (m->revive_after && g_nes > 1) {
        /* accepted, but the unit ends before its next scheduling point: the request dies with this life */
        int cur = last_pool_of_self();
        request(m->id, m, 0, (cur + 1 + rnd(g_nes - 1)) % g_nes);
    }
    m->tok = m->id * 10;
    m->done = 1;
    EV("\"e\":\"Finish\",\"u\":%d", m->id);
}
/* second life of a revived mover: no migration was requested in this life */
static void mover_rev_body(void *arg)
{
    mover_t *m = (mover_t *)arg;
    int rank = -1;
    ABT_xstream_self_rank(&rank);
    EV("\"e\":\"Start\",\"u\":%d,\"arg\":%d,\"es\":%d,\"n\":1", m->id, m->id * 10 + 1, rank);
    EV("\"e\":\"Back\",\"u\":%d,\"pool\":%d", m->id, last_pool_of_self());
    for (int r = 0; r < 2; r++) {
        EV("\"e\":\"Yield\",\"u\":%d", m->id);
        CHK(ABT_thread_yield());
        EV("\"e\":\"Back\",\"u\":%d,\"pool\":%d", m->id, last_pool_of_self());
    }
    m->tok = m->id * 10 + 1;
    EV("\"e\":\"Finish\",\"u\":%d", m->id);
    m->rev_done = 1;
}
static int try_resume(int who, mover_t *m)
{
    if (m->state_hint == 3 && state_of(m->th) == 2) {
        m->state_hint = 2;
        EV("\"e\":\"ResumeCall\",\"by\":%d,\"u\":%d", who, m->id);
        CHK(ABT_eventual_set(m->ev, NULL, 0));
        EV("\"e\":\"ResumeRet\",\"by\":%d,\"u\":%d", who, m->id);
        return 1;
    }
    if (m->state_hint == 1 && state_of(m->th) == 2) {
        m->state_hint = 2;
        EV("\"e\":\"ResumeCall\",\"by\":%d,\"u\":%d", who, m->id);
        CHK(ABT_thread_resume(m->th));
        EV("\"e\":\"ResumeRet\",\"by\":%d,\"u\":%d", who, m->id);
        return 1;
    }
    return 0;
}
/* requester loop of main (who = 0) or the external thread (who = -1) */
static void mig_serve(int who)
{
    int issued = 0;
    for (;;) {
        int alive = 0;
        for (int i = 1; i <= g_nm; i++) {
            mover_t *m = &MV[i];
            int mine = ((i % 2) && g_have_ext) ? -1 : 0;
            if (mine != who)
                continue;
            if (m->cancelled && !m->done && state_of(m->th) == 3) {
                /* ended by its own cancellation request -- which is honoured only when it is resumed */
                EV("\"e\":\"StateObs\",\"by\":%d,\"u\":%d,\"st\":3", who, m->id);
                m->done = 1;
            }
            if (m->done)
                continue;
            alive = 1;
            if (!m->cb_ready)
                continue;
            /* resume duty (sometimes only after a request was issued while it is blocked) */
            if ((m->state_hint == 1 || m->state_hint == 3) && (m->self_req || g_nes < 2 || rnd(2)) && try_resume(who, m))
                continue;
            if (m->self_req || g_nes < 2 || issued > 12)
                continue;
            if (rnd(3))
                continue;
            /* one external request at a time: wait until it is performed */
            int before = m->cb_count;
            int cur = -1;
            {
                /* the pool the unit is associated with right now (it can only change through us) */
                cur = m->home;
            }
            int how = rnd(4);
            if (g_cfg == 4 && how == 3)
                how = 0; /* shared pools: every secondary stream's scheduler already has the pool */
            if (how == 3 && g_nes < 3)
                how = 1; /* ABT_thread_migrate excludes the last stream and the pool's owner */
            int tgt = (cur + 1 + rnd(g_nes - 1)) % g_nes;
            int expect_ok = m->migratable;
            if (rnd(6) == 0) {
                tgt = cur; /* same pool: must be rejected */
                how = 0;
                expect_ok = 0;
            }
            if (how == 1 || how == 2) {
                /* a scheduler that already serves the unit's pool (work stealing: as one of its
                 * other pools) is no target either */
                int hs[MAXES], n = sched_has(tgt, hs);
                for (int k = 0; k < n; k++)
                    if (hs[k] == cur)
                        expect_ok = 0;
            }
            issued++;
            int b0 = m->backs, fin = tgt;
            int burst = expect_ok && how != 3 && g_nes >= 3 && rnd(3) == 0;
            int held = burst && abtv_mode() == ABTV_MODE_SERIAL && rnd(2);
            if (held)
                /* whoever reads the requested target (the handler) is held back right after
                 * that, so that the second request lands while the first is being performed */
                abtv_watch_load_after(mig_target_word(m->th), 1 + rnd(3), 300 + rnd(600), 1000);
            request(who, m, how, tgt);
            if (held)
                for (int k = 0; k < 400 && !abtv_watch_hits() && !m->done; k++)
                    pause_any(who);
            if (burst) {
                /* a burst: the next request is issued without waiting for the first one to be
                 * performed -- whichever of them the handler sees, the unit ends up at the target
                 * of the last one */
                fin = tgt;
                while (fin == tgt || fin == cur)
                    fin = rnd(g_nes);
                issued++;
                request(who, m, g_cfg == 4 ? 0 : rnd(3), fin);
            }
            if (expect_ok && how != 3) {
                /* performed when the unit reports back from the target pool */
                while (!(m->backs != b0 && m->last_pool == fin) && !m->done) {
                    try_resume(who, m);
                    pause_any(who);
                }
                if (burst)
                    abtv_watch_load(NULL, 0, 0);
                if (m->backs != b0 && m->last_pool == fin)
                    m->home = fin;
                else
                    m->self_req = 3; /* finished first: where it ended is not known to us */
            } else if (expect_ok) {
                while (m->cb_count == before && !m->done) {
                    try_resume(who, m);
                    pause_any(who);
                }
                m->self_req = 3; /* the runtime chose the target: no further requests from us */
            }
        }
        if (!alive)
            break;
        pause_any(who);
    }
}
static void *mig_ext_main(void *p)
{
    (void)p;
    mig_serve(-1);
    g_ext_done = 1;
    return NULL;
}
static void scn_migrate(void)
{
    memset(MV, 0, sizeof MV);
    g_nm = 1 + rnd(MAXM);
    g_have_ext = rnd(2);
    g_ext_done = 0;
    EV("\"e\":\"Exec\",\"nu\":%d,\"nes\":%d,\"cfg\":%d,\"ext\":%d", g_nm, g_nes, g_cfg, g_have_ext);
    g_partner_stop = 0;
    for (int i = 1; i <= g_nm; i++) {
        mover_t *m = &MV[i];
        m->id = i;
        m->partner = ABT_THREAD_NULL;
        m->hold = ABT_POOL_NULL;
        if (rnd(2)) {
            CHK(ABT_pool_create_basic(ABT_POOL_FIFO, ABT_POOL_ACCESS_MPMC, ABT_FALSE, &m->hold));
            CHK(ABT_thread_create(m->hold, partner_body, NULL, ABT_THREAD_ATTR_NULL, &m->partner));
        }
        m->parker = ABT_THREAD_NULL;
        m->block_kind = rnd(3) == 0 ? 0 : rnd(2) ? 1 : 3;
        if (m->block_kind == 3)
            CHK(ABT_thread_create(g_pool[0][0], parker_body, NULL, ABT_THREAD_ATTR_NULL, &m->parker));
        CHK(ABT_eventual_create(0, &m->ev));
        m->home = rnd(g_nes);
        m->rounds = 2 + rnd(5);
        m->migratable = rnd(6) != 0;
        m->cbmode = rnd(2);
        m->self_req = m->migratable ? (rnd(3) == 0 ? 1 + rnd(2) : 0) : 0;
        m->suspend_round = rnd(3) == 0 ? rnd(m->rounds) : -1;
        m->cancel_self = m->migratable && m->suspend_round >= 0 && g_nes > 1 && rnd(3) == 0;
        if (m->cancel_self)
            m->self_req = 1; /* (no requests from the others for this unit) */
        m->revive_after = m->migratable && !m->cancel_self && rnd(4) == 0;
        if (m->revive_after && !m->self_req)
            m->self_req = 1; /* (its own requests only: one requester at a time per unit) */
        ABT_thread_attr attr;
        CHK(ABT_thread_attr_create(&attr));
        CHK(ABT_thread_attr_set_stacksize(attr, 65536));
        /* some are created non-migratable (with their callback) and made migratable afterwards */
        int late_mig = m->migratable && rnd(3) == 0;
        if (!m->migratable || late_mig)
            CHK(ABT_thread_attr_set_migratable(attr, ABT_FALSE));
        if (m->cbmode == 0)
            CHK(ABT_thread_attr_set_callback(attr, mig_cb, m));
        EV("\"e\":\"Create\",\"by\":0,\"u\":%d,\"kind\":0,\"named\":1,\"arg\":%d,\"pool\":%d,\"mig\":%d", i, i * 10, m->home,
           m->migratable);
        CHK(ABT_thread_create(g_pool[m->home][0], mover_body, m, attr, &m->th));
        CHK(ABT_thread_attr_free(&attr));
        /* installing the callback afterwards also creates the migration record
         * before any concurrent request (see known finding S2) */
        if (m->cbmode == 1)
            CHK(ABT_thread_set_callback(m->th, mig_cb, m));
        if (late_mig)
            CHK(ABT_thread_set_migratable(m->th, ABT_TRUE));
        m->cb_ready = 1;
        EV("\"e\":\"CreateRet\",\"by\":0,\"u\":%d", i);
    }
    if (rnd(2)) {
        /* the primary ULT cannot be migrated */
        ABT_thread self;
        CHK(ABT_thread_self(&self));
        int r = g_nes > 1 && rnd(2) ? ABT_thread_migrate_to_pool(self, g_pool[g_nes - 1][0]) : ABT_thread_migrate(self);
        EV("\"e\":\"MigRej\",\"what\":\"primary\",\"ret\":%d", r == ABT_ERR_INV_THREAD ? 1 : r == ABT_SUCCESS ? 0 : 2);
    }
    if (g_have_ext)
        pthread_create(&g_ext, NULL, mig_ext_main, NULL);
    mig_serve(0);
    if (g_have_ext) {
        while (!g_ext_done)
            pause_any(0);
        pthread_join(g_ext, NULL);
    }
    for (int i = 1; i <= g_nm; i++) {
        mover_t *m = &MV[i];
        if (!m->revive_after || m->cancelled)
            continue;
        /* revived into some pool: it runs there, and nothing of its first life's request is left */
        CHK(ABT_thread_join(m->th));
        int p = rnd(g_nes);
        m->cb_count = 0;
        EV("\"e\":\"Revive\",\"by\":0,\"u\":%d,\"arg\":%d,\"pool\":%d", i, i * 10 + 1, p);
        CHK(ABT_thread_revive(g_pool[p][0], mover_rev_body, m, &m->th));
        EV("\"e\":\"ReviveRet\",\"by\":0,\"u\":%d", i);
        while (!m->rev_done)
            pause_any(0);
    }
    for (int i = 1; i <= g_nm; i++) {
        EV("\"e\":\"FreeCall\",\"by\":0,\"u\":%d", i);
        CHK(ABT_thread_free(&MV[i].th));
        EV("\"e\":\"FreeRet\",\"by\":0,\"u\":%d,\"null\":%d,\"tok\":%d", i, MV[i].th == ABT_THREAD_NULL, MV[i].tok);
        EV("\"e\":\"MigCount\",\"u\":%d,\"n\":%d", i, MV[i].cb_count);
    }
    /* let the partners and parkers finish */
    g_partner_stop = 1;
    for (int i = 1; i <= g_nm; i++) {
        CHK(ABT_eventual_free(&MV[i].ev));
        if (MV[i].parker != ABT_THREAD_NULL) {
            while (state_of(MV[i].parker) != 2 && state_of(MV[i].parker) != 3)
                pause_any(0);
            if (state_of(MV[i].parker) == 2)
                CHK(ABT_thread_resume(MV[i].parker));
            CHK(ABT_thread_free(&MV[i].parker));
        }
    }
    /* A partner parks in the hold pool after each yield; one that was still running on the
     * stream its mover has left sees the stop flag and ends on its own; one that has just
     * yielded may still be on its way back to the pool (its last stream pushes it after the
     * context switch). */
    for (;;) {
        int left = 0;
        for (int i = 1; i <= g_nm; i++) {
            if (MV[i].partner == ABT_THREAD_NULL || state_of(MV[i].partner) == 3)
                continue;
            left++;
            ABT_thread t = ABT_THREAD_NULL;
            CHK(ABT_pool_pop_thread(MV[i].hold, &t));
            if (t != ABT_THREAD_NULL)
                CHK(ABT_pool_push_thread(g_pool[0][0], t));
        }
        if (!left)
            break;
        pause_any(0);
    }
    for (int i = 1; i <= g_nm; i++)
        if (MV[i].partner != ABT_THREAD_NULL) {
            CHK(ABT_thread_free(&MV[i].partner));
            CHK(ABT_pool_free(&MV[i].hold));
        }
    sample_blocked("quiet");
}

/* Scenario "migrace": the very first migration requests for a unit are issued
 * by two requesters at the same time (no migration record exists yet). */
static volatile int g_race_go, g_race_stop, g_race_done;
static ABT_thread g_race_t;
static void race_target(void *a)
{
    (void)a;
    EV("\"e\":\"Start\",\"u\":1,\"arg\":10,\"es\":0,\"n\":1");
    g_race_go = 1;
    while (!g_race_stop) {
        EV("\"e\":\"Yield\",\"u\":1");
        CHK(ABT_thread_yield());
        EV("\"e\":\"Back\",\"u\":1");
        abtv_idle_hint();
    }
    EV("\"e\":\"Finish\",\"u\":1");
}
static void *race_req(void *p)
{
    int tgt = (int)(intptr_t)p;
    while (!g_race_go)
        abtv_idle_hint();
    EV("\"e\":\"Note\",\"what\":\"first-request\",\"tgt\":%d", tgt);
    int r = ABT_thread_migrate_to_pool(g_race_t, g_pool[tgt][0]);
    EV("\"e\":\"Note\",\"what\":\"first-request-ret\",\"tgt\":%d,\"ret\":%d", tgt, r);
    __sync_fetch_and_add(&g_race_done, 1);
    return NULL;
}
static void scn_migrace(void)
{
    g_race_go = g_race_stop = g_race_done = 0;
    EV("\"e\":\"Exec\",\"nu\":1,\"nes\":%d,\"cfg\":%d,\"ext\":2", g_nes, g_cfg);
    EV("\"e\":\"Create\",\"by\":0,\"u\":1,\"kind\":0,\"named\":1,\"arg\":10,\"pool\":0");
    CHK(ABT_thread_create(g_pool[0][0], race_target, NULL, ABT_THREAD_ATTR_NULL, &g_race_t));
    EV("\"e\":\"CreateRet\",\"by\":0,\"u\":1");
    pthread_t a, b;
    pthread_create(&a, NULL, race_req, (void *)(intptr_t)(1 % g_nes));
    pthread_create(&b, NULL, race_req, (void *)(intptr_t)(2 % g_nes));
    for (int i = 0; i < 30; i++)
        ABT_thread_yield();
    while (!g_race_go)
        ABT_thread_yield();
    /* the requesters must have returned before the unit may terminate and be freed
     * (a request for a unit that is being freed is a use after free); the primary
     * stream keeps running meanwhile */
    while (g_race_done < 2) {
        ABT_thread_yield();
        abtv_idle_hint();
    }
    for (int i = 0; i < 10; i++)
        ABT_thread_yield();
    g_race_stop = 1;
    EV("\"e\":\"FreeCall\",\"by\":0,\"u\":1");
    CHK(ABT_thread_free(&g_race_t));
    EV("\"e\":\"FreeRet\",\"by\":0,\"u\":1,\"null\":%d,\"tok\":10", g_race_t == ABT_THREAD_NULL);
    pthread_join(a, NULL);
    pthread_join(b, NULL);
}

/* ======================================================================= directed switches (C11)
 * A chain of named ULTs on the primary execution stream (the primary ULT
 * takes part, id 9).  Whoever has control picks the next primitive among the
 * legal ones; every primitive records who must run next and in which state
 * the caller must be observed; the unit that gains control reports who it is
 * and what it sees.  A ULT on another stream resumes plainly suspended units
 * the moment their BLOCKED state becomes observable. */
enum { S_NONE, S_NEW, S_PARKED, S_FREE, S_BLOCKED, S_RUN, S_DONE };
#define SWMAX 8
#define SW_PRIMARY 9
typedef struct {
    int id, inc, plain; /* plain: suspended by ABT_self_suspend (remote resume allowed) */
    int home;           /* 0: the primary stream's pool, 1: a second pool that no scheduler serves */
    volatile int stt;
    ABT_thread th;
    volatile int claim;
    volatile int gen; /* incremented every time the unit blocks */
} sw_t;
static sw_t SW[SW_PRIMARY + 1];
static int g_nsw, g_sw_budget, g_sw_creates;
static volatile int g_exp_of, g_sw_over;
static ABT_pool g_p0, g_q;
static char *g_sw_ustack[SW_PRIMARY + 1];
static void sw_entry(void *arg);
#define SW_POOL(h) ((h) ? g_q : g_p0)

static sw_t *sw_lookup(ABT_thread t)
{
    for (int i = 1; i <= SW_PRIMARY; i++)
        if (SW[i].stt != S_NONE && SW[i].th == t)
            return &SW[i];
    return NULL;
}
static void sw_run_event(sw_t *me)
{
    int rank = -1;
    ABT_xstream_self_rank(&rank);
    int of = g_exp_of, ost = -1;
    g_exp_of = -1;
    abtv_atomic_begin(); /* one snapshot of the states and sizes reported below */
    if (of > 0)
        ost = state_of(SW[of].th);
    size_t sz = 0, tot = 0;
    CHK(ABT_pool_get_size(g_p0, &sz));
    CHK(ABT_pool_get_total_size(g_p0, &tot));
    me->stt = S_RUN;
    EV("\"e\":\"Run\",\"u\":%d,\"es\":%d,\"of\":%d,\"ost\":%d,\"size\":%d,\"total\":%d", me->id, rank, of, ost, (int)sz,
       (int)tot);
    abtv_atomic_end();
}
static int sw_pick(int want, int exclude)
{
    int c[SW_PRIMARY + 1], n = 0;
    for (int i = 1; i <= SW_PRIMARY; i++)
        if (i != exclude && SW[i].stt == want)
            c[n++] = i;
    return n ? c[rnd(n)] : 0;
}
static int sw_claim(sw_t *b)
{
    return __sync_bool_compare_and_swap(&b->claim, 0, 1);
}
static void sw_new_unit(int by, int id, int to)
{
    sw_t *n = &SW[id];
    n->id = id;
    n->inc = 0;
    n->claim = 0;
    n->plain = 0;
    n->home = rnd(3) == 0;
    ABT_thread_attr attr;
    CHK(ABT_thread_attr_create(&attr));
    /* stack provenance: malloc'ed non-default size, memory pool (default size), or
     * user-supplied at an 8-byte-aligned address of either 16-byte phase */
    int prov = rnd(4);
    if (prov == 0) {
        CHK(ABT_thread_attr_set_stacksize(attr, 65536 + 8 * rnd(5)));
    } else if (prov == 1) {
        /* default attributes */
    } else {
        if (!g_sw_ustack[id])
            g_sw_ustack[id] = (char *)malloc(65536 + 64);
        uintptr_t base = ((uintptr_t)g_sw_ustack[id] + 15) & ~(uintptr_t)15;
        size_t size = 65536 - 8 * (size_t)rnd(3);
        CHK(ABT_thread_attr_set_stack(attr, (void *)(base + (prov == 2 ? 8 : 0)), size));
    }
    if (to) {
        sw_t *me = &SW[by];
        me->stt = S_PARKED;
        n->stt = S_RUN;
        g_exp_of = by;
        EV("\"e\":\"Prim\",\"u\":%d,\"op\":\"create_to\",\"t\":%d,\"arg\":%d,\"pool\":%d", by, id, id * 10, n->home);
        CHK(ccall(by, &(prim_t){ .kind = PK_CREATE_TO, .pool = SW_POOL(n->home), .f = sw_entry, .arg = n, .attr = attr, .pth = &n->th }));
    } else {
        n->stt = S_NEW;
        EV("\"e\":\"Create\",\"by\":%d,\"u\":%d,\"kind\":0,\"named\":1,\"arg\":%d,\"pool\":%d", by, id, id * 10, n->home);
        CHK(ABT_thread_create(SW_POOL(n->home), sw_entry, n, attr, &n->th));
        EV("\"e\":\"CreateRet\",\"by\":%d,\"u\":%d", by, id);
    }
    CHK(ABT_thread_attr_free(&attr));
}
/* returns 0 when the caller must finish */
static int sw_step(sw_t *me)
{
    int primary = me->id == SW_PRIMARY;
    if (g_sw_budget <= 0 || g_sw_over)
        return 0;
    g_sw_budget--;
    for (int attempt = 0; attempt < 8; attempt++) {
        int op = rnd(12);
        if (op <= 2) {
            /* take a ready unit out of the pool and switch to it */
            ABT_thread t = ABT_THREAD_NULL;
            CHK(ABT_pool_pop_thread(rnd(3) == 0 ? g_q : g_p0, &t));
            if (t == ABT_THREAD_NULL)
                continue;
            sw_t *T = sw_lookup(t);
            if (!T)
                abtv_fail("broken:unknown-unit-popped", ABTV_EXIT_BROKEN);
            EV("\"e\":\"Pop\",\"by\":%d,\"t\":%d", me->id, T->id);
            T->stt = S_FREE;
            int k = rnd(3);
            if (k == 1 && primary)
                k = 0; /* the primary ULT never blocks: it has to clean up */
            if (k == 2 && (primary || T->id == SW_PRIMARY))
                k = 0;
            g_exp_of = me->id;
            T->stt = S_RUN;
            if (k == 0) {
                me->stt = S_PARKED;
                EV("\"e\":\"Prim\",\"u\":%d,\"op\":\"yield_to\",\"t\":%d,\"arg\":0", me->id, T->id);
                CHK(CC1(me->id, PK_YIELD_TO, T->th));
            } else if (k == 1) {
                me->stt = S_BLOCKED;
                me->plain = 0;
                me->claim = 0;
                me->gen++;
                EV("\"e\":\"Prim\",\"u\":%d,\"op\":\"suspend_to\",\"t\":%d,\"arg\":0", me->id, T->id);
                CHK(CC1(me->id, PK_SUSPEND_TO, T->th));
            } else {
                me->stt = S_DONE;
                EV("\"e\":\"Prim\",\"u\":%d,\"op\":\"exit_to\",\"t\":%d,\"arg\":0", me->id, T->id);
                CHK(CC1(me->id, PK_EXIT_TO, T->th));
                abtv_fail("crash:exit_to-returned", ABTV_EXIT_CRASH);
            }
            sw_run_event(me);
            return 1;
        } else if (op <= 5) {
            int b = sw_pick(S_BLOCKED, me->id);
            if (!b || !sw_claim(&SW[b]))
                continue;
            sw_t *B = &SW[b];
            int k = rnd(4);
            if ((k == 2 || k == 3) && primary)
                k = rnd(2);
            if (k == 0) {
                B->stt = S_PARKED;
                EV("\"e\":\"Prim\",\"u\":%d,\"op\":\"resume\",\"t\":%d,\"arg\":0", me->id, b);
                CHK(ABT_thread_resume(B->th));
                return 1;
            }
            g_exp_of = me->id;
            B->stt = S_RUN;
            if (k == 1) {
                me->stt = S_PARKED;
                EV("\"e\":\"Prim\",\"u\":%d,\"op\":\"resume_yield_to\",\"t\":%d,\"arg\":0", me->id, b);
                CHK(CC1(me->id, PK_RESUME_YIELD_TO, B->th));
            } else if (k == 2) {
                me->stt = S_BLOCKED;
                me->plain = 0;
                me->claim = 0;
                me->gen++;
                EV("\"e\":\"Prim\",\"u\":%d,\"op\":\"resume_suspend_to\",\"t\":%d,\"arg\":0", me->id, b);
                CHK(CC1(me->id, PK_RESUME_SUSPEND_TO, B->th));
            } else {
                me->stt = S_DONE;
                EV("\"e\":\"Prim\",\"u\":%d,\"op\":\"resume_exit_to\",\"t\":%d,\"arg\":0", me->id, b);
                CHK(CC1(me->id, PK_RESUME_EXIT_TO, B->th));
                abtv_fail("crash:resume_exit_to-returned", ABTV_EXIT_CRASH);
            }
            sw_run_event(me);
            return 1;
        } else if (op == 6) {
            if (g_nsw >= SWMAX || g_sw_creates <= 0)
                continue;
            g_sw_creates--;
            int id = ++g_nsw;
            int to = rnd(2);
            sw_new_unit(me->id, id, to);
            if (to)
                sw_run_event(me);
            return 1;
        } else if (op == 7) {
            int d = sw_pick(S_DONE, me->id);
            if (!d || d == SW_PRIMARY || SW[d].inc >= 2)
                continue;
            sw_t *D = &SW[d];
            D->inc++;
            D->stt = S_RUN;
            D->claim = 0;
            me->stt = S_PARKED;
            g_exp_of = me->id;
            EV("\"e\":\"Prim\",\"u\":%d,\"op\":\"revive_to\",\"t\":%d,\"arg\":%d,\"pool\":%d", me->id, d, d * 10 + D->inc, D->home);
            CHK(ccall(me->id, &(prim_t){ .kind = PK_REVIVE_TO, .pool = SW_POOL(D->home), .f = sw_entry, .arg = D, .pth = &D->th }));
            sw_run_event(me);
            return 1;
        } else if (op == 8) {
            /* the old interface takes a unit that is still in the pool */
            int t = sw_pick(rnd(2) ? S_PARKED : S_NEW, me->id);
            if (!t)
                continue;
            sw_t *T = &SW[t];
            me->stt = S_PARKED;
            T->stt = S_RUN;
            g_exp_of = me->id;
            EV("\"e\":\"Prim\",\"u\":%d,\"op\":\"thread_yield_to\",\"t\":%d,\"arg\":0", me->id, t);
            CHK(CC1(me->id, PK_THREAD_YIELD_TO, T->th));
            sw_run_event(me);
            return 1;
        } else if (op <= 10) {
            me->stt = S_PARKED;
            EV("\"e\":\"Prim\",\"u\":%d,\"op\":\"yield\",\"t\":0,\"arg\":0", me->id);
            CHK(CC1(me->id, rnd(2) ? PK_SELF_YIELD : PK_YIELD, ABT_THREAD_NULL));
            sw_run_event(me);
            return 1;
        } else {
            if (primary)
                continue;
            me->plain = 1;
            me->claim = 0;
            me->gen++;
            EV("\"e\":\"Prim\",\"u\":%d,\"op\":\"suspend\",\"t\":0,\"arg\":0", me->id);
            me->stt = S_BLOCKED;
            CHK(CC1(me->id, PK_SUSPEND, ABT_THREAD_NULL));
            sw_run_event(me);
            return 1;
        }
    }
    return 1;
}
static void sw_entry(void *arg)
{
    sw_t *me = (sw_t *)arg;
    int rank = -1;
    ABT_xstream_self_rank(&rank);
    /* the frame address at entry of a ULT function: (fp + 16) % 16 == 0 by the ABI */
    int sp16 = (int)(((uintptr_t)__builtin_frame_address(0) + 16) % 16);
    EV("\"e\":\"Start\",\"u\":%d,\"arg\":%d,\"es\":%d,\"n\":1,\"sp16\":%d", me->id, me->id * 10 + me->inc, rank, sp16);
    sw_run_event(me);
    while (sw_step(me))
        ;
    me->stt = S_DONE;
    EV("\"e\":\"Finish\",\"u\":%d", me->id);
}
/* on another stream: resume plainly suspended units as soon as BLOCKED is visible */
static void sw_remote(void *arg)
{
    (void)arg;
    while (!g_sw_over) {
        for (int i = 1; i <= SWMAX; i++) {
            sw_t *b = &SW[i];
            if (b->stt == S_BLOCKED && b->plain && state_of(b->th) == 2 && sw_claim(b)) {
                int gen = b->gen;
                EV("\"e\":\"ResumeCall\",\"by\":-1,\"u\":%d", i);
                CHK(ABT_thread_resume(b->th));
                /* the unit may already be running again on the primary stream -- or even be blocked again */
                if (b->gen == gen)
                    __sync_bool_compare_and_swap(&b->stt, S_BLOCKED, S_PARKED);
                EV("\"e\":\"ResumeRet\",\"by\":-1,\"u\":%d", i);
            }
        }
        ABT_thread_yield();
        abtv_idle_hint();
    }
}
/* A ULT that acts as the scheduler of the units' pool (ABT_self_schedule): the units then run
 * as children of this ULT, not of the stream's main scheduler, and every directed switch has to
 * hand the named unit to the same parent. */
static void sw_nest_sched(void *a)
{
    (void)a;
    while (!g_sw_over) {
        ABT_thread t = ABT_THREAD_NULL;
        CHK(ABT_pool_pop_thread(g_p0, &t));
        if (t != ABT_THREAD_NULL)
            CHK(ABT_self_schedule(t, ABT_POOL_NULL));
        CHK(ABT_thread_yield());
        abtv_idle_hint();
    }
}
static void scn_switch(void)
{
    memset(SW, 0, sizeof SW);
    g_p0 = g_pool[0][0];
    int nest = opt_long("nest", -1) >= 0 ? (int)opt_long("nest", 0) : rnd(3) == 0;
    ABT_thread nest_th = ABT_THREAD_NULL;
    if (nest)
        CHK(ABT_pool_create_basic(ABT_POOL_FIFO, ABT_POOL_ACCESS_MPMC, ABT_FALSE, &g_p0));
    CHK(ABT_pool_create_basic(ABT_POOL_FIFO, ABT_POOL_ACCESS_MPMC, ABT_FALSE, &g_q));
    g_exp_of = -1;
    g_sw_over = 0;
    g_sw_budget = 6 + rnd(14);
    g_sw_creates = 3;
    g_nsw = 1 + rnd(3);
    EV("\"e\":\"Exec\",\"nu\":%d,\"nes\":%d,\"cfg\":%d,\"ext\":0", g_nsw, g_nes, g_cfg);
    sw_t *me = &SW[SW_PRIMARY];
    me->id = SW_PRIMARY;
    me->stt = S_RUN;
    CHK(ABT_thread_self(&me->th));
    EV("\"e\":\"Primary\",\"u\":%d,\"pool\":%d", SW_PRIMARY, nest ? 9 : 0);
    if (nest)
        CHK(ABT_thread_create(g_pool[0][0], sw_nest_sched, NULL, ABT_THREAD_ATTR_NULL, &nest_th));
    ABT_thread remote = ABT_THREAD_NULL;
    if (g_nes > 1)
        CHK(ABT_thread_create(g_pool[1][0], sw_remote, NULL, ABT_THREAD_ATTR_NULL, &remote));
    for (int i = 1; i <= g_nsw; i++)
        sw_new_unit(SW_PRIMARY, i, 0);
    while (sw_step(me))
        ;
    /* clean up: everybody must terminate */
    g_sw_budget = 0;
    for (;;) {
        int left = 0;
        for (int i = 1; i <= SWMAX; i++)
            left += SW[i].stt != S_NONE && SW[i].stt != S_DONE;
        if (!left)
            break;
        int b = sw_pick(S_BLOCKED, SW_PRIMARY);
        if (b && sw_claim(&SW[b])) {
            SW[b].stt = S_PARKED;
            EV("\"e\":\"Prim\",\"u\":%d,\"op\":\"resume\",\"t\":%d,\"arg\":0", SW_PRIMARY, b);
            CHK(ABT_thread_resume(SW[b].th));
            continue;
        }
        {
            /* units parked in the pool without a scheduler only run when somebody switches to them */
            ABT_thread t = ABT_THREAD_NULL;
            CHK(ABT_pool_pop_thread(g_q, &t));
            if (t != ABT_THREAD_NULL) {
                sw_t *T = sw_lookup(t);
                EV("\"e\":\"Pop\",\"by\":%d,\"t\":%d", SW_PRIMARY, T->id);
                T->stt = S_RUN;
                me->stt = S_PARKED;
                g_exp_of = SW_PRIMARY;
                EV("\"e\":\"Prim\",\"u\":%d,\"op\":\"yield_to\",\"t\":%d,\"arg\":0", SW_PRIMARY, T->id);
                CHK(CC1(me->id, PK_YIELD_TO, T->th));
                sw_run_event(me);
                continue;
            }
        }
        me->stt = S_PARKED;
        EV("\"e\":\"Prim\",\"u\":%d,\"op\":\"yield\",\"t\":0,\"arg\":0", SW_PRIMARY);
        CHK(ABT_thread_yield());
        sw_run_event(me);
    }
    g_sw_over = 1;
    if (remote != ABT_THREAD_NULL)
        CHK(ABT_thread_free(&remote));
    for (int i = 1; i <= SWMAX; i++)
        if (SW[i].stt == S_DONE) {
            EV("\"e\":\"FreeCall\",\"by\":%d,\"u\":%d", SW_PRIMARY, i);
            CHK(ABT_thread_free(&SW[i].th));
            EV("\"e\":\"FreeRet\",\"by\":%d,\"u\":%d,\"null\":%d,\"tok\":%d", SW_PRIMARY, i, SW[i].th == ABT_THREAD_NULL,
               i * 10 + SW[i].inc);
        }
    CHK(ABT_pool_free(&g_q));
    if (nest) {
        CHK(ABT_thread_free(&nest_th));
        CHK(ABT_pool_free(&g_p0));
    }
    EV("\"e\":\"PrimaryDone\",\"u\":%d", SW_PRIMARY);
    sample_blocked("quiet");
}

/* ======================================================================= stream join vs. resume (C06)
 * Units of a secondary stream are suspended when the primary ULT joins the
 * stream; an external thread (or a ULT of another stream) resumes them while
 * the stream's scheduler runs its stop test. */
static volatile int g_xj_go;
static unit_t *g_xj_units[4];
static int g_xj_n;
static void xj_body(void *arg)
{
    uarg_t *a = (uarg_t *)arg;
    unit_t *u = a->u;
    int rank = -1;
    ABT_xstream_self_rank(&rank);
    EV("\"e\":\"Start\",\"u\":%d,\"arg\":%d,\"es\":%d,\"n\":1", u->id, u->id * 10, rank);
    for (int k = 0; k < u->ns; k++) {
        EV("\"e\":\"Yield\",\"u\":%d", u->id);
        CHK(ABT_thread_yield());
        EV("\"e\":\"Back\",\"u\":%d", u->id);
    }
    CHK(ABT_self_get_thread(&u->th));
    EV("\"e\":\"Suspend\",\"u\":%d", u->id);
    u->want_resume = 1;
    CHK(ABT_self_suspend());
    EV("\"e\":\"Resumed\",\"u\":%d", u->id);
    if (u->stack)
        for (int k = 0; k < u->stack; k++) {
            EV("\"e\":\"Yield\",\"u\":%d", u->id);
            CHK(ABT_thread_yield());
            EV("\"e\":\"Back\",\"u\":%d", u->id);
        }
    u->token = u->id * 10;
    EV("\"e\":\"Finish\",\"u\":%d", u->id);
}
static void xj_resume_all(int who)
{
    while (!g_xj_go)
        pause_any(who);
    for (int d = rnd(40); d > 0; d--)
        abtv_idle_hint();
    for (int i = 0; i < g_xj_n; i++) {
        unit_t *u = g_xj_units[i];
        while (!(u->want_resume == 1 && state_of(u->th) == 2))
            pause_any(who);
        EV("\"e\":\"ResumeCall\",\"by\":%d,\"u\":%d", who, u->id);
        if (rnd(4))
            abtv_stall_within(7, 100 + rnd(500));
        CHK(ABT_thread_resume(u->th));
        EV("\"e\":\"ResumeRet\",\"by\":%d,\"u\":%d", who, u->id);
    }
}
static void *xj_ext(void *p)
{
    (void)p;
    xj_resume_all(-1);
    return NULL;
}
static void xj_helper(void *p)
{
    (void)p;
    EV("\"e\":\"Start\",\"u\":9,\"arg\":90,\"es\":0,\"n\":1");
    xj_resume_all(9);
    EV("\"e\":\"Finish\",\"u\":9");
}
/* stacked = 1: the units live in a pool of their own that a stacked scheduler
 * (ABT_pool_add_sched into the main pool of stream 1) serves; the stacked scheduler
 * is asked to finish (or just runs out of work) and the stream is joined */
static void scn_xjoin_impl(int stacked);
static void scn_xjoin(void) { scn_xjoin_impl(0); }
static void scn_stacked(void) { scn_xjoin_impl(1); }
static void scn_xjoin_impl(int stacked)
{
    memset(U, 0, sizeof U);
    ABT_pool upool = g_pool[1][0], q = ABT_POOL_NULL, qs[3] = { ABT_POOL_NULL, ABT_POOL_NULL, ABT_POOL_NULL };
    ABT_sched s2 = ABT_SCHED_NULL;
    int nq = 0;
    if (stacked) {
        static const ABT_sched_predef pre[3] = { ABT_SCHED_BASIC, ABT_SCHED_PRIO, ABT_SCHED_RANDWS };
        /* one to three pools of the user's own; the units live in one of them (any position:
         * a lower priority, a pool the work-stealing scheduler only ever visits as a victim) */
        nq = 1 + rnd(3);
        for (int k = 0; k < nq; k++)
            CHK(ABT_pool_create_basic(rnd(2) ? ABT_POOL_FIFO : ABT_POOL_RANDWS, ABT_POOL_ACCESS_MPMC, ABT_FALSE, &qs[k]));
        if (rnd(2)) {
            /* the pools have been given to a scheduler before; that scheduler was freed again */
            ABT_sched s0;
            CHK(ABT_sched_create_basic(pre[rnd(3)], nq, qs, ABT_SCHED_CONFIG_NULL, &s0));
            CHK(ABT_sched_free(&s0));
        }
        CHK(ABT_sched_create_basic(pre[rnd(3)], nq, qs, ABT_SCHED_CONFIG_NULL, &s2));
        q = qs[rnd(nq)];
        upool = q;
    }
    g_xj_go = 0;
    g_xj_n = 1 + rnd(3);
    int use_ext = rnd(2);
    EV("\"e\":\"Exec\",\"nu\":%d,\"nes\":%d,\"cfg\":%d,\"ext\":%d", g_xj_n, g_nes, g_cfg, use_ext);
    char buf[64];
    int p = 0;
    buf[0] = 0;
    for (int i = 0; i < g_xj_n; i++) {
        unit_t *u = &U[i + 1];
        u->id = i + 1;
        u->named = rnd(2);
        u->ns = rnd(3);
        u->stack = rnd(3);
        g_xj_units[i] = u;
        UA[u->id][0].u = u;
        UA[u->id][0].inc = 0;
        EV("\"e\":\"Create\",\"by\":0,\"u\":%d,\"kind\":0,\"named\":%d,\"arg\":%d,\"pool\":1", u->id, u->named, u->id * 10);
        ABT_thread th;
        CHK(ABT_thread_create(upool, xj_body, &UA[u->id][0], ABT_THREAD_ATTR_NULL, u->named ? &th : NULL));
        if (u->named)
            UA[u->id][1].u = (unit_t *)th; /* keep the handle for the final free */
        EV("\"e\":\"CreateRet\",\"by\":0,\"u\":%d", u->id);
        p += sprintf(buf + p, "%s%d", p ? "," : "", u->id);
    }
    pthread_t ext;
    ABT_thread helper = ABT_THREAD_NULL;
    if (use_ext)
        pthread_create(&ext, NULL, xj_ext, NULL);
    else {
        EV("\"e\":\"Create\",\"by\":0,\"u\":9,\"kind\":0,\"named\":1,\"arg\":90,\"pool\":0");
        CHK(ABT_thread_create(g_pool[0][0], xj_helper, NULL, ABT_THREAD_ATTR_NULL, &helper));
        EV("\"e\":\"CreateRet\",\"by\":0,\"u\":9");
    }
    if (stacked)
        CHK(ABT_pool_add_sched(g_pool[1][0], s2));
    /* wait until every unit is suspended, then join the stream */
    for (int i = 0; i < g_xj_n; i++)
        while (g_xj_units[i]->want_resume != 1)
            pause_any(0);
    if (stacked && rnd(2))
        CHK(ABT_sched_finish(s2)); /* otherwise the stacked scheduler stops when it has run out of work */
    /* the stop test reads "pool empty?" and then the blocked counter: hold the
     * scheduler back between the two reads now and then, so that a resume
     * (push, decrement) can fall into that window */
    if (rnd(2))
        abtv_watch_load(&ABTI_pool_get_ptr(upool)->num_blocked, 40 + rnd(400), 300);
    EV("\"e\":\"XJoinCall\",\"s\":1");
    g_xj_go = 1;
    CHK(ABT_xstream_join(g_xs[1]));
    ABT_xstream_state xst;
    CHK(ABT_xstream_get_state(g_xs[1], &xst));
    EV("\"e\":\"XJoinRet\",\"s\":1,\"us\":[%s],\"term\":%d", buf, xst == ABT_XSTREAM_STATE_TERMINATED);
    if (use_ext)
        pthread_join(ext, NULL);
    else {
        EV("\"e\":\"FreeCall\",\"by\":0,\"u\":9");
        CHK(ABT_thread_free(&helper));
        EV("\"e\":\"FreeRet\",\"by\":0,\"u\":9,\"null\":1,\"tok\":90");
    }
    for (int i = 0; i < g_xj_n; i++) {
        unit_t *u = g_xj_units[i];
        if (u->named) {
            ABT_thread th = (ABT_thread)UA[u->id][1].u;
            EV("\"e\":\"FreeCall\",\"by\":0,\"u\":%d", u->id);
            CHK(ABT_thread_free(&th));
            EV("\"e\":\"FreeRet\",\"by\":0,\"u\":%d,\"null\":%d,\"tok\":%d", u->id, th == ABT_THREAD_NULL, u->token);
        }
    }
    if (stacked) {
        size_t left = 0;
        CHK(ABT_pool_get_total_size(q, &left));
        EV("\"e\":\"Blocked\",\"tag\":\"afterjoin\",\"p\":9,\"n\":0,\"size\":%d", (int)left);
        for (int k = 0; k < nq; k++)
            CHK(ABT_pool_free(&qs[k]));
    }
}

/* ======================================================================= join request, then scheduler replacement (C17, C06)
 * The primary ULT asks a secondary stream to join; only then a ULT of that stream replaces the
 * stream's main scheduler (by a predefined one with new pools, or with the old pool).  The join
 * request must survive the replacement: the stream terminates once the ULT has finished. */
static void rj_body(void *a)
{
    (void)a;
    int rank = -1;
    ABT_xstream_self_rank(&rank);
    EV("\"e\":\"Start\",\"u\":1,\"arg\":10,\"es\":%d,\"n\":1", rank);
    while (!g_xj_go) {
        EV("\"e\":\"Yield\",\"u\":1");
        CHK(ABT_thread_yield());
        EV("\"e\":\"Back\",\"u\":1");
        abtv_idle_hint();
    }
    for (int k = rnd(4); k > 0; k--) {
        EV("\"e\":\"Yield\",\"u\":1");
        CHK(ABT_thread_yield());
        EV("\"e\":\"Back\",\"u\":1");
    }
    ABT_xstream self;
    CHK(ABT_xstream_self(&self));
    static const ABT_sched_predef pre[3] = { ABT_SCHED_BASIC, ABT_SCHED_PRIO, ABT_SCHED_RANDWS };
    if (rnd(2)) {
        CHK(ABT_xstream_set_main_sched_basic(self, pre[rnd(3)], 1, NULL));
        /* (the old, automatically created pool is gone with the old scheduler) */
        CHK(ABT_xstream_get_main_pools(self, 1, &g_pool[1][0]));
    } else {
        ABT_pool mine;
        CHK(ABT_self_get_last_pool(&mine));
        CHK(ABT_xstream_set_main_sched_basic(self, pre[rnd(3)], 1, &mine));
    }
    EV("\"e\":\"Note\",\"what\":\"replaced\"");
    for (int k = rnd(3); k > 0; k--) {
        EV("\"e\":\"Yield\",\"u\":1");
        CHK(ABT_thread_yield());
        EV("\"e\":\"Back\",\"u\":1");
    }
    EV("\"e\":\"Finish\",\"u\":1");
}
static void scn_rejoin(void)
{
    ABT_thread t;
    g_xj_go = 0;
    EV("\"e\":\"Exec\",\"nu\":1,\"nes\":%d,\"cfg\":%d,\"ext\":0", g_nes, g_cfg);
    EV("\"e\":\"Create\",\"by\":0,\"u\":1,\"kind\":0,\"named\":1,\"arg\":10,\"pool\":1");
    CHK(ABT_thread_create(g_pool[1][0], rj_body, NULL, ABT_THREAD_ATTR_NULL, &t));
    EV("\"e\":\"CreateRet\",\"by\":0,\"u\":1");
    if (rnd(2))
        while (state_of(t) == 0)
            pause_any(0);
    EV("\"e\":\"XJoinCall\",\"s\":1");
    g_xj_go = 1;
    CHK(ABT_xstream_join(g_xs[1]));
    ABT_xstream_state xst;
    CHK(ABT_xstream_get_state(g_xs[1], &xst));
    EV("\"e\":\"XJoinRet\",\"s\":1,\"us\":[1],\"term\":%d", xst == ABT_XSTREAM_STATE_TERMINATED);
    EV("\"e\":\"FreeCall\",\"by\":0,\"u\":1");
    CHK(ABT_thread_free(&t));
    EV("\"e\":\"FreeRet\",\"by\":0,\"u\":1,\"null\":%d,\"tok\":10", t == ABT_THREAD_NULL);
}

/* ======================================================================= private pool, two scheduler objects (C06)
 * A stream serves an entry pool (MPMC) and a PRIVATE pool; a second scheduler object over the
 * same pools exists but is never used.  A ULT of the stream creates a worker in the private pool;
 * the worker suspends; the stream is joined while the blocked worker is all that is left; then a
 * ULT pushed into the entry pool (it runs on the joined stream, as a private pool requires)
 * resumes the worker.  The join must wait for the worker. */
static ABT_thread g_pj_w;
static ABT_pool g_pj_e, g_pj_v;
static volatile int g_pj_want, g_pj_spawned;
static void pj_worker(void *a)
{
    (void)a;
    EV("\"e\":\"Start\",\"u\":2,\"arg\":20,\"es\":1,\"n\":1");
    EV("\"e\":\"Suspend\",\"u\":2");
    g_pj_want = 1;
    CHK(ABT_self_suspend());
    EV("\"e\":\"Resumed\",\"u\":2");
    EV("\"e\":\"Finish\",\"u\":2");
}
static void pj_spawner(void *a)
{
    (void)a;
    EV("\"e\":\"Start\",\"u\":1,\"arg\":10,\"es\":1,\"n\":1");
    EV("\"e\":\"Create\",\"by\":1,\"u\":2,\"kind\":0,\"named\":1,\"arg\":20,\"pool\":1");
    CHK(ABT_thread_create(g_pj_v, pj_worker, NULL, ABT_THREAD_ATTR_NULL, &g_pj_w));
    EV("\"e\":\"CreateRet\",\"by\":1,\"u\":2");
    g_pj_spawned = 1;
    EV("\"e\":\"Finish\",\"u\":1");
}
static void pj_setter(void *a)
{
    (void)a;
    EV("\"e\":\"Start\",\"u\":3,\"arg\":30,\"es\":1,\"n\":1");
    EV("\"e\":\"ResumeCall\",\"by\":3,\"u\":2");
    CHK(ABT_thread_resume(g_pj_w));
    EV("\"e\":\"ResumeRet\",\"by\":3,\"u\":2");
    EV("\"e\":\"Finish\",\"u\":3");
}
static ABT_thread g_pj_s;
static void *pj_ext(void *p)
{
    (void)p;
    while (!g_xj_go)
        pause_any(-1);
    for (int d = 20 + rnd(200); d > 0; d--)
        abtv_idle_hint();
    EV("\"e\":\"Create\",\"by\":-1,\"u\":3,\"kind\":0,\"named\":1,\"arg\":30,\"pool\":1");
    CHK(ABT_thread_create(g_pj_e, pj_setter, NULL, ABT_THREAD_ATTR_NULL, &g_pj_s));
    EV("\"e\":\"CreateRet\",\"by\":-1,\"u\":3");
    return NULL;
}
static void scn_privjoin(void)
{
    static const ABT_sched_predef pre[3] = { ABT_SCHED_BASIC, ABT_SCHED_PRIO, ABT_SCHED_RANDWS };
    ABT_pool ps[2];
    ABT_sched s1, s_unused = ABT_SCHED_NULL;
    ABT_xstream xs;
    ABT_thread sp;
    g_xj_go = 0;
    g_pj_want = g_pj_spawned = 0;
    EV("\"e\":\"Exec\",\"nu\":3,\"nes\":2,\"cfg\":0,\"ext\":1");
    CHK(ABT_pool_create_basic(ABT_POOL_FIFO, ABT_POOL_ACCESS_MPMC, ABT_FALSE, &g_pj_e));
    CHK(ABT_pool_create_basic(rnd(2) ? ABT_POOL_FIFO : ABT_POOL_RANDWS, ABT_POOL_ACCESS_PRIV, ABT_FALSE, &g_pj_v));
    ps[0] = g_pj_e;
    ps[1] = g_pj_v;
    CHK(ABT_sched_create_basic(pre[rnd(3)], 2, ps, ABT_SCHED_CONFIG_NULL, &s1));
    if (rnd(3))
        CHK(ABT_sched_create_basic(pre[rnd(3)], 2, ps, ABT_SCHED_CONFIG_NULL, &s_unused));
    CHK(ABT_xstream_create(s1, &xs));
    EV("\"e\":\"Create\",\"by\":0,\"u\":1,\"kind\":0,\"named\":1,\"arg\":10,\"pool\":1");
    CHK(ABT_thread_create(g_pj_e, pj_spawner, NULL, ABT_THREAD_ATTR_NULL, &sp));
    EV("\"e\":\"CreateRet\",\"by\":0,\"u\":1");
    while (!(g_pj_spawned && g_pj_want && state_of(g_pj_w) == 2 && state_of(sp) == 3))
        pause_any(0);
    pthread_t ext;
    pthread_create(&ext, NULL, pj_ext, NULL);
    EV("\"e\":\"XJoinCall\",\"s\":1");
    g_xj_go = 1;
    CHK(ABT_xstream_join(xs));
    ABT_xstream_state xst;
    CHK(ABT_xstream_get_state(xs, &xst));
    EV("\"e\":\"XJoinRet\",\"s\":1,\"us\":[1,2,3],\"term\":%d", xst == ABT_XSTREAM_STATE_TERMINATED);
    pthread_join(ext, NULL);
    ABT_thread all[3] = { sp, g_pj_w, g_pj_s };
    for (int i = 0; i < 3; i++) {
        EV("\"e\":\"FreeCall\",\"by\":0,\"u\":%d", i + 1);
        CHK(ABT_thread_free(&all[i]));
        EV("\"e\":\"FreeRet\",\"by\":0,\"u\":%d,\"null\":%d,\"tok\":%d", i + 1, all[i] == ABT_THREAD_NULL, (i + 1) * 10);
    }
    CHK(ABT_xstream_free(&xs));
    if (s_unused != ABT_SCHED_NULL)
        CHK(ABT_sched_free(&s_unused));
    CHK(ABT_pool_free(&g_pj_e));
    CHK(ABT_pool_free(&g_pj_v));
}

/* ======================================================================= resume_yield_to on shared pools (C02, C11)
 * Pairs (A, B) in pools that several streams serve: B suspends; A, once it sees
 * B BLOCKED, calls ABT_self_resume_yield_to(B).  A is pushed back to a pool that
 * another stream serves while the first stream is still inside the switch, so A
 * may be popped, resumed and run on -- overwriting the part of its stack that the
 * switch was using -- before the first stream has finished with it.  The caller
 * is held back inside the call (abtv_stall_within) to open that window. */
typedef struct {
    int id, peer;
    ABT_thread th;
    volatile int susp;
} ry_t;
static ry_t RY[9];
static void __attribute__((noinline)) scribble(int depth)
{
    /* reuse the stack below the caller */
    volatile char buf[2048];
    for (unsigned i = 0; i < sizeof buf; i++)
        buf[i] = (char)0xEE;
    if (depth > 0)
        scribble(depth - 1);
    (void)buf[0];
}
static void ry_b(void *arg)
{
    ry_t *me = (ry_t *)arg;
    int rank = -1, fl = 0;
    ABT_xstream_self_rank(&rank);
    EV("\"e\":\"Start\",\"u\":%d,\"arg\":%d,\"es\":%d,\"n\":1", me->id, me->id * 10, rank);
    EV("\"e\":\"Suspend\",\"u\":%d", me->id);
    me->susp = 1;
    CHK(ccall_q(me->id, &(prim_t){ .kind = PK_SUSPEND }, &fl));
    EV("\"e\":\"Resumed\",\"u\":%d", me->id);
    ctx_log(me->id, PK_SUSPEND, fl);
    scribble(3);
    EV("\"e\":\"Finish\",\"u\":%d", me->id);
}
static void ry_a(void *arg)
{
    ry_t *me = (ry_t *)arg;
    ry_t *b = &RY[me->peer];
    int rank = -1, fl = 0;
    ABT_xstream_self_rank(&rank);
    EV("\"e\":\"Start\",\"u\":%d,\"arg\":%d,\"es\":%d,\"n\":1", me->id, me->id * 10, rank);
    while (!b->susp || state_of(b->th) != 2) {
        EV("\"e\":\"Yield\",\"u\":%d", me->id);
        CHK(ABT_thread_yield());
        EV("\"e\":\"Back\",\"u\":%d", me->id);
        abtv_idle_hint();
    }
    EV("\"e\":\"ResumeCall\",\"by\":%d,\"u\":%d", me->id, b->id);
    EV("\"e\":\"Yield\",\"u\":%d", me->id);
    if (rnd(4))
        abtv_stall_within(60, 100 + rnd(3000));
    CHK(ccall_q(me->id, &(prim_t){ .kind = PK_RESUME_YIELD_TO, .th = b->th }, &fl));
    EV("\"e\":\"Back\",\"u\":%d", me->id);
    EV("\"e\":\"ResumeRet\",\"by\":%d,\"u\":%d", me->id, b->id);
    ctx_log(me->id, PK_RESUME_YIELD_TO, fl);
    scribble(3);
    EV("\"e\":\"Finish\",\"u\":%d", me->id);
}
static void scn_ryt(void)
{
    memset(RY, 0, sizeof RY);
    int np = 1 + rnd(3);
    EV("\"e\":\"Exec\",\"nu\":%d,\"nes\":%d,\"cfg\":%d,\"ext\":0", 2 * np, g_nes, g_cfg);
    for (int i = 0; i < np; i++) {
        ry_t *a = &RY[2 * i + 1], *b = &RY[2 * i + 2];
        a->id = 2 * i + 1;
        b->id = 2 * i + 2;
        a->peer = b->id;
        b->peer = a->id;
        EV("\"e\":\"Create\",\"by\":0,\"u\":%d,\"kind\":0,\"named\":1,\"arg\":%d,\"pool\":1", b->id, b->id * 10);
        CHK(ABT_thread_create(g_pool[1 + rnd(g_nes - 1)][0], ry_b, b, ABT_THREAD_ATTR_NULL, &b->th));
        EV("\"e\":\"CreateRet\",\"by\":0,\"u\":%d", b->id);
        EV("\"e\":\"Create\",\"by\":0,\"u\":%d,\"kind\":0,\"named\":1,\"arg\":%d,\"pool\":1", a->id, a->id * 10);
        CHK(ABT_thread_create(g_pool[1 + rnd(g_nes - 1)][0], ry_a, a, ABT_THREAD_ATTR_NULL, &a->th));
        EV("\"e\":\"CreateRet\",\"by\":0,\"u\":%d", a->id);
    }
    for (int i = 1; i <= 2 * np; i++) {
        EV("\"e\":\"FreeCall\",\"by\":0,\"u\":%d", i);
        CHK(ABT_thread_free(&RY[i].th));
        EV("\"e\":\"FreeRet\",\"by\":0,\"u\":%d,\"null\":%d,\"tok\":%d", i, RY[i].th == ABT_THREAD_NULL, i * 10);
    }
}

/* ======================================================================= main-scheduler replacement (C01, C06, C11)
 * A secondary stream runs a scheduler over three pools.  A ULT in one of them
 * (any index) replaces the main scheduler of its own stream by one with a
 * single pool; the caller must continue under the new scheduler (it is moved
 * to its first pool), the other units -- all in the pool that survives -- must
 * still run exactly once, and the stream must be joinable afterwards. */
typedef struct {
    int id, yields, replacer, keep;
    ABT_thread th;
} rp_t;
static rp_t RP[8];
static ABT_pool g_rq[3];
static ABT_xstream g_rx;
static void rp_body(void *arg)
{
    rp_t *me = (rp_t *)arg;
    int rank = -1, fl = 0;
    ABT_xstream_self_rank(&rank);
    EV("\"e\":\"Start\",\"u\":%d,\"arg\":%d,\"es\":%d,\"n\":1", me->id, me->id * 10, rank);
    for (int k = 0; k < me->yields; k++) {
        EV("\"e\":\"Yield\",\"u\":%d", me->id);
        CHK(ccall_q(me->id, &(prim_t){ .kind = PK_YIELD }, &fl));
        EV("\"e\":\"Back\",\"u\":%d", me->id);
        ctx_log(me->id, PK_YIELD, fl);
        if (me->replacer && k == 0) {
            /* the replacement is a scheduling point of the caller */
            EV("\"e\":\"Note\",\"what\":\"set_main_sched\",\"u\":%d,\"keep\":%d", me->id, me->keep);
            EV("\"e\":\"Yield\",\"u\":%d", me->id);
            /* (the stream's own handle: the creator may not have stored g_rx yet) */
            CHK(ccall_q(me->id, &(prim_t){ .kind = PK_SET_MAIN_SCHED, .pool = g_rq[me->keep], .kind2 = rnd(2) }, &fl));
            EV("\"e\":\"Back\",\"u\":%d", me->id);
            ctx_log(me->id, PK_SET_MAIN_SCHED, fl);
        }
    }
    EV("\"e\":\"Finish\",\"u\":%d", me->id);
}
static void scn_replace(void)
{
    memset(RP, 0, sizeof RP);
    int n = 2 + rnd(4);
    int keep = rnd(3);
    EV("\"e\":\"Exec\",\"nu\":%d,\"nes\":%d,\"cfg\":%d,\"ext\":0", n, g_nes, g_cfg);
    for (int i = 0; i < 3; i++)
        CHK(ABT_pool_create_basic(ABT_POOL_FIFO, ABT_POOL_ACCESS_MPMC, ABT_TRUE, &g_rq[i]));
    ABT_sched sc;
    CHK(ABT_sched_create_basic(ABT_SCHED_BASIC, 3, g_rq, ABT_SCHED_CONFIG_NULL, &sc));
    /* the units exist before the stream starts */
    for (int i = 1; i <= n; i++) {
        rp_t *u = &RP[i];
        u->id = i;
        u->yields = 1 + rnd(3);
        u->replacer = i == 1;
        u->keep = keep;
        int pool = u->replacer ? rnd(3) : keep;
        EV("\"e\":\"Create\",\"by\":0,\"u\":%d,\"kind\":0,\"named\":1,\"arg\":%d,\"pool\":1", i, i * 10);
        CHK(ABT_thread_create(g_rq[pool], rp_body, u, ABT_THREAD_ATTR_NULL, &u->th));
        EV("\"e\":\"CreateRet\",\"by\":0,\"u\":%d", i);
    }
    CHK(ABT_xstream_create(sc, &g_rx));
    for (int i = 1; i <= n; i++) {
        EV("\"e\":\"FreeCall\",\"by\":0,\"u\":%d", i);
        CHK(ABT_thread_free(&RP[i].th));
        EV("\"e\":\"FreeRet\",\"by\":0,\"u\":%d,\"null\":%d,\"tok\":%d", i, RP[i].th == ABT_THREAD_NULL, i * 10);
    }
    EV("\"e\":\"XJoinCall\",\"s\":9");
    CHK(ABT_xstream_join(g_rx));
    ABT_xstream_state xst;
    CHK(ABT_xstream_get_state(g_rx, &xst));
    EV("\"e\":\"XJoinRet\",\"s\":9,\"us\":[],\"term\":%d", xst == ABT_XSTREAM_STATE_TERMINATED);
    CHK(ABT_xstream_free(&g_rx));
}

/* ======================================================================= racing directed yields (C02)
 * Units in pools that several streams serve yield and yield to each other with
 * the old ABT_thread_yield_to, whose target may be popped by another stream's
 * scheduler between the "is it in its pool?" test and its removal; the call then
 * reports an error or does nothing -- it must never switch to a unit that is
 * running elsewhere.  Every unit flags the run slices it is in: two overlapping
 * slices of one unit are reported as Overlap. */
typedef struct {
    int id, rounds;
    ABT_thread th;
    volatile int active, done;
} yt_t;
static yt_t YT[6];
static int g_nyt;
static void yt_enter(yt_t *me)
{
    if (__sync_lock_test_and_set(&me->active, 1))
        EV("\"e\":\"Overlap\",\"u\":%d", me->id);
}
static void yt_body(void *arg)
{
    yt_t *me = (yt_t *)arg;
    int rank = -1;
    ABT_xstream_self_rank(&rank);
    EV("\"e\":\"Start\",\"u\":%d,\"arg\":%d,\"es\":%d,\"n\":1", me->id, me->id * 10, rank);
    yt_enter(me);
    for (int r = 0; r < me->rounds; r++) {
        int o = 1 + rnd(g_nyt);
        abtv_point();
        if (o != me->id && !YT[o].done && YT[o].th != ABT_THREAD_NULL && rnd(3)) {
            EV("\"e\":\"YieldTo\",\"u\":%d", me->id);
            __sync_lock_release(&me->active);
            int ret = ABT_thread_yield_to(YT[o].th);
            yt_enter(me);
            EV("\"e\":\"Back\",\"u\":%d", me->id);
            if (ret != ABT_SUCCESS && ret != ABT_ERR_POOL)
                CHK(ret);
        } else {
            EV("\"e\":\"Yield\",\"u\":%d", me->id);
            __sync_lock_release(&me->active);
            CHK(ABT_thread_yield());
            yt_enter(me);
            EV("\"e\":\"Back\",\"u\":%d", me->id);
        }
    }
    me->done = 1;
    __sync_lock_release(&me->active);
    EV("\"e\":\"Finish\",\"u\":%d", me->id);
}
static void scn_ytrace(void)
{
    memset(YT, 0, sizeof YT);
    g_nyt = 2 + rnd(4);
    EV("\"e\":\"Exec\",\"nu\":%d,\"nes\":%d,\"cfg\":%d,\"ext\":0", g_nyt, g_nes, g_cfg);
    for (int i = 1; i <= g_nyt; i++) {
        yt_t *u = &YT[i];
        u->id = i;
        u->rounds = 3 + rnd(10);
        u->th = ABT_THREAD_NULL;
    }
    for (int i = 1; i <= g_nyt; i++) {
        EV("\"e\":\"Create\",\"by\":0,\"u\":%d,\"kind\":0,\"named\":1,\"arg\":%d,\"pool\":1", i, i * 10);
        CHK(ABT_thread_create(g_pool[1 + rnd(g_nes - 1)][0], yt_body, &YT[i], ABT_THREAD_ATTR_NULL, &YT[i].th));
        EV("\"e\":\"CreateRet\",\"by\":0,\"u\":%d", i);
    }
    /* nobody is freed before everybody has finished: a unit may be about to yield to a peer that
     * it has just seen alive (the handle must stay valid) */
    for (int i = 1; i <= g_nyt; i++)
        CHK(ABT_thread_join(YT[i].th));
    for (int i = 1; i <= g_nyt; i++) {
        EV("\"e\":\"FreeCall\",\"by\":0,\"u\":%d", i);
        CHK(ABT_thread_free(&YT[i].th));
        EV("\"e\":\"FreeRet\",\"by\":0,\"u\":%d,\"null\":%d,\"tok\":%d", i, YT[i].th == ABT_THREAD_NULL, i * 10);
    }
}

/* ======================================================================= cancel before the first run (C12, C03)
 * A named ULT is created (or revived) into a pool that no scheduler serves,
 * so it has never been scheduled; a joiner blocks on it; it is cancelled and
 * only then handed to a real pool.  The joiner must be released. */
static ABT_thread g_cn_t;
static volatile int g_cn_blocked;
static void cn_target(void *a)
{
    uarg_t *ua = (uarg_t *)a;
    EV("\"e\":\"Start\",\"u\":1,\"arg\":%d,\"es\":0,\"n\":1", 10 + ua->inc);
    U[1].token = 10 + ua->inc;
    EV("\"e\":\"Finish\",\"u\":1");
}
static void cn_join(int who)
{
    g_cn_blocked = 1;
    EV("\"e\":\"JoinCall\",\"by\":%d,\"u\":1", who);
    CHK(ABT_thread_join(g_cn_t));
    EV("\"e\":\"JoinRet\",\"by\":%d,\"u\":1,\"st\":%d,\"tok\":%d", who, state_of(g_cn_t), U[1].token);
}
static void cn_joiner_ult(void *a)
{
    (void)a;
    EV("\"e\":\"Start\",\"u\":2,\"arg\":20,\"es\":0,\"n\":1");
    cn_join(2);
    EV("\"e\":\"Finish\",\"u\":2");
}
static void *cn_joiner_ext(void *a)
{
    (void)a;
    cn_join(-1);
    return NULL;
}
static void scn_cancelnew(void)
{
    memset(U, 0, sizeof U);
    g_cn_blocked = 0;
    int revived = rnd(2), jkind = rnd(3); /* joiner: 0 ULT, 1 external thread, 2 the primary ULT after the hand-over */
    EV("\"e\":\"Exec\",\"nu\":2,\"nes\":%d,\"cfg\":%d,\"ext\":%d", g_nes, g_cfg, jkind == 1);
    ABT_pool hold;
    CHK(ABT_pool_create_basic(ABT_POOL_FIFO, ABT_POOL_ACCESS_MPMC, ABT_FALSE, &hold));
    U[1].id = 1;
    UA[1][0].u = &U[1];
    UA[1][0].inc = 0;
    UA[1][1].u = &U[1];
    UA[1][1].inc = 1;
    int tp = rnd(g_nes);
    if (!revived) {
        EV("\"e\":\"Create\",\"by\":0,\"u\":1,\"kind\":0,\"named\":1,\"arg\":10,\"pool\":%d", tp);
        CHK(ABT_thread_create(hold, cn_target, &UA[1][0], ABT_THREAD_ATTR_NULL, &g_cn_t));
        EV("\"e\":\"CreateRet\",\"by\":0,\"u\":1");
    } else {
        /* first incarnation runs normally, the second one is never scheduled */
        EV("\"e\":\"Create\",\"by\":0,\"u\":1,\"kind\":0,\"named\":1,\"arg\":10,\"pool\":%d", tp);
        CHK(ABT_thread_create(g_pool[tp][0], cn_target, &UA[1][0], ABT_THREAD_ATTR_NULL, &g_cn_t));
        EV("\"e\":\"CreateRet\",\"by\":0,\"u\":1");
        EV("\"e\":\"JoinCall\",\"by\":0,\"u\":1");
        CHK(ABT_thread_join(g_cn_t));
        EV("\"e\":\"JoinRet\",\"by\":0,\"u\":1,\"st\":%d,\"tok\":%d", state_of(g_cn_t), U[1].token);
        EV("\"e\":\"Revive\",\"by\":0,\"u\":1,\"arg\":11,\"pool\":%d", tp);
        CHK(ABT_thread_revive(hold, cn_target, &UA[1][1], &g_cn_t));
        EV("\"e\":\"ReviveRet\",\"by\":0,\"u\":1");
        U[1].token = 0;
    }
    ABT_thread j = ABT_THREAD_NULL;
    pthread_t pj;
    if (jkind == 0) {
        EV("\"e\":\"Create\",\"by\":0,\"u\":2,\"kind\":0,\"named\":1,\"arg\":20,\"pool\":0");
        CHK(ABT_thread_create(g_pool[rnd(g_nes)][0], cn_joiner_ult, NULL, ABT_THREAD_ATTR_NULL, &j));
        EV("\"e\":\"CreateRet\",\"by\":0,\"u\":2");
        while (!(g_cn_blocked && state_of(j) == 2))
            pause_any(0);
    } else if (jkind == 1) {
        pthread_create(&pj, NULL, cn_joiner_ext, NULL);
        while (!g_cn_blocked)
            pause_any(0);
        for (int d = 20 + rnd(60); d > 0; d--)
            abtv_idle_hint();
    }
    EV("\"e\":\"Cancel\",\"by\":0,\"u\":1");
    CHK(ABT_thread_cancel(g_cn_t));
    EV("\"e\":\"CancelRet\",\"by\":0,\"u\":1");
    /* hand the unit to a pool that is scheduled */
    ABT_thread t;
    CHK(ABT_pool_pop_thread(hold, &t));
    CHK(ABT_pool_push_thread(g_pool[tp][0], t));
    if (jkind == 0) {
        EV("\"e\":\"FreeCall\",\"by\":0,\"u\":2");
        CHK(ABT_thread_free(&j));
        EV("\"e\":\"FreeRet\",\"by\":0,\"u\":2,\"null\":1,\"tok\":20");
    } else if (jkind == 1) {
        while (state_of(g_cn_t) != 3)
            pause_any(0);
        pthread_join(pj, NULL);
    } else {
        cn_join(0);
    }
    EV("\"e\":\"FreeCall\",\"by\":0,\"u\":1");
    CHK(ABT_thread_free(&g_cn_t));
    EV("\"e\":\"FreeRet\",\"by\":0,\"u\":1,\"null\":%d,\"tok\":%d", g_cn_t == ABT_THREAD_NULL, U[1].token);
    CHK(ABT_pool_free(&hold));
}

/* ======================================================================= cancel corner cases (C12)
 * (a) the request reaches a running unit after its last scheduling point: the
 *     unit finishes normally; after join + revive the new incarnation must run.
 * (b) the request is pending when the unit's next scheduling point is a
 *     blocking join on a live unit: the join target must still terminate and
 *     be joinable, the cancelled unit terminates when it is scheduled again. */
static volatile int g_cm_ready, g_cm_cancelled, g_cm_release;
static ABT_thread g_cm_j, g_cm_t;
static void cm_late(void *a)
{
    uarg_t *ua = (uarg_t *)a;
    EV("\"e\":\"Start\",\"u\":1,\"arg\":%d,\"es\":0,\"n\":1", 10 + ua->inc);
    if (ua->inc == 0) {
        g_cm_ready = 1;
        while (!g_cm_cancelled)
            abtv_idle_hint(); /* no scheduling point of the runtime */
    } else if (U[1].kind == U_ULT) {
        EV("\"e\":\"Yield\",\"u\":1");
        CHK(ABT_thread_yield());
        EV("\"e\":\"Back\",\"u\":1");
    }
    U[1].token = 10 + ua->inc;
    EV("\"e\":\"Finish\",\"u\":1");
}
static void cm_target(void *a)
{
    (void)a;
    EV("\"e\":\"Start\",\"u\":2,\"arg\":20,\"es\":0,\"n\":1");
    while (!g_cm_release) {
        EV("\"e\":\"Yield\",\"u\":2");
        CHK(ABT_thread_yield());
        EV("\"e\":\"Back\",\"u\":2");
        abtv_idle_hint();
    }
    U[2].token = 20;
    EV("\"e\":\"Finish\",\"u\":2");
}
static void cm_joiner(void *a)
{
    (void)a;
    EV("\"e\":\"Start\",\"u\":1,\"arg\":10,\"es\":0,\"n\":1");
    g_cm_ready = 1;
    while (!g_cm_cancelled)
        abtv_idle_hint();
    EV("\"e\":\"JoinCall\",\"by\":1,\"u\":2");
    CHK(ABT_thread_join(g_cm_t));
    EV("\"e\":\"JoinRet\",\"by\":1,\"u\":2,\"st\":%d,\"tok\":%d", state_of(g_cm_t), U[2].token);
    U[1].token = 10;
    EV("\"e\":\"Finish\",\"u\":1");
}
static void scn_cancelmix(void)
{
    memset(U, 0, sizeof U);
    g_cm_ready = g_cm_cancelled = g_cm_release = 0;
    int sub = rnd(2);
    EV("\"e\":\"Exec\",\"nu\":2,\"nes\":%d,\"cfg\":%d,\"ext\":0", g_nes, g_cfg);
    UA[1][0].u = &U[1];
    UA[1][0].inc = 0;
    UA[1][1].u = &U[1];
    UA[1][1].inc = 1;
    int p1 = g_nes > 1 ? 1 + rnd(g_nes - 1) : 0; /* a running unit can only be observed from another stream */
    if (g_nes < 2)
        return;
    if (sub == 0) {
        U[1].kind = rnd(3) == 0 ? U_TASK : U_ULT;
        EV("\"e\":\"Create\",\"by\":0,\"u\":1,\"kind\":%d,\"named\":1,\"arg\":10,\"pool\":%d", U[1].kind, p1);
        if (U[1].kind == U_ULT)
            CHK(ABT_thread_create(g_pool[p1][0], cm_late, &UA[1][0], ABT_THREAD_ATTR_NULL, &g_cm_j));
        else
            CHK(ABT_task_create(g_pool[p1][0], cm_late, &UA[1][0], &g_cm_j));
        EV("\"e\":\"CreateRet\",\"by\":0,\"u\":1");
        while (!g_cm_ready)
            pause_any(0);
        EV("\"e\":\"Cancel\",\"by\":0,\"u\":1");
        CHK(ABT_thread_cancel(g_cm_j));
        EV("\"e\":\"CancelRet\",\"by\":0,\"u\":1");
        g_cm_cancelled = 1;
        EV("\"e\":\"JoinCall\",\"by\":0,\"u\":1");
        CHK(ABT_thread_join(g_cm_j));
        EV("\"e\":\"JoinRet\",\"by\":0,\"u\":1,\"st\":%d,\"tok\":%d", state_of(g_cm_j), U[1].token);
        U[1].token = 0;
        EV("\"e\":\"Revive\",\"by\":0,\"u\":1,\"arg\":11,\"pool\":%d", p1);
        if (U[1].kind == U_ULT)
            CHK(ABT_thread_revive(g_pool[p1][0], cm_late, &UA[1][1], &g_cm_j));
        else
            CHK(ABT_task_revive(g_pool[p1][0], cm_late, &UA[1][1], &g_cm_j));
        EV("\"e\":\"ReviveRet\",\"by\":0,\"u\":1");
        EV("\"e\":\"FreeCall\",\"by\":0,\"u\":1");
        CHK(ABT_thread_free(&g_cm_j));
        EV("\"e\":\"FreeRet\",\"by\":0,\"u\":1,\"null\":1,\"tok\":%d", U[1].token);
    } else {
        int p2 = rnd(g_nes);
        EV("\"e\":\"Create\",\"by\":0,\"u\":2,\"kind\":0,\"named\":1,\"arg\":20,\"pool\":%d", p2);
        CHK(ABT_thread_create(g_pool[p2][0], cm_target, NULL, ABT_THREAD_ATTR_NULL, &g_cm_t));
        EV("\"e\":\"CreateRet\",\"by\":0,\"u\":2");
        EV("\"e\":\"Create\",\"by\":0,\"u\":1,\"kind\":0,\"named\":1,\"arg\":10,\"pool\":%d", p1);
        CHK(ABT_thread_create(g_pool[p1][0], cm_joiner, NULL, ABT_THREAD_ATTR_NULL, &g_cm_j));
        EV("\"e\":\"CreateRet\",\"by\":0,\"u\":1");
        while (!g_cm_ready)
            pause_any(0);
        EV("\"e\":\"Cancel\",\"by\":0,\"u\":1");
        CHK(ABT_thread_cancel(g_cm_j));
        EV("\"e\":\"CancelRet\",\"by\":0,\"u\":1");
        g_cm_cancelled = 1;
        /* let the joiner reach its join, then let the target finish */
        for (int d = 10 + rnd(60); d > 0; d--)
            pause_any(0);
        g_cm_release = 1;
        /* the target must terminate and be joinable although its (cancelled) joiner
         * never completes its join; it is freed only after the joiner is gone */
        EV("\"e\":\"JoinCall\",\"by\":0,\"u\":2");
        CHK(ABT_thread_join(g_cm_t));
        EV("\"e\":\"JoinRet\",\"by\":0,\"u\":2,\"st\":%d,\"tok\":%d", state_of(g_cm_t), U[2].token);
        EV("\"e\":\"FreeCall\",\"by\":0,\"u\":1");
        CHK(ABT_thread_free(&g_cm_j));
        EV("\"e\":\"FreeRet\",\"by\":0,\"u\":1,\"null\":1,\"tok\":%d", U[1].token);
        EV("\"e\":\"FreeCall\",\"by\":0,\"u\":2");
        CHK(ABT_thread_free(&g_cm_t));
        EV("\"e\":\"FreeRet\",\"by\":0,\"u\":2,\"null\":1,\"tok\":%d", U[2].token);
    }
}

/* ---------------------------------------------------------------- configuration */
static void setup_streams(void)
{
    static const ABT_sched_predef pre[] = { ABT_SCHED_DEFAULT, ABT_SCHED_BASIC, ABT_SCHED_BASIC_WAIT, ABT_SCHED_PRIO,
                                            ABT_SCHED_RANDWS, ABT_SCHED_BASIC };
    g_shared = 0;
    CHK(ABT_xstream_self(&g_xs[0]));
    CHK(ABT_xstream_get_main_pools(g_xs[0], 1, &g_pool[0][0]));
    g_npools[0] = 1;
    if (g_cfg == 4) {
        /* work stealing: every scheduler sees every pool */
        ABT_pool all[MAXES];
        all[0] = g_pool[0][0];
        for (int e = 1; e < g_nes; e++)
            CHK(ABT_pool_create_basic(ABT_POOL_RANDWS, ABT_POOL_ACCESS_MPMC, ABT_TRUE, &all[e]));
        for (int e = 1; e < g_nes; e++) {
            ABT_pool mine[MAXES];
            for (int k = 0; k < g_nes - 1; k++)
                mine[k] = all[1 + (e - 1 + k) % (g_nes - 1)];
            CHK(ABT_sched_create_basic(ABT_SCHED_RANDWS, g_nes - 1, mine, ABT_SCHED_CONFIG_NULL, &g_sched[e]));
            CHK(ABT_xstream_create(g_sched[e], &g_xs[e]));
            g_pool[e][0] = all[e];
        }
        g_shared = g_nes > 2;
        return;
    }
    for (int e = 1; e < g_nes; e++) {
        if (g_cfg == 0) {
            CHK(ABT_xstream_create(ABT_SCHED_NULL, &g_xs[e]));
        } else if (g_cfg == 5) {
            /* FIFO_WAIT pool with the waiting scheduler */
            ABT_pool p;
            CHK(ABT_pool_create_basic(ABT_POOL_FIFO_WAIT, ABT_POOL_ACCESS_MPMC, ABT_TRUE, &p));
            CHK(ABT_sched_create_basic(ABT_SCHED_BASIC_WAIT, 1, &p, ABT_SCHED_CONFIG_NULL, &g_sched[e]));
            CHK(ABT_xstream_create(g_sched[e], &g_xs[e]));
        } else if (g_cfg == 3) {
            ABT_pool ps[2];
            CHK(ABT_pool_create_basic(ABT_POOL_FIFO, ABT_POOL_ACCESS_MPSC, ABT_TRUE, &ps[0]));
            CHK(ABT_pool_create_basic(ABT_POOL_FIFO, ABT_POOL_ACCESS_MPMC, ABT_TRUE, &ps[1]));
            CHK(ABT_sched_create_basic(ABT_SCHED_PRIO, 2, ps, ABT_SCHED_CONFIG_NULL, &g_sched[e]));
            CHK(ABT_xstream_create(g_sched[e], &g_xs[e]));
        } else {
            CHK(ABT_xstream_create_basic(pre[g_cfg], 1, NULL, ABT_SCHED_CONFIG_NULL, &g_xs[e]));
        }
        CHK(ABT_xstream_get_main_pools(g_xs[e], 1, &g_pool[e][0]));
        g_npools[e] = 1;
    }
}

/* ---------------------------------------------------------------- generator */
static void add_op(unit_t *u, int op, int k)
{
    if (u->ns < MAXS) {
        u->s[u->ns].op = op;
        u->s[u->ns].k = k;
        u->ns++;
    }
}
static void generate(void)
{
    memset(U, 0, sizeof U);
    g_nu = 3 + rnd(MAXU - 5);
    g_have_ext = rnd(3) == 0;
    g_ext_done = 0;
    g_live = 0;
    g_joining = 0;
    g_jm = (int)opt_long("jm", 0);
    if (g_jm) {
        /* one ULT creates tasklets and ULTs that take a while, all over the streams, and then
         * waits for all of them with one ABT_thread_join_many / free_many call; another ULT
         * keeps yielding so that the streams the joiner leaves are not idle */
        g_nu = 4 + rnd(5);
        g_have_ext = 0;
        for (int i = 1; i <= g_nu; i++) {
            unit_t *u = &U[i];
            u->id = i;
            u->named = 1;
            u->pool = rnd(g_nes);
            u->kind = U_ULT;
        }
        add_op(&U[2], OP_YIELD, 10 + rnd(30));
        for (int i = 3; i <= g_nu; i++) {
            unit_t *u = &U[i];
            u->kind = rnd(2) ? U_TASK : U_ULT;
            u->creator = 1;
            u->reaper = 1;
            add_op(&U[1], OP_CREATE, i);
            if (u->kind == U_ULT)
                add_op(u, OP_YIELD, 2 + rnd(8));
            else
                u->spin = 10 + rnd(80);
        }
        return;
    }
    int special_budget = 2;
    for (int i = 1; i <= g_nu; i++) {
        unit_t *u = &U[i];
        u->id = i;
        u->kind = rnd(4) == 0 ? U_TASK : U_ULT;
        u->named = rnd(3) != 0;
        u->pool = rnd(g_nes);
        u->stack = rnd(4) == 0 ? 1 + rnd(2) : 0;
        /* creator: main, ext, or an earlier unit that can still take an op */
        int cr = 0;
        int r = rnd(10);
        if (r < 2 && g_have_ext)
            cr = -1;
        else if (r < 6 && i > 1) {
            int c = 1 + rnd(i - 1);
            if (U[c].ns < MAXS - 2 && !(U[c].ns && (U[c].s[U[c].ns - 1].op == OP_EXIT || U[c].s[U[c].ns - 1].op == OP_LOOP ||
                                                     U[c].s[U[c].ns - 1].op == OP_SUSPLOOP)))
                cr = c;
        }
        u->creator = cr;
        if (cr > 0) {
            /* a tasklet must not block: its named children are reaped by main */
            add_op(&U[cr], OP_CREATE, i);
            u->reaper = (U[cr].kind == U_TASK) ? 0 : cr;
            /* a tasklet that joins a unit of its own stream would stop the stream */
        } else {
            u->reaper = cr;
        }
        if (!u->named)
            u->reaper = -2;
        if (u->kind == U_ULT) {
            int n = rnd(3);
            for (int k = 0; k < n; k++) {
                int c = rnd(6);
                if (c <= 2)
                    add_op(u, OP_YIELD, 1 + rnd(2));
                else if (c == 3)
                    add_op(u, OP_POINT, 0);
                else if (c == 4 && u->named && special_budget > 0 && !u->want_resume) {
                    u->want_resume = -1; /* marker: at most one suspension per unit */
                    add_op(u, OP_SUSPEND, 0);
                    special_budget--;
                }
            }
        }
        u->revive = u->named && u->reaper == 0 && rnd(3) == 0;
        u->want_resume = 0;
    }
    /* units created and reaped by the external thread may be resumed only after
     * the primary ULT has asked their stream to join (C06: blocked at the time
     * of the call and resumed later) */
    for (int i = 1; i <= g_nu; i++) {
        unit_t *u = &U[i];
        int susp = 0, creates = 0;
        for (int k = 0; k < u->ns; k++) {
            susp |= u->s[k].op == OP_SUSPEND;
            creates |= u->s[k].op == OP_CREATE;
        }
        if (susp && !creates && u->creator == -1 && u->named && u->reaper == -1 && g_cfg != 4 && rnd(3))
            u->late = 1;
    }
    /* terminal behaviours, decided after the forest is known (a unit that
     * never returns cannot create or reap children after that point) */
    for (int i = 1; i <= g_nu; i++) {
        unit_t *u = &U[i];
        if (u->kind != U_ULT)
            continue;
        int r = rnd(12);
        if (r == 0)
            add_op(u, OP_EXIT, rnd(2));
        else if (r == 1 && u->named && !u->revive) {
            int has_child = 0;
            for (int j = 1; j <= g_nu; j++)
                has_child |= (U[j].reaper == i);
            if (!has_child) {
                add_op(u, OP_LOOP, 0);
                u->cancel_me = (g_have_ext && rnd(2)) ? 2 : 1;
            }
        } else if (r == 2 && u->named && !u->revive) {
            int has_child = 0;
            for (int j = 1; j <= g_nu; j++)
                has_child |= (U[j].reaper == i);
            if (!has_child) {
                add_op(u, OP_SUSPLOOP, 0);
                u->cancel_me = (g_have_ext && rnd(2)) ? 2 : 1;
            }
        }
    }
}

static void scenario(const char *name, uint64_t seed)
{
    (void)name;
    (void)seed;
    g_nes = 1 + (int)opt_long("nes", 1);
    g_cfg = (int)opt_long("cfg", 0);
    if (g_cfg == 4 && g_nes < 2)
        g_cfg = 0;
    char fr[16];
    snprintf(fr, sizeof fr, "%ld", opt_long("freq", 1 + rnd(4)));
    setenv("ABT_SCHED_EVENT_FREQ", fr, 1);
    setenv("ABT_THREAD_STACKSIZE", "65536", 1);
    /* every block obtained from the system allocator is returned exactly once: the
     * ledger reports a free of an unknown pointer at once and what is left after ABT_finalize */
    abtv_ledger_reset();
    abtv_ledger_track(1);
    CHK(ABT_init(0, NULL));
    ABT_xstream dead = ABT_XSTREAM_NULL;
    if (opt_long("dead", 0)) {
        /* created first, so its rank is lower than that of every running secondary stream */
        CHK(ABT_xstream_create(ABT_SCHED_NULL, &dead));
        CHK(ABT_xstream_join(dead));
    }
    setup_streams();
    if (!strcmp(name, "migrate") || !strcmp(name, "migrace") || !strcmp(name, "switch") || !strcmp(name, "xjoin") ||
        !strcmp(name, "cancelnew") || !strcmp(name, "cancelmix") || !strcmp(name, "ryt") || !strcmp(name, "replace") || !strcmp(name, "ytrace") || !strcmp(name, "stacked") || !strcmp(name, "privjoin") || !strcmp(name, "rejoin")) {
        if (!strcmp(name, "migrace"))
            scn_migrace();
        else if (!strcmp(name, "stacked"))
            scn_stacked();
        else if (!strcmp(name, "privjoin"))
            scn_privjoin();
        else if (!strcmp(name, "rejoin"))
            scn_rejoin();
        else if (!strcmp(name, "ytrace"))
            scn_ytrace();
        else if (!strcmp(name, "replace"))
            scn_replace();
        else if (!strcmp(name, "ryt"))
            scn_ryt();
        else if (!strcmp(name, "xjoin"))
            scn_xjoin();
        else if (!strcmp(name, "cancelnew"))
            scn_cancelnew();
        else if (!strcmp(name, "cancelmix"))
            scn_cancelmix();
        else if (!strcmp(name, "switch"))
            scn_switch();
        else
            scn_migrate();
        for (int e = 1; e < g_nes; e++) {
            if (e == 1 && (!strcmp(name, "xjoin") || !strcmp(name, "stacked") || !strcmp(name, "rejoin")))
                continue;
            EV("\"e\":\"XJoinCall\",\"s\":%d", e);
            CHK(ABT_xstream_join(g_xs[e]));
            EV("\"e\":\"XJoinRet\",\"s\":%d,\"us\":[],\"term\":1", e);
        }
        sample_blocked("afterjoin");
        for (int e = 1; e < g_nes; e++)
            CHK(ABT_xstream_free(&g_xs[e]));
        if (dead != ABT_XSTREAM_NULL)
            CHK(ABT_xstream_free(&dead));
        EV("\"e\":\"FinalizeCall\"");
        CHK(ABT_finalize());
        EV("\"e\":\"FinalizeRet\",\"us\":[]");
        for (int i = 0; i <= SW_PRIMARY; i++) {
            free(g_sw_ustack[i]);
            g_sw_ustack[i] = NULL;
        }
        EV("\"e\":\"Ledger\",\"live\":%ld,\"errors\":%ld", abtv_ledger_live(), abtv_ledger_errors());
        abtv_ledger_track(0);
        return;
    }
    generate();
    EV("\"e\":\"Exec\",\"nu\":%d,\"nes\":%d,\"cfg\":%d,\"ext\":%d", g_nu, g_nes, g_cfg, g_have_ext);
    if (g_have_ext)
        pthread_create(&g_ext, NULL, ext_main, NULL);
    for (int i = 1; i <= g_nu; i++)
        if (U[i].creator == 0)
            do_create(0, &U[i]);
    serve(0);
    reap_children(0);
    /* The streams are joined while units may still be running, blocked or
     * suspended (the external thread resumes and reaps concurrently); only
     * creations into their pools must be over. */
    for (;;) {
        int all = 1;
        for (int i = 1; i <= g_nu; i++)
            all &= U[i].created;
        /* pools shared by several schedulers: blocked units are not counted by
         * the stop test (documented), so everything must be over before joining */
        if (all && (!g_shared || g_live == 0))
            break;
        pause_any(0);
    }
    g_joining = 1;
    /* now and then hold a scheduler back between its reads of "pool empty" and the blocked counter */
    if (g_nes > 1 && rnd(3) == 0)
        abtv_watch_load(&ABTI_pool_get_ptr(g_pool[1 + rnd(g_nes - 1)][0])->num_blocked, 40 + rnd(300), 200);
    for (int e = 1; e < g_nes; e++) {
        /* units whose pool only stream e schedules */
        char buf[128];
        int p = 0;
        buf[0] = 0;
        if (!g_shared)
            for (int i = 1; i <= g_nu; i++)
                if (U[i].pool % g_nes == e && U[i].created)
                    p += sprintf(buf + p, "%s%d", p ? "," : "", i);
        EV("\"e\":\"XJoinCall\",\"s\":%d", e);
        CHK(ABT_xstream_join(g_xs[e]));
        ABT_xstream_state xst;
        CHK(ABT_xstream_get_state(g_xs[e], &xst));
        EV("\"e\":\"XJoinRet\",\"s\":%d,\"us\":[%s],\"term\":%d", e, buf, xst == ABT_XSTREAM_STATE_TERMINATED);
    }
    sample_blocked("afterjoin");
    if (g_have_ext) {
        /* the external thread may still need the primary stream */
        while (!g_ext_done)
            pause_any(0);
        pthread_join(g_ext, NULL);
    }
    for (int e = 1; e < g_nes; e++) {
        CHK(ABT_xstream_free(&g_xs[e]));
    }
    {
        char buf[128];
        int p = 0;
        buf[0] = 0;
        for (int i = 1; i <= g_nu; i++)
            if (U[i].created)
                p += sprintf(buf + p, "%s%d", p ? "," : "", i);
        EV("\"e\":\"FinalizeCall\"");
        CHK(ABT_finalize());
        EV("\"e\":\"FinalizeRet\",\"us\":[%s]", buf);
        EV("\"e\":\"Ledger\",\"live\":%ld,\"errors\":%ld", abtv_ledger_live(), abtv_ledger_errors());
        abtv_ledger_track(0);
    }
}
