/* C16 driver: work-unit-local storage.
 *   options: tsize=1|2|4|8 (ABT_KEY_TABLE_SIZE)  nes=0..2
 * Units (named/unnamed ULTs and tasklets, and the primary ULT, id 9) set and
 * get their own keys; the primary ULT sets and gets odd keys of named ULTs
 * through ABT_thread_set/get_specific while the owner runs.  Every key of a
 * unit has a single writer.  Destructor calls are logged.  Judged by
 * spec/hist/H_Key.tla. */
#include "drv.h"

#define MAXK 12
#define MAXU 4
#define PRIMARY 9
static ABT_key K[MAXK];
static int g_nk, g_nes, g_nu;
static ABT_xstream g_xs[4];
static ABT_pool g_pool[4];
typedef struct {
    int id, kind, named, es, nops;
    ABT_thread th;
    volatile int started, release, ended;
    int seq;
} unit_t;
static unit_t U[MAXU + 1];

static void dtor(void *v) { EV("\"e\":\"Dtor\",\"v\":%d", (int)(intptr_t)v); }
static int mkval(int u, int k, int *seq) { return ((u * 16 + k) * 16 + (++*seq % 16)) + 1; }

static void own_ops(int a, int u, int nops, int *seq, int parity_all)
{
    for (int i = 0; i < nops; i++) {
        int k = rnd(g_nk);
        if (!parity_all)
            k &= ~1; /* the owner writes even keys only; odd keys belong to the foreign writer */
        if (k >= g_nk)
            k = 0;
        int how = rnd(2);
        if (rnd(5) < 3) {
            int v = rnd(6) == 0 ? 0 : mkval(u, k, seq);
            EV("\"e\":\"KCall\",\"w\":%d,\"op\":\"set\",\"u\":%d,\"k\":%d,\"v\":%d", a, u, k, v);
            int r = how ? ABT_key_set(K[k], (void *)(intptr_t)v) : ABT_self_set_specific(K[k], (void *)(intptr_t)v);
            EV("\"e\":\"KRet\",\"w\":%d,\"op\":\"set\",\"u\":%d,\"k\":%d,\"v\":0,\"ret\":%d", a, u, k, r != ABT_SUCCESS);
        } else {
            int kk = rnd(g_nk);
            void *p = (void *)(intptr_t)-1;
            EV("\"e\":\"KCall\",\"w\":%d,\"op\":\"get\",\"u\":%d,\"k\":%d,\"v\":0", a, u, kk);
            int r = how ? ABT_key_get(K[kk], &p) : ABT_self_get_specific(K[kk], &p);
            EV("\"e\":\"KRet\",\"w\":%d,\"op\":\"get\",\"u\":%d,\"k\":%d,\"v\":%d,\"ret\":%d", a, u, kk, (int)(intptr_t)p, r != ABT_SUCCESS);
        }
        if (U[u <= MAXU ? u : 0].kind == 0 && u <= MAXU && rnd(3) == 0)
            ABT_thread_yield();
    }
}
static void mig_cb_unused(ABT_thread t, void *a)
{
    (void)t;
    (void)a;
}
static void body(void *arg)
{
    unit_t *u = (unit_t *)arg;
    u->started = 1;
    own_ops(u->id, u->id, u->nops, &u->seq, !(u->named && u->kind == 0));
    if (u->named && u->kind == 0) {
        /* stay alive while the primary ULT works on our odd keys */
        while (!u->release) {
            ABT_thread_yield();
            abtv_idle_hint();
        }
        own_ops(u->id, u->id, 2, &u->seq, 0);
    }
    EV("\"e\":\"UnitEnd\",\"u\":%d", u->id);
    u->ended = 1;
}
static void foreign_ops(unit_t *u)
{
    int seq = 8;
    int n = 1 + rnd(5);
    for (int i = 0; i < n; i++) {
        int k = rnd(g_nk) | 1;
        if (k >= g_nk)
            k = 1 < g_nk ? 1 : 0;
        if (!(k & 1))
            break; /* a single key: nothing for the foreign writer */
        if (rnd(2)) {
            int v = rnd(6) == 0 ? 0 : mkval(u->id, k, &seq);
            EV("\"e\":\"KCall\",\"w\":%d,\"op\":\"set\",\"u\":%d,\"k\":%d,\"v\":%d", PRIMARY, u->id, k, v);
            int r = ABT_thread_set_specific(u->th, K[k], (void *)(intptr_t)v);
            EV("\"e\":\"KRet\",\"w\":%d,\"op\":\"set\",\"u\":%d,\"k\":%d,\"v\":0,\"ret\":%d", PRIMARY, u->id, k, r != ABT_SUCCESS);
        } else {
            int kk = rnd(g_nk);
            void *p = (void *)(intptr_t)-1;
            EV("\"e\":\"KCall\",\"w\":%d,\"op\":\"get\",\"u\":%d,\"k\":%d,\"v\":0", PRIMARY, u->id, kk);
            int r = ABT_thread_get_specific(u->th, K[kk], &p);
            EV("\"e\":\"KRet\",\"w\":%d,\"op\":\"get\",\"u\":%d,\"k\":%d,\"v\":%d,\"ret\":%d", PRIMARY, u->id, kk, (int)(intptr_t)p, r != ABT_SUCCESS);
        }
        if (rnd(2))
            ABT_thread_yield();
    }
}
static int g_kd[64];
static struct kc { int first, step; } g_kc[4];
static void *key_creator(void *p)
{
    struct kc *c = (struct kc *)p;
    for (int k = c->first; k < g_nk; k += c->step)
        CHK(ABT_key_create(g_kd[k] ? dtor : NULL, &K[k]));
    return NULL;
}
static void scenario(const char *name, uint64_t seed)
{
    (void)name;
    (void)seed;
    int tsize = (int)opt_long("tsize", 4);
    g_nes = 1 + (int)opt_long("nes", 1);
    char b[16];
    snprintf(b, sizeof b, "%d", tsize);
    setenv("ABT_KEY_TABLE_SIZE", b, 1);
    setenv("ABT_THREAD_STACKSIZE", "65536", 1);
    CHK(ABT_init(0, NULL));
    CHK(ABT_xstream_self(&g_xs[0]));
    CHK(ABT_xstream_get_main_pools(g_xs[0], 1, &g_pool[0]));
    for (int e = 1; e < g_nes; e++) {
        CHK(ABT_xstream_create(ABT_SCHED_NULL, &g_xs[e]));
        CHK(ABT_xstream_get_main_pools(g_xs[e], 1, &g_pool[e]));
    }
    g_nk = 3 * tsize > MAXK ? MAXK : 3 * tsize;
    if (g_nk < 3)
        g_nk = 3;
    {
        /* the keys are created by the primary ULT or, at the same time, by several external
         * threads: every key is a key of its own whoever created it when */
        int nc = rnd(3) ? 0 : 2 + rnd(2);
        for (int k = 0; k < g_nk; k++)
            g_kd[k] = rnd(4) != 0;
        if (nc) {
            pthread_t th[4];
            for (int i = 0; i < nc; i++) {
                g_kc[i].first = i;
                g_kc[i].step = nc;
                pthread_create(&th[i], NULL, key_creator, &g_kc[i]);
            }
            for (int i = 0; i < nc; i++)
                pthread_join(th[i], NULL);
        } else {
            for (int k = 0; k < g_nk; k++)
                CHK(ABT_key_create(g_kd[k] ? dtor : NULL, &K[k]));
        }
        for (int k = 0; k < g_nk; k++)
            EV("\"e\":\"KeyNew\",\"k\":%d,\"d\":%d", k, g_kd[k]);
    }
    g_nu = 1 + rnd(MAXU);
    memset(U, 0, sizeof U);
    int pseq = 0;
    for (int i = 1; i <= g_nu; i++) {
        unit_t *u = &U[i];
        u->id = i;
        u->kind = rnd(4) == 0;
        u->named = rnd(3) != 0;
        u->es = rnd(g_nes);
        u->nops = 2 + rnd(8);
        EV("\"e\":\"UnitNew\",\"u\":%d,\"kind\":%d,\"named\":%d", i, u->kind, u->named);
        if (u->kind == 0) {
            /* the library keeps its own data (migration callback) in the same key table */
            ABT_thread_attr attr;
            CHK(ABT_thread_attr_create(&attr));
            if (rnd(2))
                CHK(ABT_thread_attr_set_callback(attr, mig_cb_unused, u));
            CHK(ABT_thread_create(g_pool[u->es], body, u, attr, u->named ? &u->th : NULL));
            CHK(ABT_thread_attr_free(&attr));
            if (u->named && rnd(2))
                CHK(ABT_thread_set_callback(u->th, mig_cb_unused, u));
        } else
            CHK(ABT_task_create(g_pool[u->es], body, u, u->named ? &u->th : NULL));
    }
    /* the primary ULT has storage of its own */
    own_ops(PRIMARY, PRIMARY, 3 + rnd(5), &pseq, 1);
    for (int i = 1; i <= g_nu; i++) {
        unit_t *u = &U[i];
        if (u->named && u->kind == 0) {
            if (rnd(3))
                foreign_ops(u);
            u->release = 1;
        }
    }
    own_ops(PRIMARY, PRIMARY, rnd(4), &pseq, 1);
    for (int i = 1; i <= g_nu; i++) {
        unit_t *u = &U[i];
        if (u->named) {
            EV("\"e\":\"KFreeCall\",\"u\":%d", i);
            CHK(ABT_thread_free(&u->th));
            EV("\"e\":\"KFreeRet\",\"u\":%d", i);
        }
    }
    for (int e = 1; e < g_nes; e++) {
        CHK(ABT_xstream_join(g_xs[e]));
        CHK(ABT_xstream_free(&g_xs[e]));
    }
    /* unnamed units on the primary stream finish at the latest in ABT_finalize */
    EV("\"e\":\"KFinalizeCall\",\"u\":%d", PRIMARY);
    for (int k = 0; k < g_nk; k++)
        if (rnd(4) == 0 && 0)
            CHK(ABT_key_free(&K[k]));
    CHK(ABT_finalize());
    EV("\"e\":\"KFinalizeRet\"");
}
