/* C17 driver: ranks and the life cycle of execution streams.
 *   scenario "ranks":    a random sequence of create / create_with_rank / set_rank /
 *                        join / revive / free / set_main_sched on up to 6 secondary
 *                        streams; every result is logged and work is pushed to
 *                        running streams to see that they are alive.
 *   scenario "rankconc": three external threads create and free streams concurrently.
 * Judged by spec/data/RankListTrace.tla (stream ids 1..6, primary = 7). */
#include "drv.h"

#define NS 6
#define PRIMARY 7
static ABT_xstream X[NS + 1];
static int st[NS + 1]; /* 0 none, 1 running, 2 terminated */
static volatile int g_work_rank, g_work_done;

static void workfn(void *a)
{
    (void)a;
    int r = -1;
    ABT_xstream_self_rank(&r);
    g_work_rank = r;
    g_work_done = 1;
}
static void do_work(int s, ABT_xstream xs)
{
    ABT_pool p;
    ABT_thread t;
    g_work_done = 0;
    g_work_rank = -2;
    CHK(ABT_xstream_get_main_pools(xs, 1, &p));
    CHK(ABT_thread_create(p, workfn, NULL, ABT_THREAD_ATTR_NULL, &t));
    CHK(ABT_thread_free(&t));
    EV("\"e\":\"XWork\",\"s\":%d,\"rank\":%d,\"done\":%d", s, g_work_rank, g_work_done);
}
static void log_num(void)
{
    int n = -1;
    CHK(ABT_xstream_get_num(&n));
    EV("\"e\":\"XNum\",\"n\":%d", n);
}
static void log_rank(int s, ABT_xstream xs)
{
    int r = -1;
    CHK(ABT_xstream_get_rank(xs, &r));
    EV("\"e\":\"XRank\",\"s\":%d,\"rank\":%d", s, r);
}
static void scn_ranks(void)
{
    memset(st, 0, sizeof st);
    ABT_xstream self;
    CHK(ABT_xstream_self(&self));
    int nops = 6 + rnd(30);
    for (int i = 0; i < nops; i++) {
        int s = 1 + rnd(NS);
        int op = rnd(12);
        if (st[s] == 0) {
            /* create */
            int how = rnd(3), req = -1, r;
            if (how == 2)
                req = rnd(9);
            if (how == 0)
                r = ABT_xstream_create(ABT_SCHED_NULL, &X[s]);
            else if (how == 1)
                r = ABT_xstream_create_basic(rnd(2) ? ABT_SCHED_BASIC : ABT_SCHED_DEFAULT, 1, (ABT_pool[1]){ ABT_POOL_NULL }, ABT_SCHED_CONFIG_NULL, &X[s]);
            else
                r = ABT_xstream_create_with_rank(ABT_SCHED_NULL, req, &X[s]);
            int rank = -1;
            if (r == ABT_SUCCESS) {
                st[s] = 1;
                CHK(ABT_xstream_get_rank(X[s], &rank));
            } else if (r != ABT_ERR_INV_XSTREAM_RANK) {
                CHK(r);
            }
            EV("\"e\":\"XCreate\",\"s\":%d,\"req\":%d,\"how\":%d,\"ret\":%d,\"rank\":%d", s, req, how, r != ABT_SUCCESS, rank);
        } else if (op <= 2) {
            int r0 = rnd(9);
            int r = ABT_xstream_set_rank(X[s], r0);
            if (r != ABT_SUCCESS && r != ABT_ERR_INV_XSTREAM_RANK)
                CHK(r);
            EV("\"e\":\"XSetRank\",\"s\":%d,\"r\":%d,\"ret\":%d", s, r0, r != ABT_SUCCESS);
        } else if (op == 3 && st[s] == 1) {
            int r = ABT_xstream_join(X[s]);
            ABT_xstream_state xs;
            CHK(ABT_xstream_get_state(X[s], &xs));
            EV("\"e\":\"XJoin\",\"s\":%d,\"ret\":%d,\"term\":%d", s, r != ABT_SUCCESS, xs == ABT_XSTREAM_STATE_TERMINATED);
            if (r == ABT_SUCCESS)
                st[s] = 2;
        } else if (op == 4 && st[s] == 2) {
            if (rnd(3) == 0) {
                /* replace the main scheduler of the joined stream before reviving it */
                int r = ABT_xstream_set_main_sched_basic(X[s], rnd(2) ? ABT_SCHED_BASIC : ABT_SCHED_PRIO, 1, NULL);
                EV("\"e\":\"XSched\",\"s\":%d,\"ret\":%d", s, r != ABT_SUCCESS);
            }
            int r = ABT_xstream_revive(X[s]);
            EV("\"e\":\"XRevive\",\"s\":%d,\"ret\":%d", s, r != ABT_SUCCESS);
            if (r == ABT_SUCCESS)
                st[s] = 1;
        } else if (op == 5) {
            if (st[s] == 1 && rnd(2)) {
                /* ABT_xstream_free joins a running stream itself */
            }
            int r = ABT_xstream_free(&X[s]);
            EV("\"e\":\"XFree\",\"s\":%d,\"ret\":%d", s, r != ABT_SUCCESS);
            if (r == ABT_SUCCESS)
                st[s] = 0;
        } else if (op == 6) {
            log_num();
        } else if (op == 7) {
            log_rank(s, X[s]);
        } else if (op == 8 && st[s] == 1) {
            do_work(s, X[s]);
        } else if (op == 9) {
            /* the calling (primary) stream replaces its own main scheduler and keeps running */
            int r = rnd(2) ? ABT_xstream_set_main_sched_basic(self, rnd(2) ? ABT_SCHED_BASIC : ABT_SCHED_DEFAULT, 1, NULL)
                           : ABT_xstream_set_main_sched(self, ABT_SCHED_NULL);
            EV("\"e\":\"XSched\",\"s\":%d,\"ret\":%d", PRIMARY, r != ABT_SUCCESS);
            do_work(PRIMARY, self);
        } else if (op == 10) {
            int r = ABT_xstream_set_rank(self, 1 + rnd(5));
            EV("\"e\":\"XSetRank\",\"s\":%d,\"r\":%d,\"ret\":%d", PRIMARY, 1, r != ABT_SUCCESS);
        } else {
            log_rank(PRIMARY, self);
        }
    }
    log_num();
    for (int s = 1; s <= NS; s++)
        if (st[s]) {
            if (st[s] == 1)
                do_work(s, X[s]);
            int r = ABT_xstream_free(&X[s]);
            EV("\"e\":\"XFree\",\"s\":%d,\"ret\":%d", s, r != ABT_SUCCESS);
        }
    log_num();
}

static void *conc_main(void *p)
{
    int t = (int)(intptr_t)p;
    for (int k = 0; k < 3; k++) {
        int s = (t - 1) * 2 + 1 + (k & 1);
        ABT_xstream xs;
        EV("\"e\":\"XCall\",\"t\":%d,\"op\":\"create\",\"s\":%d", t, s);
        CHK(ABT_xstream_create(ABT_SCHED_NULL, &xs));
        int rank = -1;
        CHK(ABT_xstream_get_rank(xs, &rank));
        EV("\"e\":\"XRet\",\"t\":%d,\"op\":\"create\",\"s\":%d,\"rank\":%d", t, s, rank);
        abtv_point();
        EV("\"e\":\"XCall\",\"t\":%d,\"op\":\"free\",\"s\":%d", t, s);
        CHK(ABT_xstream_free(&xs));
        EV("\"e\":\"XRet\",\"t\":%d,\"op\":\"free\",\"s\":%d,\"rank\":-1", t, s);
    }
    return NULL;
}
static void scn_conc(void)
{
    pthread_t th[3];
    for (int i = 0; i < 3; i++)
        pthread_create(&th[i], NULL, conc_main, (void *)(intptr_t)(i + 1));
    for (int i = 0; i < 3; i++)
        pthread_join(th[i], NULL);
    log_num();
}
/* scenario "rankstress" (meant for free-running mode): several external threads
 * create and free streams at full speed; at every quiescent point the number
 * of streams and the smallest unused rank must be what they were */
#define ST_THREADS 8
static pthread_barrier_t g_sb;
static volatile long g_screates, g_sfrees;
static int g_spairs;
static void *stress_fn(void *a)
{
    (void)a;
    pthread_barrier_wait(&g_sb);
    for (int i = 0; i < g_spairs; i++) {
        ABT_xstream x;
        if (ABT_xstream_create(ABT_SCHED_NULL, &x) != ABT_SUCCESS)
            continue;
        __sync_fetch_and_add(&g_screates, 1);
        if (ABT_xstream_join(x) == ABT_SUCCESS && ABT_xstream_free(&x) == ABT_SUCCESS)
            __sync_fetch_and_add(&g_sfrees, 1);
    }
    return NULL;
}
static void scn_stress(void)
{
    int rounds = (int)opt_long("rounds", 6);
    g_spairs = (int)opt_long("pairs", 60);
    for (int r = 0; r < rounds; r++) {
        pthread_t th[ST_THREADS];
        g_screates = g_sfrees = 0;
        pthread_barrier_init(&g_sb, NULL, ST_THREADS);
        for (int t = 0; t < ST_THREADS; t++)
            pthread_create(&th[t], NULL, stress_fn, NULL);
        for (int t = 0; t < ST_THREADS; t++)
            pthread_join(th[t], NULL);
        pthread_barrier_destroy(&g_sb);
        EV("\"e\":\"XStress\",\"creates\":%ld,\"frees\":%ld", g_screates, g_sfrees);
        log_num();
        /* the smallest unused rank is handed out next */
        ABT_xstream x;
        int rk = -1;
        CHK(ABT_xstream_create(ABT_SCHED_NULL, &x));
        CHK(ABT_xstream_get_rank(x, &rk));
        EV("\"e\":\"XCreate\",\"s\":1,\"how\":0,\"req\":-1,\"ret\":0,\"rank\":%d", rk);
        CHK(ABT_xstream_join(x));
        EV("\"e\":\"XJoin\",\"s\":1,\"ret\":0,\"term\":1");
        CHK(ABT_xstream_free(&x));
        EV("\"e\":\"XFree\",\"s\":1,\"ret\":0");
    }
}
/* scenario "cycle" (free-running mode, sequential): the life cycle of a stream is repeatable without
 * anything piling up -- after a warm-up, hundreds of further create / work / join / free cycles do
 * not increase the number of blocks the runtime holds from the system allocator */
static void scn_cycle(void)
{
    int warm = (int)opt_long("warm", 40), n = (int)opt_long("n", 400);
    abtv_ledger_reset();
    abtv_ledger_track(1);
    long l0 = 0, b0 = 0;
    for (int i = 0; i < warm + n; i++) {
        if (i == warm) {
            l0 = abtv_ledger_live();
            b0 = abtv_ledger_bytes();
        }
        ABT_xstream x;
        CHK(ABT_xstream_create(ABT_SCHED_NULL, &x));
        if (i % 3 == 0) {
            ABT_pool p;
            ABT_thread t;
            CHK(ABT_xstream_get_main_pools(x, 1, &p));
            CHK(ABT_thread_create(p, workfn, NULL, ABT_THREAD_ATTR_NULL, &t));
            CHK(ABT_thread_free(&t));
        }
        CHK(ABT_xstream_join(x));
        if (i % 5 == 0) {
            CHK(ABT_xstream_revive(x));
            CHK(ABT_xstream_join(x));
        }
        CHK(ABT_xstream_free(&x));
    }
    EV("\"e\":\"XCycle\",\"n\":%d,\"live0\":%ld,\"live1\":%ld,\"kb0\":%ld,\"kb1\":%ld", n, l0, abtv_ledger_live(), b0 / 1024, abtv_ledger_bytes() / 1024);
    abtv_ledger_track(0);
}
static void scenario(const char *name, uint64_t seed)
{
    (void)seed;
    setenv("ABT_SCHED_EVENT_FREQ", "2", 1);
    CHK(ABT_init(0, NULL));
    if (!strcmp(name, "ranks"))
        scn_ranks();
    else if (!strcmp(name, "cycle"))
        scn_cycle();
    else if (!strcmp(name, "rankstress"))
        scn_stress();
    else
        scn_conc();
    CHK(ABT_finalize());
}
