#!/usr/bin/env python3
"""save_mutant.py <id> <worktree> <mutantdir> <property> <caught_by> <needs...>  -- store a confirmed seeded mutant under /verif/seeded/<id>/"""
import sys, os, shutil, json
sid, wt, m, prop, caught = sys.argv[1:6]
needs = " ".join(sys.argv[6:])
d = os.path.join("/verif/seeded", sid)
os.makedirs(d, exist_ok=True)
src = os.path.join(wt, m)
for f in ("patch.diff", "demo.c", "README.md", "confirm.log"):
    if os.path.exists(os.path.join(src, f)):
        shutil.copy(os.path.join(src, f), os.path.join(d, f))
conf = open(os.path.join(src, "confirm.log")).read() if os.path.exists(os.path.join(src, "confirm.log")) else ""
json.dump({"id": sid, "property": prop, "needs_to_manifest": needs, "origin": "independent sub-agent given only the property text and a scratch worktree",
           "confirmed": conf.strip().splitlines(), "caught_by": caught.split(","),
           "how_run": "tools/try_mutant.sh seeded/%s/patch.diff %s  (git -C /repo apply; ./check <id> --tier quick; git -C /repo checkout -- .)" % (sid, " ".join(caught.split(",")))},
          open(os.path.join(d, "meta.json"), "w"), indent=1)
print("saved", d)
