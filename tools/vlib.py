"""Shared machinery for the /verif checks: building drivers, running them in
parallel, running TLC (model checking and trace validation), evidence and
known-findings handling."""
import hashlib, json, os, re, shutil, subprocess, sys, tempfile, time, glob
from concurrent.futures import ThreadPoolExecutor

VERIF = os.path.dirname(os.path.dirname(os.path.abspath(__file__)))
sys.path.insert(0, os.path.join(VERIF, "tools"))
import build as _build

REPO = os.environ.get("VERIF_REPO", "/repo")
CACHE = os.path.join(VERIF, ".cache")
OUT = os.path.join(VERIF, "out")          # replay artefacts (kept)
JAR = "/opt/veriftools/tla/tla2tools.jar"
CM = None

WRAPS_SERIAL = ["pthread_create", "pthread_join", "pthread_mutex_lock", "pthread_mutex_unlock",
                "pthread_mutex_init", "pthread_mutex_destroy", "pthread_cond_wait",
                "pthread_cond_timedwait", "pthread_cond_signal", "pthread_cond_broadcast", "pthread_cond_init",
                "pthread_barrier_init", "pthread_barrier_wait", "syscall", "clock_gettime",
                "nanosleep", "malloc", "calloc", "realloc", "posix_memalign", "free", "mmap",
                "munmap"]

EXIT_NAMES = {0: "done", 70: "crash", 71: "deadlock", 72: "stuck", 73: "budget", 74: "broken"}


class Broken(Exception):
    pass


def sh(cmd, **kw):
    return subprocess.run(cmd, capture_output=True, text=True, **kw)


def scratch(prefix="abtv"):
    d = os.path.join(CACHE, "scratch")
    os.makedirs(d, exist_ok=True)
    return tempfile.mkdtemp(prefix=prefix + "-", dir=d)


def build_lib(variant="gcc", defines=()):
    os.makedirs(_build.CACHE, exist_ok=True)
    return _build.build(REPO, variant, tuple(defines))


def build_driver(name, variant="gcc", extra_src=(), extra_flags=(), lib_defines=(), wraps=None):
    """Compile harness/drivers/<name>.c + abtv_rt.c against the library built
    from the current /repo tree.  Returns the executable path."""
    libdir = build_lib(variant, lib_defines)
    v = _build.VARIANTS[variant]
    srcs = [os.path.join(VERIF, "harness", "drivers", name + ".c"),
            os.path.join(VERIF, "harness", "abtv_rt.c")] + list(extra_src)
    h = hashlib.sha256()
    for s in srcs + glob.glob(os.path.join(VERIF, "harness", "*.h")) + \
            glob.glob(os.path.join(VERIF, "harness", "drivers", "*.h")):
        h.update(open(s, "rb").read())
    h.update(repr((extra_flags, wraps)).encode())
    exe = os.path.join(libdir, "%s-%s" % (name, h.hexdigest()[:12]))
    if os.path.exists(exe):
        return exe
    w = WRAPS_SERIAL if wraps is None else wraps
    cmd = [v["cc"]] + v["cflags"] + ["-D" + _build.GUARD, "-DHAVE_CONFIG_H",
           "-I" + os.path.join(libdir, "include"), "-I" + os.path.join(REPO, "src", "include"),
           "-I" + os.path.join(REPO, "src"), "-I" + os.path.join(VERIF, "harness"),
           "-I" + os.path.join(VERIF, "harness", "drivers")] + list(extra_flags) + srcs + \
          [os.path.join(libdir, "libabt_verif.a")] + \
          ["-Wl," + ",".join("--wrap=" + x for x in w)] + ["-lpthread", "-lm", "-lrt", "-ldl"]
    tmp = exe + ".tmp%d" % os.getpid()
    r = sh(cmd + ["-o", tmp])
    if r.returncode != 0:
        raise Broken("driver build failed: %s\n%s" % (name, r.stderr[-4000:]))
    os.rename(tmp, exe)
    return exe


def run_driver(exe, args, out_path, mode="serial", env=None, timeout=150):
    e = dict(os.environ)
    e.update({"ABTV_MODE": mode, "ABTV_OUT": out_path,
              "ASAN_OPTIONS": "abort_on_error=1:detect_leaks=0:handle_abort=0:allocator_may_return_null=1",
              "UBSAN_OPTIONS": "halt_on_error=1:abort_on_error=1:print_stacktrace=1"})
    if env:
        e.update(env)
    t0 = time.time()
    try:
        r = subprocess.run(["setarch", "-R", exe] + [str(a) for a in args], env=e,
                           capture_output=True, text=True, timeout=timeout, errors="replace")
        rc, so, se = r.returncode, r.stdout, r.stderr
    except subprocess.TimeoutExpired as ex:
        rc, so, se = -999, (ex.stdout or b"").decode(errors="replace") if isinstance(ex.stdout, bytes) else (ex.stdout or ""), "TIMEOUT"
    return dict(rc=rc, stdout=so, stderr=se, wall=time.time() - t0, out=out_path, args=list(args))


def run_many(jobs, nproc=16):
    """jobs: list of dict(exe,args,out,mode,env,timeout) -> list of results (same order)"""
    with ThreadPoolExecutor(nproc) as ex:
        return list(ex.map(lambda j: run_driver(j["exe"], j["args"], j["out"], j.get("mode", "serial"),
                                                j.get("env"), j.get("timeout", 120)), jobs))


def read_ndjson(path):
    out = []
    if not os.path.exists(path):
        return out
    with open(path, errors="replace") as f:
        for line in f:
            line = line.strip()
            if not line:
                continue
            try:
                out.append(json.loads(line))
            except Exception:
                out.append({"e": "Garbage", "raw": line[:200]})
    return out


def split_runs(events):
    """Split an event list into runs (Reset ... End)."""
    runs, cur = [], None
    for ev in events:
        if ev.get("e") == "Reset":
            if cur is not None:
                runs.append(cur)
            cur = [ev]
        elif cur is not None:
            cur.append(ev)
    if cur is not None:
        runs.append(cur)
    return runs


def run_verdict(run):
    last = run[-1]
    if last.get("e") == "End":
        return last.get("why", "?")
    return "truncated"


# --------------------------------------------------------------------------- TLC
def tlc(module_path, cfg_path, workers=8, timeout=600, env=None, simulate=None, depth=None,
        dfs=False, xmx="8g", extra=(), coverage=False, deadlock=None):
    """Run TLC; returns dict(rc, out, states, distinct, violated, ok, wall, inv, coverage)"""
    md = scratch("tlc")
    e = dict(os.environ)
    opts = "-Xmx%s -XX:+UseParallelGC" % xmx
    if dfs:
        opts += " -Dtlc2.tool.queue.IStateQueue=StateDeque"
    opts += " -DTLA-Library=" + ":".join(os.path.join(VERIF, "spec", d) for d in ("hist", "data", "core", "sync", "func"))
    e["JAVA_TOOL_OPTIONS"] = opts
    if env:
        env = dict(env)
        if "JAVA_TOOL_OPTIONS" in env:
            e["JAVA_TOOL_OPTIONS"] = env.pop("JAVA_TOOL_OPTIONS") + (" -Dtlc2.tool.queue.IStateQueue=StateDeque" if dfs else "")
        e.update(env)
    # TLC's own temporary directories go into the run's scratch directory (removed below), not into /tmp
    e["JAVA_TOOL_OPTIONS"] += " -Djava.io.tmpdir=" + md
    cmd = ["tlc", "-noGenerateSpecTE", "-workers", str(workers), "-metadir", md, "-config", cfg_path]
    if simulate:
        cmd += ["-simulate", "num=%d" % simulate]
    if depth:
        cmd += ["-depth", str(depth)]
    if coverage:
        cmd += ["-coverage", "1"]
    cmd += list(extra) + [module_path]
    t0 = time.time()
    try:
        r = subprocess.run(cmd, env=e, capture_output=True, text=True, timeout=timeout,
                           cwd=os.path.dirname(module_path), errors="replace")
        rc, out = r.returncode, r.stdout + r.stderr
    except subprocess.TimeoutExpired as ex:
        so = ex.stdout if isinstance(ex.stdout, str) else (ex.stdout or b"").decode(errors="replace")
        rc, out = -999, so + "\nTIMEOUT"
    finally:
        shutil.rmtree(md, ignore_errors=True)
    res = dict(rc=rc, out=out, wall=time.time() - t0, cmd=" ".join(cmd))
    m = re.findall(r"(\d+) states generated, (\d+) distinct states found", out)
    if m:
        res["states"], res["distinct"] = int(m[-1][1]), int(m[-1][1])
        res["generated"] = int(m[-1][0])
    else:
        res["states"] = res["distinct"] = res["generated"] = 0
    m = re.search(r"Invariant (\S+) is violated", out)
    res["inv"] = m.group(1) if m else None
    res["violated"] = bool(m) or "is violated" in out or "Temporal properties were violated" in out or re.search(r"Temporal property \S+ was violated", out) is not None
    res["deadlock"] = "Deadlock reached" in out
    res["ok"] = (rc == 0 and "Model checking completed. No error has been found." in out) or \
                (simulate is not None and rc in (0,) and not res["violated"])
    res["error"] = ("Error:" in out and not res["violated"] and not res["deadlock"]) or rc in (150, 151, 152, 153, -999) \
        or "Parsing or semantic analysis failed" in out
    if coverage:
        cov = {}
        for mm in re.finditer(r"<(\w+) line \d+, col \d+ to line \d+, col \d+ of module (\w+)>: (\d+):(\d+)", out):
            cov[mm.group(1)] = cov.get(mm.group(1), 0) + int(mm.group(3))
        res["coverage"] = cov
    return res


def tlc_validate(trace_module, cfg, trace_file, timeout=600, extra_env=None, xmx="8g"):
    """Trace validation: the spec's INVARIANT NotAccepted is violated iff some
    behaviour consumes the whole trace.  Returns dict(accepted, maxl, out)."""
    env = {"TRACE": trace_file}
    if extra_env:
        env.update(extra_env)
    r = tlc(trace_module, cfg, workers=1, timeout=timeout, env=env, dfs=True, xmx=xmx)
    out = r["out"]
    acc = r["inv"] == "NotAccepted"
    m = re.findall(r"MAXL\D+(\d+)", out)
    maxl = int(m[-1]) if m else None
    if not acc and (r["error"] or r["rc"] not in (0, 12, 13)) and not r["ok"]:
        raise Broken("TLC trace validation failed to run: %s\n%s" % (r["cmd"], out[-3000:]))
    if not acc and r["violated"]:
        raise Broken("trace spec reported an unexpected violation: %s\n%s" % (r["cmd"], out[-3000:]))
    r.update(accepted=acc, maxl=maxl)
    return r


# --------------------------------------------------------------------------- findings / evidence
def load_findings():
    p = os.path.join(VERIF, "known_findings.json")
    if not os.path.exists(p):
        return []
    return json.load(open(p)).get("findings", [])


class Check:
    """Collects what a check run covered and writes evidence/<id>.json."""

    def __init__(self, pid, tier, seed, level="model_checking"):
        self.pid, self.tier, self.seed, self.level = pid, tier, seed, level
        self.t0 = time.time()
        self.states = 0
        self.transitions = 0
        self.traces = 0
        self.samples = []
        self.extra = {}
        self.violations = []      # (key, what, replay)
        self.assumptions = []
        self.configs = []
        self.evaluations = 0
        self.distinct = set()
        self.known = [f for f in load_findings() if f.get("property") == pid and f.get("status", "open") == "open"]
        self.known_hit = {}
        os.makedirs(OUT, exist_ok=True)

    def add_tlc(self, name, r, expect_ok=True):
        self.states += r.get("distinct", 0)
        self.transitions += r.get("generated", 0)
        self.configs.append(dict(name=name, distinct=r.get("distinct", 0), generated=r.get("generated", 0),
                                 wall_s=round(r["wall"], 2), ok=bool(r.get("ok"))))
        if r.get("error") and not r.get("ok") and not r.get("violated"):
            raise Broken("TLC failed on %s: %s\n%s" % (name, r["cmd"], r["out"][-3000:]))

    def sample(self, s, limit=6):
        if len(self.samples) < limit:
            self.samples.append(s)

    def violation(self, key, what, replay_content=None, replay_path=None):
        """key identifies the failing scenario/cause; matched against known findings."""
        for f in self.known:
            if re.search(f["key"], key):
                self.known_hit.setdefault(f["key"], f)
                return False
        if replay_path is None:
            replay_path = os.path.join(OUT, "%s-%s.replay" % (self.pid, re.sub(r"[^A-Za-z0-9_.-]", "_", key)[:80]))
            with open(replay_path, "w") as f:
                if isinstance(replay_content, (dict, list)):
                    json.dump(replay_content, f, indent=1)
                else:
                    f.write(str(replay_content or what))
        self.violations.append((key, what, replay_path))
        return True

    def finish(self):
        wall = time.time() - self.t0
        cov = dict(states=max(self.states, 0), transitions=max(self.transitions, 0),
                   traces_validated_against_impl=self.traces, samples=self.samples or ["(none)"],
                   evaluations=max(self.evaluations, 1), distinct_nontrivial=max(len(self.distinct), 0),
                   configs=self.configs)
        cov.update(self.extra)
        if self.level == "model_checking" and cov["states"] < 1:
            cov["states"] = 0
        ev = dict(property_id=self.pid, tier=self.tier, seed=self.seed, level=self.level, coverage=cov,
                  assumptions=self.assumptions, wall_s=round(wall, 2), violations=len(self.violations),
                  known_findings_hit=sorted(self.known_hit))
        # evidence describes runs against /repo itself; runs against a scratch worktree (VERIF_REPO, development and
        # seeded-change runs) leave theirs in the cache
        evdir = os.path.join(VERIF, "evidence") if os.path.realpath(REPO) == "/repo" else os.path.join(CACHE, "evidence-scratch")
        os.makedirs(evdir, exist_ok=True)
        with open(os.path.join(evdir, self.pid + ".json"), "w") as f:
            json.dump(ev, f, indent=1, default=str)
        for k, f_ in sorted(self.known_hit.items()):
            print("KNOWN-FINDING: property=%s %s" % (self.pid, f_["what"]))
        for key, what, rp in self.violations:
            print("VIOLATION property=%s replay=%s" % (self.pid, rp))
            print("  cause: %s -- %s" % (key, what))
        return 1 if self.violations else 0


# --------------------------------------------------------------------------- history validation
def write_ndjson(path, events):
    with open(path, "w") as f:
        for e in events:
            f.write(json.dumps(e, separators=(",", ":")) + "\n")


def run_key(run):
    r0 = run[0]
    return "%s:seed=%s:%s" % (r0.get("scn"), r0.get("seed"), r0.get("cfg", ""))


def validate_runs(chk, runs, module, cfg, batch_events=4000, max_viol=5, nproc=8, what="history rejected",
                  keyfn=None, timeout=600, extra_env=None):
    """Validate runs (lists of events) against a trace spec, batched with
    Reset records.  A rejected run is recorded as violation and the rest of
    its batch is re-validated."""
    batches, cur, n = [], [], 0
    for r in runs:
        if cur and n + len(r) > batch_events:
            batches.append(cur)
            cur, n = [], 0
        cur.append(r)
        n += len(r)
    if cur:
        batches.append(cur)
    sdir = scratch("val")
    nviol = [0]

    def do_batch(args):
        bi, batch = args
        accepted = 0
        viols = []
        sts = 0
        gen = 0
        while batch:
            path = os.path.join(sdir, "b%d_%d.ndjson" % (bi, len(batch)))
            evs = [e for r in batch for e in r]
            write_ndjson(path, evs)
            res = tlc_validate(module, cfg, path, timeout=timeout, extra_env=extra_env)
            sts += res.get("distinct", 0)
            gen += res.get("generated", 0)
            if res["accepted"]:
                accepted += len(batch)
                break
            maxl = res["maxl"] or 1
            # locate the run containing line maxl
            pos, idx = 0, len(batch) - 1
            for i, r in enumerate(batch):
                if pos + len(r) >= maxl:
                    idx = i
                    break
                pos += len(r)
            bad = batch[idx]
            viols.append((bad, maxl - pos, res["re_run"] if "re_run" in res else None))
            accepted += idx
            batch = batch[idx + 1:]
            if len(viols) >= max_viol:
                break
        return accepted, viols, sts, gen

    try:
        with ThreadPoolExecutor(nproc) as ex:
            results = list(ex.map(do_batch, list(enumerate(batches))))
    finally:
        shutil.rmtree(sdir, ignore_errors=True)
    total_acc = 0
    for accepted, viols, sts, gen in results:
        total_acc += accepted
        chk.states += sts
        chk.transitions += gen
        for bad, line, _ in viols:
            key = (keyfn or run_key)(bad)
            ev = bad[line - 1] if 0 < line <= len(bad) else None
            chk.violation(key, "%s at record %d: %s" % (what, line, json.dumps(ev)),
                          replay_content="\n".join(json.dumps(e) for e in bad) + "\n")
    chk.traces += total_acc
    return total_acc


# --------------------------------------------------------------------------- seed sweeps
SPEC_LIB = ":".join(os.path.join(VERIF, "spec", d) for d in ("hist", "data", "core", "sync", "func"))


def tlc_lib_env():
    return {}


def run_seeds(exe, scn, seed0, count, opts=(), mode="serial", env=None, timeout=150, max_restarts=4, tag=""):
    """Run `count` seeds of a scenario in one process, restarting after the
    seed at which the process died.  Returns the list of runs (event lists);
    each run's Reset record gets 'cfg' = the option string."""
    sdir = scratch("run")
    runs = []
    s, left, restarts = seed0, count, 0
    info = []
    try:
        while left > 0:
            out = os.path.join(sdir, "t%d.ndjson" % s)
            r = run_driver(exe, [scn, s, left] + list(opts), out, mode=mode, env=env, timeout=timeout)
            evs = read_ndjson(out)
            rs = split_runs(evs)
            for x in rs:
                x[0]["cfg"] = " ".join(opts)
                x[0]["drv"] = os.path.basename(exe).split("-")[0]
            runs.extend(rs)
            info.append(dict(rc=r["rc"], wall=round(r["wall"], 2), n=len(rs)))
            if r["rc"] == 0:
                break
            if r["rc"] == -999:
                # the process hung in real time: infrastructure problem or a real hang in free mode
                if rs:
                    rs[-1].append({"e": "End", "why": "timeout"})
                else:
                    runs.append([{"e": "Reset", "scn": scn, "seed": s, "cfg": " ".join(opts), "mode": mode},
                                 {"e": "End", "why": "timeout"}])
            if rs and rs[-1][-1].get("e") != "End":
                rs[-1].append({"e": "End", "why": "exit:%d" % r["rc"], "stderr": r["stderr"][-400:]})
            if not rs and r["rc"] != -999:
                runs.append([{"e": "Reset", "scn": scn, "seed": s, "cfg": " ".join(opts), "mode": mode},
                             {"e": "End", "why": "exit:%d" % r["rc"], "stderr": r["stderr"][-400:]}])
            done = len(rs) if rs else 1
            s += done
            left -= done
            restarts += 1
            if restarts > max_restarts:
                break
    finally:
        shutil.rmtree(sdir, ignore_errors=True)
    return runs


def sweep(jobs, nproc=16):
    """jobs: list of dict(exe, scn, seed0, count, opts, mode, env, timeout) -> flat list of runs"""
    with ThreadPoolExecutor(nproc) as ex:
        res = list(ex.map(lambda j: run_seeds(j["exe"], j["scn"], j["seed0"], j["count"], j.get("opts", ()),
                                              j.get("mode", "serial"), j.get("env"), j.get("timeout", 150)), jobs))
    return [r for rs in res for r in rs]


def classify_runs(chk, runs, stuck_is_violation=True, what_prefix=""):
    """Split runs into those that completed ('done') and those that ended
    abnormally.  Crashes are always violations (A3); deadlock/stuck/budget/timeout
    are violations when stuck_is_violation (the caller knows that the scenario
    cannot legitimately block); 'broken' raises."""
    done, abnormal = [], []
    for r in runs:
        v = run_verdict(r)
        if v == "done":
            done.append(r)
            continue
        if v.startswith("broken"):
            raise Broken("driver reported %s in run %s: %s" % (v, run_key(r), json.dumps(r[-3:])))
        abnormal.append((v, r))
    for v, r in abnormal:
        cls = v.split(":")[0]
        if cls in ("crash", "exit") or stuck_is_violation:
            chk.violation(run_key(r) + ":" + v, "%srun ended with %s" % (what_prefix, v),
                          replay_content="\n".join(json.dumps(e) for e in r) + "\n")
    return done, abnormal


def tlc_check(chk, name, module, cfg, workers=16, timeout=900, expect="ok", **kw):
    env = {"JAVA_TOOL_OPTIONS": "-Xmx%s -XX:+UseParallelGC -DTLA-Library=%s" % (kw.pop("xmx", "12g"), SPEC_LIB)}
    r = tlc(module, cfg, workers=workers, timeout=timeout, env=env, **kw)
    chk.add_tlc(name, r)
    if expect == "ok" and not r["ok"]:
        if r["violated"] or r["deadlock"]:
            raise Broken("model %s violates its own properties (model/code mismatch to be resolved at "
                         "development time, never an alarm):\n%s" % (name, r["out"][-2500:]))
        raise Broken("TLC did not complete on %s (rc=%s):\n%s" % (name, r["rc"], r["out"][-2500:]))
    return r


def history_check(chk, driver, scns, module, quick, seed, nseeds_quick=600, nseeds_thorough=6000,
                  optsets=(("nes=0",), ("nes=1",), ("nes=2",), ("nes=2", "shared=1")), free_runs=200, what="history rejected by the specification",
                  stuck_is_violation=True, batch_events=5000, variant="gcc", sigfn=None, env=None):
    """Run `scns` of a driver over option sets and seeds (serialized mode; plus
    free mode in the thorough tier) and validate the histories."""
    spec_dir = os.path.join(VERIF, "spec", "hist")
    exe = build_driver(driver, variant=variant)
    n = nseeds_quick if quick else nseeds_thorough
    jobs = []
    per = 50 if quick else 250
    for scn in scns:
        for opts in optsets:
            s0 = seed * 1000000 + 1
            for off in range(0, n, per):
                jobs.append(dict(exe=exe, scn=scn, seed0=s0 + off, count=min(per, n - off), opts=opts, env=env))
    if not quick and free_runs:
        for scn in scns:
            for opts in optsets:
                for k in range(4):
                    jobs.append(dict(exe=exe, scn=scn, seed0=seed * 1000000 + 500001 + k * free_runs, count=free_runs,
                                     opts=opts, mode="free", env=dict(env or {}, ABTV_PERTURB="1"), timeout=600))
    runs = sweep(jobs)
    chk.evaluations += len(runs)
    done, abnormal = classify_runs(chk, runs, stuck_is_violation=stuck_is_violation)
    for r in done:
        sig = sigfn(r) if sigfn else json.dumps([[e.get(k) for k in sorted(e) if k not in ("q", "now", "steps")] for e in r[1:]])
        chk.distinct.add(hashlib.sha1(sig.encode()).hexdigest())
    validate_runs(chk, done, os.path.join(spec_dir, module + "Trace.tla"), os.path.join(spec_dir, module + "Trace.cfg"),
                  batch_events=batch_events, what=what)
    if done:
        chk.sample({"history": [{k: v for k, v in e.items() if k != "q"} for e in done[len(done) // 2][:30]]})
    rv = chk.extra.setdefault("runs_by_verdict", {})
    rv["done"] = rv.get("done", 0) + len(done)
    for v, _ in abnormal:
        rv[v] = rv.get(v, 0) + 1
    return done, abnormal


def generic_replay(pid, module, path):
    chk = Check(pid, "quick", 0)
    runs = split_runs(read_ndjson(path))
    done, _ = classify_runs(chk, runs)
    spec_dir = os.path.join(VERIF, "spec", "hist")
    validate_runs(chk, done, os.path.join(spec_dir, module + "Trace.tla"), os.path.join(spec_dir, module + "Trace.cfg"))
    for k, w, rp in chk.violations:
        print("VIOLATION property=%s replay=%s" % (pid, path))
        print("  " + w)
    if not chk.violations:
        print("replay: no violation in %s" % path)
    return 1 if chk.violations else 0
