#!/bin/sh
# try_wt2.sh <worktree> <patch.diff> <tag> <check>...: quick tier of the checks against a scratch worktree with the patch applied (VERIF_REPO);
# several may run side by side on different worktrees; output in /tmp/bp/<tag>_<check>.out, one summary line per check
wt=$1; patch=$2; tag=$3; shift 3
mkdir -p /tmp/bp
git -C $wt checkout -q -- src && git -C $wt apply "$patch" || { echo "$tag: patch does not apply"; exit 3; }
cd /verif
for c in "$@"; do
  s=$(date +%s); VERIF_REPO=$wt ./check $c --tier ${TIER:-quick} > /tmp/bp/${tag}_$c.out 2>&1; rc=$?
  echo "$tag $c:rc=$rc:viol=$(grep -c '^VIOLATION' /tmp/bp/${tag}_$c.out):$(( $(date +%s) - s ))s $(grep '^VIOLATION\|BROKEN' /tmp/bp/${tag}_$c.out | head -1 | cut -c1-160)"
done
git -C $wt checkout -q -- src
