#!/bin/sh
# mkwt.sh <name>: scratch git worktree of /repo under /tmp with the (untracked) autotools build files, ready for make / make check
set -e
d=/tmp/wt_$1
git -C /repo worktree add -q --detach "$d" HEAD
rsync -a --exclude .git --ignore-existing /repo/ "$d"/
# the copied Makefiles refer to /repo as srcdir only through relative paths (in-tree build); rebuild objects here
cd "$d" && find . -name "*.o" -o -name "*.lo" -o -name "*.la" | xargs rm -f && make -j8 >/dev/null 2>&1 && echo "$d ready"
