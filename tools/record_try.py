#!/usr/bin/env python3
"""record_try.py <seeded-id> <summary-file>...: adds the result lines of tools/try_wt2.sh to seeded/<id>/meta.json and seeded/MATRIX.txt"""
import sys, json, re, os
sid = sys.argv[1]
res = []
for f in sys.argv[2:]:
    for l in open(f):
        m = re.match(r"\S+ (C\d\d):rc=(\d+):viol=(\d+):(\d+)s", l)
        if m:
            res.append((m.group(1), int(m.group(2)), int(m.group(3)), int(m.group(4))))
mp = "/verif/seeded/%s/meta.json" % sid
meta = json.load(open(mp))
prop = meta["property"]
caught = [r for r in res if r[1] == 1 and r[2] > 0]
meta["caught_by"] = [r[0] for r in caught]
meta["how_run"] = "tools/try_wt2.sh <scratch worktree> seeded/%s/patch.diff <tag> %s  (patch applied to a scratch worktree of /repo, ./check <id> --tier quick with VERIF_REPO, patch undone)" % (sid, " ".join(r[0] for r in res))
if caught:
    meta["quick_tier_result"] = {"check": caught[0][0], "exit": 1, "violations": caught[0][2]}
else:
    meta["quick_tier_result"] = {"checks": [r[0] for r in res], "exit": 0, "violations": 0}
json.dump(meta, open(mp, "w"), indent=1)
cells = " ".join("%s:rc=%d:viol=%d:%ds" % r for r in res)
if caught:
    line = "%s property=%s CAUGHT by %s (%d)  [ %s ]" % (sid, prop, caught[0][0], caught[0][2], cells)
    if caught[0][0] != prop:
        line += "   (breaks a clause owned by %s)" % caught[0][0]
else:
    line = "%s property=%s NOT CAUGHT  [ %s ]" % (sid, prop, cells)
mx = "/verif/seeded/MATRIX.txt"
lines = [l for l in open(mx).read().splitlines() if not l.startswith(sid + " ")]
lines.append(line)
open(mx, "w").write("\n".join(lines) + "\n")
print(line)
