#!/bin/sh
# regress.sh [tier]: run every claimed check on the current tree; prints one line per check
cd /verif
for c in $(jq -r '.checks[].property_id' MANIFEST.json) ${EXTRA_CHECKS}; do
  s=$(date +%s); ./check $c --tier ${1:-quick} > /tmp/regress_$c.out 2>&1; rc=$?
  echo "$c rc=$rc $(( $(date +%s) - s ))s viol=$(grep -c '^VIOLATION' /tmp/regress_$c.out) known=$(grep -c '^KNOWN-FINDING' /tmp/regress_$c.out)"
done
