#!/bin/sh
# confirm_mutant.sh <worktree> <mutant-subdir>: re-verify an agent-made mutant independently
wt=$1; m=$2; out=$wt/$m/confirm.log
cd $wt || exit 2
{
git checkout -q -- src; 
git apply $m/patch.diff || { echo "APPLY FAILED"; exit 1; }
make -j8 >/dev/null 2>&1 && echo "BUILD ok" || echo "BUILD FAILED"
( cd test && make -j8 check 2>&1 | grep -E "^# (TOTAL|PASS|FAIL|ERROR|SKIP)" | tr '\n' ' ' ); echo
gcc -O1 -I$wt/src/include $m/demo.c $wt/src/.libs/libabt.a -lpthread -lm -o $m/demo_mut 2>&1 | tail -2
fails=0; for i in 1 2 3; do timeout 120 $m/demo_mut >/dev/null 2>&1; rc=$?; [ $rc -ne 0 ] && fails=$((fails+1)); done; echo "WITH PATCH: demo failed $fails/3 runs"
git checkout -q -- src; make -j8 >/dev/null 2>&1
gcc -O1 -I$wt/src/include $m/demo.c $wt/src/.libs/libabt.a -lpthread -lm -o $m/demo_orig 2>&1 | tail -2
fails=0; for i in 1 2 3; do timeout 120 $m/demo_orig >/dev/null 2>&1; rc=$?; [ $rc -ne 0 ] && fails=$((fails+1)); done; echo "WITHOUT PATCH: demo failed $fails/3 runs"
} > $out 2>&1
cat $out
