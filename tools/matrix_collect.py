#!/usr/bin/env python3
"""matrix_collect.py <matrix2 outputs...>: writes seeded/MATRIX.txt from the lines printed by tools/matrix2.sh"""
import sys, re, json, os
rows = {}
for f in sys.argv[1:]:
    for l in open(f):
        m = re.match(r"^(C\d\d-m\d+) (.*)$", l.strip())
        if m:
            rows[m.group(1)] = m.group(2)
ids = sorted(d for d in os.listdir("/verif/seeded") if d.startswith("C"))
out = ["# id  property  result (quick tier of the checks named in meta.json 'caught_by', first one that reports it)  [check:rc:violations:seconds ...]"]
missing = []
for i in ids:
    if i in rows:
        meta = json.load(open("/verif/seeded/%s/meta.json" % i))
        note = ""
        if not meta["caught_by"]:
            note = "   (EQUIVALENT: " + str(meta.get("note", meta.get("needs_to_manifest", "")))[:160] + ")"
        elif meta["property"] != meta["caught_by"][0]:
            note = "   (breaks a clause owned by %s)" % meta["caught_by"][0]
        out.append("%s %s%s" % (i, rows[i], note))
    else:
        missing.append(i)
open("/verif/seeded/MATRIX.txt", "w").write("\n".join(out) + "\n")
print(len(rows), "rows;", "missing:", missing)
print("not caught:", [i for i in rows if "CAUGHT" not in rows[i]])
