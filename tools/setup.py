#!/usr/bin/env python3
"""Offline setup: check the tool chain; nothing here depends on /repo."""
import os, shutil, subprocess, sys
HERE = os.path.dirname(os.path.dirname(os.path.abspath(__file__)))
ok = True
for tool in ("tlc", "gcc", "clang", "java", "ar", "setarch"):
    if not shutil.which(tool):
        print("missing tool:", tool)
        ok = False
os.makedirs(os.path.join(HERE, ".cache", "build"), exist_ok=True)
os.makedirs(os.path.join(HERE, "out"), exist_ok=True)
os.makedirs(os.path.join(HERE, "evidence"), exist_ok=True)
r = subprocess.run(["java", "-cp", "/opt/veriftools/tla/tla2tools.jar", "tlc2.TLC", "-h"], capture_output=True, text=True)
if "TLC" not in (r.stdout + r.stderr):
    print("tlc does not start")
    ok = False
print("setup ok" if ok else "setup FAILED")
sys.exit(0 if ok else 1)
