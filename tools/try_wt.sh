#!/bin/sh
# try_wt.sh <patch.diff> <check>...: like try_mutant.sh, but in the scratch worktree /tmp/wt_dev (VERIF_REPO), leaving /repo untouched
patch=$1; shift
wt=${TRY_WT:-/tmp/wt_dev}
git -C $wt checkout -q -- . && git -C $wt checkout -q --detach $(git -C /repo rev-parse HEAD) || exit 3
git -C $wt apply "$patch" || { echo "patch does not apply"; exit 3; }
cd /verif
for c in "$@"; do
  s=$(date +%s); VERIF_REPO=$wt ./check $c --tier ${TIER:-quick} > /tmp/trywt_$c.out 2>&1; rc=$?
  echo "== $c on $(basename $(dirname $patch)): rc=$rc in $(( $(date +%s) - s ))s violations: $(grep -c '^VIOLATION' /tmp/trywt_$c.out)"
  grep "^VIOLATION\|BROKEN" /tmp/trywt_$c.out | head -2 | cut -c1-200
done
git -C $wt checkout -q -- .
