#!/bin/sh
# matrix2.sh [ids...]: run every seeded mutant against the checks named in its meta.json ("caught_by", in order) until one
# reports it (quick tier), in a scratch worktree of /repo (VERIF_REPO) so that /repo itself stays untouched; prints one line each.
cd /verif
wt=${MX_WT:-/tmp/wt_mx}
[ -d $wt ] || { git -C /repo worktree add -q --detach $wt HEAD; }
git -C $wt checkout -q --detach $(git -C /repo rev-parse HEAD)
ids=${@:-$(ls seeded | grep -v MATRIX)}
for id in $ids; do
  git -C $wt checkout -q -- .
  if ! git -C $wt apply /verif/seeded/$id/patch.diff 2>/dev/null; then echo "$id APPLY-FAILED"; continue; fi
  res="MISSED"; tried=""
  for c in $(jq -r '.caught_by[]' seeded/$id/meta.json); do
    s=$(date +%s)
    VERIF_REPO=$wt ./check $c --tier quick > /tmp/mx_$id.out 2>&1; rc=$?
    nv=$(grep -c '^VIOLATION' /tmp/mx_$id.out)
    tried="$tried $c:rc=$rc:viol=$nv:$(( $(date +%s) - s ))s"
    if [ $rc -eq 1 ] && [ $nv -gt 0 ]; then res="CAUGHT by $c ($nv)"; break; fi
  done
  echo "$id property=$(jq -r .property seeded/$id/meta.json) $res  [$tried ]"
done
git -C $wt checkout -q -- .
