#!/usr/bin/env python3
"""Regenerates MANIFEST.json from the table below (single source of truth)."""
import json, os
HERE = os.path.dirname(os.path.dirname(os.path.abspath(__file__)))
props = [json.loads(l)["id"] for l in open(os.path.join(HERE, "properties.jsonl"))]
TECH = "TLA+ model checking (TLC) + trace validation of real executions against the TLA+ specification"
SC = "Sequentially consistent interleavings only (TLC and the serializing runtime); bounded actors/objects; "
CLAIMS = {
 "C04": ("model_checking", "MutexProto.tla (lock / waiter_lock / wait list as coded: try, re-check under waiter_lock, sleep; unlock = release + broadcast) is model-checked exhaustively incl. liveness, its no-recheck variant is rejected (lost wake-up witness); RecMutexCond.tla (recursive layer across a condition wait) is model-checked with its keep-owner witness; H_Mutex (linearizable recursive lock) is model-checked; Call/Ret/Enter/Leave histories of real ABT_mutex use by ULT, tasklet and external callers on 1-3 streams, under seeded serialized schedules with a scheduling point at every atomic operation, are validated against it by TLC; a stuck run is a lost wake-up.", SC + "progress is judged by termination of disciplined scenarios.", "DESIGN.md 6 C04"),
 "C05": ("model_checking", "WaitSuspend.tla (sleeping on a wait list: link, switch, callback publishing BLOCKED before the lock is released, against waker, canceller and scheduler, as coded) is model-checked exhaustively incl. termination, its cancel-in-callback and unlock-first variants are rejected; CondProto.tla (wait = lock(cond), unlock(mutex), enqueue + unlock(cond) + sleep, relock as coded) is model-checked exhaustively incl. liveness, its unlock-first variant is rejected (lost-signal witness); RecMutexCond.tla with its keep-owner witness; H_Cond (mutex + waiter set + credits) is model-checked; raw wait returns (no predicate loops) of real cond usage are validated: atomic release-and-wait, exactly one wake per signal, all on broadcast, no return without credit, mutex held at return; plain and recursive mutexes, signals and broadcasts with and without the mutex (SigCall/SigRet), signal bursts, external-thread waiters.", SC + "the signaller issues exactly the needed signals so a lost signal is a stuck run.", "DESIGN.md 6 C05"),
 "C07": ("model_checking", "TLC checks the pool protocol model (spec/data/PoolQueue.tla, one action per atomic access) exhaustively for 2-3 threads incl. refinement of the abstract queue H_Queue and liveness; recorded Call/Ret histories of the real FIFO/FIFO_WAIT/RANDWS pools (all access modes) are validated against H_Queue by TLC (linearizability search).", SC + "histories of <=3 concurrent callers.", "DESIGN.md 6 C07"),
 "C08": ("model_checking", "BarrierProto.tla (ABT_barrier_wait as coded: lock, counter, wait list, broadcast, reset; more callers than waiters so that rounds overlap) is model-checked exhaustively incl. liveness, also with re-initialisation between rounds, with three early-release witnesses (counter reset / broadcast after the lock is released, subtractive reset after a reinit); FutexMulti.tla (how external-thread waiters sleep on a wait list: sequence word read under the lock, FUTEX_WAIT, re-check, as coded) is model-checked exhaustively incl. liveness, with two lost-wake-up witnesses (late read, reset by reinit); H_Barrier (rounds, release set, reinit while released callers are leaving) is model-checked; BarCall/BarRet histories over several rounds, reinit, mixed ULT/external callers are validated: nobody leaves round k before N entered it; a tasklet caller is rejected (ABT_ERR_BARRIER) and is not an arrival; a rejected reinit(0) changes nothing; a stuck run is a missed release.", SC + "ABT_xstream_barrier is pthread_barrier in this configuration: scenario xbarrier (ULT / tasklet waiters blocking their streams, external threads) checks the library's own part (handle, waiter count, single-waiter shortcut) around it.", "DESIGN.md 6 C08"),
 "C09": ("model_checking", "FutureProto.tla (set / wait / lock-free test as coded: array write, callback, release store of the counter, broadcast; more setters than compartments) is model-checked exhaustively incl. liveness, its publish-before-callback and check-before-lock variants are rejected; EventualProto.tla (set / wait under the object lock as coded, value read outside the critical section) is model-checked exhaustively incl. liveness, its ready-before-lock variant is rejected (two successful sets), a recycling consumer (test, reset, wait) is added and the unlock-before-broadcast variant is rejected; H_Eventual and H_Future (linearizable objects incl. callback-before-ready) are model-checked; histories of set/wait/test/reset by ULT, tasklet and external callers incl. 0..3 compartments and late sets are validated by TLC.", SC, "DESIGN.md 6 C09"),
 "C10": ("model_checking", "RWLockProto.tla (the monitor of internal mutex, condition variable, write_flag and reader_count as coded) is model-checked exhaustively incl. liveness, its skip-broadcast variant is rejected (lost wake-up witness); H_RWLock is model-checked; rd/wr/unlock histories incl. a reader rendezvous inside the read section, hundreds of nested read holds and rejected tasklet callers are validated; stuck runs are progress violations.", SC, "DESIGN.md 6 C10"),
 "C19": ("model_checking", "H_Cond with deadlines under a virtual clock (past/near/far deadlines, timed and untimed waiters mixed, ULT and external) and H_Queue with blocking pops (every unit pushed while the single consumer waits) are validated against real executions.", SC + "time is virtual in serialized mode; real-time behaviour only in the thorough tier's free mode.", "DESIGN.md 6 C19"),
}
NA_REASON = "check under construction in this round (DESIGN.md section 9); not yet claimed"
m = {
 "version": 1,
 "setup_cmd": "python3 tools/setup.py",
 "hooks": {"guard": "PMODELS_ARGOBOTS_VERIF",
           "enable": "tools/build.py compiles /repo/src/**/*.c + the fcontext .S with -DPMODELS_ARGOBOTS_VERIF into .cache/build/<hash>/libabt_verif.a; drivers link it with -Wl,--wrap=... (no other source change)",
           "baseline_off_cmd": "cd /repo && make -j16 >/dev/null && cd test && make -j8 check",
           "source_commits": ["ce9aa7f", "e34592b"], "add_only": True},
 "engines": [{"name": "tlc", "path": "/opt/veriftools/tla/tla2tools.jar", "serves_properties": props,
              "kind_free_text": "TLC 1.8.0: exhaustive model checking of spec/**, trace validation of recorded executions (INVARIANT NotAccepted, depth-first queue), oracle evaluation"},
             {"name": "abtv_rt", "path": "harness/abtv_rt.c", "serves_properties": props,
              "kind_free_text": "serializing runtime: every hooked atomic op is a scheduling point, seeded chooser, virtualised futex/pthread blocking and clock, allocation ledger + fault injection"}],
 "checks": [], "not_applicable": [],
 "notes": "See DESIGN.md. ./check <Cxx> --tier quick|thorough; exit 2 + 'BROKEN:' for infrastructure trouble (never a VIOLATION line)."}
extra = {}
p2 = os.path.join(HERE, "tools", "claims_extra.json")
if os.path.exists(p2):
    extra = json.load(open(p2))
for k, v in extra.items():
    CLAIMS[k] = tuple(v)
for p in props:
    if p in CLAIMS and os.path.exists(os.path.join(HERE, "checks", p + ".py")):
        cat, text, note, ref = CLAIMS[p][:4]
        tech = CLAIMS[p][4] if len(CLAIMS[p]) > 4 else TECH
        m["checks"].append({"property_id": p, "quick_cmd": "./check %s --tier quick" % p,
                            "thorough_cmd": "./check %s --tier thorough" % p, "evidence_file": "evidence/%s.json" % p,
                            "replay_cmd_template": "./check %s --replay {path}" % p, "engine": "tlc",
                            "level_claimed": {"category": cat, "text": text, "design_ref": ref},
                            "level_note": note, "technique": tech})
    else:
        m["not_applicable"].append({"property_id": p, "reason": NA_REASON})
json.dump(m, open(os.path.join(HERE, "MANIFEST.json"), "w"), indent=1)
print("claimed:", [c["property_id"] for c in m["checks"]])
