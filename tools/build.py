#!/usr/bin/env python3
"""Build libabt_verif.a directly from /repo's *working tree* (never the
in-tree autotools objects) with -DPMODELS_ARGOBOTS_VERIF.

  build.py [--variant gcc|asan] [--repo /repo]   -> prints the build directory

The build is cached under /verif/.cache/build/<variant>-<hash of all inputs>.
The cache key is a content hash of every file under src/ that participates in
the build (+ flags), so an edited source tree always rebuilds.
"""
import hashlib, os, re, subprocess, sys, shutil, glob, time
from concurrent.futures import ThreadPoolExecutor

VERIF = os.path.dirname(os.path.dirname(os.path.abspath(__file__)))
CACHE = os.path.join(VERIF, ".cache", "build")
GUARD = "PMODELS_ARGOBOTS_VERIF"

VARIANTS = {
    "gcc": dict(cc="gcc", cflags=["-O2", "-g", "-Wno-error", "-fno-omit-frame-pointer"]),
    "asan": dict(cc="clang", cflags=["-O1", "-g", "-fsanitize=address,undefined",
                                      "-fno-sanitize-recover=undefined",
                                      "-fno-omit-frame-pointer", "-Wno-error",
                                      "-Wno-unknown-warning-option"]),
}


def sources(repo):
    src = os.path.join(repo, "src")
    cs = sorted(glob.glob(os.path.join(src, "*.c")) + glob.glob(os.path.join(src, "*", "*.c")))
    asm = [os.path.join(src, "arch", "fcontext", "fcontext_x86_64_sysv_elf_gas.S")]
    return cs, asm


def gen_abt_h(repo, outdir):
    """abt.h is a configure product; regenerate it from abt.h.in."""
    s = open(os.path.join(repo, "src", "include", "abt.h.in")).read()
    sub = {
        "ABT_VERSION": "1.2rc1", "ABT_NUMVERSION": "10200201",
        "ABT_RELEASE_DATE": "unreleased development copy",
        "ABT_DEPRECATED": "__attribute__((deprecated))",
        "ABT_ENABLE_VER_20_API": "0", "ABT_NULL": "0",
    }
    # take what configure computed if the in-tree product exists
    intree = os.path.join(repo, "src", "include", "abt.h")
    if os.path.exists(intree):
        t = open(intree).read()
        m = re.search(r'#define ABT_RELEASE_DATE "([^"]*)"', t)
        if m:
            sub["ABT_RELEASE_DATE"] = m.group(1)
    s = re.sub(r"@([A-Z0-9_]+)@", lambda m: sub.get(m.group(1), "0"), s)
    open(os.path.join(outdir, "abt.h"), "w").write(s)


def config_h(repo, outdir):
    p = os.path.join(repo, "src", "include", "abt_config.h")
    if not os.path.exists(p):
        p = os.path.join(VERIF, "harness", "config", "abt_config.h")
    shutil.copy(p, os.path.join(outdir, "abt_config.h"))


def tree_hash(repo, variant, extra):
    h = hashlib.sha256()
    h.update(variant.encode())
    h.update(repr(VARIANTS[variant]).encode())
    h.update(extra.encode())
    src = os.path.join(repo, "src")
    for root, dirs, files in os.walk(src):
        dirs.sort()
        for f in sorted(files):
            if f.endswith((".c", ".h", ".S", ".in")):
                p = os.path.join(root, f)
                h.update(p.encode())
                h.update(open(p, "rb").read())
    return h.hexdigest()[:16]


def build(repo="/repo", variant="gcc", defines=()):
    extra = " ".join(defines)
    key = variant + "-" + tree_hash(repo, variant, extra)
    out = os.path.join(CACHE, key)
    lib = os.path.join(out, "libabt_verif.a")
    if os.path.exists(lib):
        os.utime(out)
        return out
    tmp = out + ".tmp%d" % os.getpid()
    shutil.rmtree(tmp, ignore_errors=True)
    os.makedirs(os.path.join(tmp, "include"))
    os.makedirs(os.path.join(tmp, "obj"))
    gen_abt_h(repo, os.path.join(tmp, "include"))
    config_h(repo, os.path.join(tmp, "include"))
    v = VARIANTS[variant]
    cs, asm = sources(repo)
    inc = ["-I" + os.path.join(tmp, "include"), "-I" + os.path.join(repo, "src", "include"),
           "-I" + os.path.join(repo, "src")]
    base = [v["cc"]] + v["cflags"] + ["-DHAVE_CONFIG_H", "-D" + GUARD] + ["-D" + d for d in defines] + inc

    def comp(src):
        o = os.path.join(tmp, "obj", os.path.relpath(src, repo).replace("/", "_") + ".o")
        r = subprocess.run(base + ["-c", src, "-o", o], capture_output=True, text=True)
        if r.returncode != 0:
            return (src, r.stderr)
        return (o, None)

    with ThreadPoolExecutor(16) as ex:
        res = list(ex.map(comp, cs + asm))
    errs = [(s, e) for s, e in res if e]
    if errs:
        for s, e in errs:
            sys.stderr.write("BUILD ERROR %s\n%s\n" % (s, e))
        shutil.rmtree(tmp, ignore_errors=True)
        raise SystemExit(2)
    objs = [o for o, _ in res]
    subprocess.check_call(["ar", "rcs", os.path.join(tmp, "libabt_verif.a")] + objs)
    shutil.rmtree(os.path.join(tmp, "obj"))
    try:
        os.rename(tmp, out)
    except OSError:
        shutil.rmtree(tmp, ignore_errors=True)  # somebody else won the race
    prune()
    return out


def prune(keep=6):
    ds = [os.path.join(CACHE, d) for d in os.listdir(CACHE)]
    ds = [d for d in ds if os.path.isdir(d)]
    ds.sort(key=lambda d: os.path.getmtime(d), reverse=True)
    for d in ds[keep:]:
        if ".tmp" in d and time.time() - os.path.getmtime(d) < 600:
            continue
        shutil.rmtree(d, ignore_errors=True)


if __name__ == "__main__":
    import argparse
    ap = argparse.ArgumentParser()
    ap.add_argument("--variant", default="gcc")
    ap.add_argument("--repo", default=os.environ.get("VERIF_REPO", "/repo"))
    ap.add_argument("-D", action="append", default=[])
    a = ap.parse_args()
    os.makedirs(CACHE, exist_ok=True)
    print(build(a.repo, a.variant, tuple(a.D)))
