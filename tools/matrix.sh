#!/bin/sh
# matrix.sh [ids...]: run every seeded mutant against the check of its property (quick tier), write seeded/MATRIX.txt
cd /verif
ids=${@:-$(ls seeded | grep -v MATRIX)}
for id in $ids; do
  prop=$(jq -r .property seeded/$id/meta.json)
  out=$(tools/try_mutant.sh /verif/seeded/$id/patch.diff $prop 2>&1)
  rc=$(echo "$out" | sed -n 's/^rc=\([0-9]*\).*/\1/p')
  nv=$(echo "$out" | sed -n 's/^violations: //p')
  echo "$id $prop rc=$rc violations=$nv"
done
