#!/usr/bin/env python3
"""Binding self-test: for every trace specification take histories recorded from the real library
(accepted by the specification), corrupt ONE record in each -- drop it, duplicate it, swap it with
its neighbour, or change one numeric field -- and count how many corrupted histories the
specification still accepts.  A specification that only constrains the length of the trace, or
that ignores the logged fields, would accept them all.

  tools/selftest_binding.py [nhist]      -> prints a table, writes selftest_binding.json
"""
import sys, os, json, random, copy
sys.path.insert(0, os.path.dirname(os.path.abspath(__file__)))
import vlib
from vlib import VERIF

CASES = [  # (driver, scenario, opts, trace module dir, module)
    ("d_pool", "pool", ("kind=0", "access=4", "shape=0"), "hist", "H_Queue"),
    ("d_sync", "mutex", ("nes=1",), "hist", "H_Mutex"),
    ("d_sync", "cond", ("nes=1",), "hist", "H_Cond"),
    ("d_sync", "condtimed", ("nes=1",), "hist", "H_Cond"),
    ("d_sync", "barrier", ("nes=1",), "hist", "H_Barrier"),
    ("d_sync", "eventual", ("nes=1",), "hist", "H_Eventual"),
    ("d_sync", "future", ("nes=1",), "hist", "H_Future"),
    ("d_sync", "rwlock", ("nes=1",), "hist", "H_RWLock"),
    ("d_kernel", "exec", ("nes=1", "cfg=0"), "hist", "H_Exec"),
    ("d_kernel", "switch", ("nes=1", "cfg=0"), "hist", "H_Exec"),
    ("d_kernel", "migrate", ("nes=2", "cfg=0"), "hist", "H_Exec"),
    ("d_key", "keys", ("tsize=2", "nes=1"), "hist", "H_Key"),
    ("d_mem", "stacks", ("nes=1", "mem=2"), "hist", "H_Alloc"),
    ("d_fault", "ops", ("cold=0", "nes=0", "ext=0"), "hist", "H_Fault"),
    ("d_upool", "umap", ("nes=1", "coll=1", "fail=1", "csched=1"), "hist", "H_UnitMap"),
    ("d_stream", "ranks", (), "data", "RankList"),
]
SKIP_KEYS = {"q", "a", "e", "scn", "seed", "mode", "sw", "cfg", "drv", "steps", "why", "es", "now", "at"}


def corrupt(run, rng):
    r = copy.deepcopy(run)
    idx = [i for i in range(1, len(r) - 1)]
    if not idx:
        return None, None
    for _ in range(20):
        i = rng.choice(idx)
        how = rng.choice(["drop", "dup", "swap", "field", "field"])
        if how == "drop":
            what = "dropped %s" % r[i].get("e")
            del r[i]
            return r, what
        if how == "dup":
            what = "duplicated %s" % r[i].get("e")
            r.insert(i, copy.deepcopy(r[i]))
            return r, what
        if how == "swap" and i + 1 < len(r) - 1 and r[i] != r[i + 1]:
            what = "swapped %s/%s" % (r[i].get("e"), r[i + 1].get("e"))
            r[i], r[i + 1] = r[i + 1], r[i]
            return r, what
        if how == "field":
            ks = [k for k, v in r[i].items() if k not in SKIP_KEYS and isinstance(v, int) and not isinstance(v, bool)]
            if ks:
                k = rng.choice(ks)
                what = "%s.%s %d->%d" % (r[i].get("e"), k, r[i][k], r[i][k] + 1)
                r[i][k] += 1
                return r, what
    return None, None


def main():
    nhist = int(sys.argv[1]) if len(sys.argv) > 1 else 12
    rng = random.Random(7)
    table = []
    for drv, scn, opts, d, mod in CASES:
        exe = vlib.build_driver(drv)
        runs = vlib.sweep([dict(exe=exe, scn=scn, seed0=4200001, count=nhist * 2, opts=opts, env={"ABTV_BUDGET": "3000000"})])
        runs = [r for r in runs if vlib.run_verdict(r) == "done"][:nhist]
        spec = os.path.join(VERIF, "spec", d, mod + "Trace.tla")
        cfg = os.path.join(VERIF, "spec", d, mod + "Trace.cfg")
        chk = vlib.Check("SELFTEST", "quick", 0)
        chk.known = []
        vlib.validate_runs(chk, runs, spec, cfg, what="orig")
        ok = len(runs) - len(chk.violations)
        rej, acc, accepted_examples = 0, 0, []
        for r in runs:
            c, what = corrupt(r, rng)
            if c is None:
                continue
            c2 = vlib.Check("SELFTEST", "quick", 0)
            c2.known = []
            try:
                vlib.validate_runs(c2, [c], spec, cfg, what="corrupted")
            except vlib.Broken:
                c2.violations.append(("err", "TLC could not evaluate the corrupted history (counts as not accepted)", ""))
            for _, _, rp in c2.violations:
                try:
                    os.remove(rp)
                except OSError:
                    pass
            if c2.violations:
                rej += 1
            else:
                acc += 1
                accepted_examples.append(what)
        table.append(dict(spec=mod, driver=drv, scenario=scn, histories=len(runs), accepted_uncorrupted=ok, corrupted_rejected=rej,
                          corrupted_accepted=acc, accepted_examples=accepted_examples[:6]))
        print("%-10s %-9s %-10s uncorrupted accepted %d/%d   corrupted rejected %d/%d   still accepted: %s" %
              (mod, drv, scn, ok, len(runs), rej, rej + acc, accepted_examples[:4]))
        for _, _, rp in chk.violations:
            try:
                os.remove(rp)
            except OSError:
                pass
    json.dump(table, open(os.path.join(VERIF, "selftest_binding.json"), "w"), indent=1)


if __name__ == "__main__":
    main()
