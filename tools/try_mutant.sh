#!/bin/sh
# try_mutant.sh <patch.diff> <check> [<check>...]  -- applies the patch to /repo, runs the checks' quick tier, restores /repo
patch=$1; shift
cd /repo && git status --short | grep -v '^??' && { echo "repo not clean"; exit 3; }
git -C /repo apply "$patch" || { echo "patch does not apply"; exit 3; }
cd /verif
for c in "$@"; do
  echo "== $c on $(basename $(dirname $patch))"
  start=$(date +%s)
  ./check $c --tier ${TIER:-quick} > /tmp/try_$c.out 2>&1; rc=$?
  echo "rc=$rc in $(( $(date +%s) - start ))s"; grep -c "^VIOLATION" /tmp/try_$c.out | sed 's/^/violations: /'; grep "^VIOLATION\|cause:\|BROKEN\|KNOWN" /tmp/try_$c.out | head -4
done
git -C /repo checkout -- . ; git -C /repo status --short | grep -v '^??'
