"""C05 -- condition variables"""
import os
import vlib
from vlib import VERIF
PID = "C05"
SPEC = os.path.join(VERIF, "spec", "hist")


def run(tier, seed):
    chk = vlib.Check(PID, tier, seed)
    quick = tier == "quick"
    vlib.tlc_check(chk, "H_Cond abstract object, exhaustive", os.path.join(SPEC, "H_Cond.tla"), os.path.join(SPEC, "H_CondMC.cfg"), timeout=600)
    d = os.path.join(VERIF, "spec", "sync")
    vlib.tlc_check(chk, "CondProto: wait = lock(cond), unlock(mutex), enqueue + unlock(cond) + sleep, relock(mutex) as coded; exhaustive incl. liveness",
                   os.path.join(d, "CondProto.tla"), os.path.join(d, "CondProtoMC.cfg"), timeout=600)
    r = vlib.tlc_check(chk, "CondProto releasing the mutex before taking the condition variable's lock (must be violated: lost signal)",
                       os.path.join(d, "CondProto.tla"), os.path.join(d, "CondProtoUnlockFirst.cfg"), timeout=600, expect="violation")
    if not r["violated"]:
        raise vlib.Broken("the unlock-first variant of CondProto is not rejected: the properties are vacuous")
    vlib.tlc_check(chk, "RecMutexCond: recursive layer of the mutex (owner, nesting counter) with the release / re-acquisition of a condition wait as coded, exhaustive",
                   os.path.join(d, "RecMutexCond.tla"), os.path.join(d, "RecMutexCondMC.cfg"), timeout=300)
    r = vlib.tlc_check(chk, "RecMutexCond with the wait releasing by unlock_no_recursion (must be violated: returns without the lock)",
                       os.path.join(d, "RecMutexCond.tla"), os.path.join(d, "RecMutexCondKeepOwner.cfg"), timeout=300, expect="violation")
    if not r["violated"]:
        raise vlib.Broken("the keep-owner variant of RecMutexCond is not rejected: the invariants are vacuous")
    vlib.tlc_check(chk, "WaitSuspend: a ULT going to sleep on a wait list (link, switch, callback: count, publish BLOCKED, release the lock) against waker, canceller and scheduler as coded, exhaustive incl. termination under fairness",
                   os.path.join(d, "WaitSuspend.tla"), os.path.join(d, "WaitSuspendMC.cfg"), timeout=300)
    for cfg, what in (("WaitSuspendTermInCb.cfg", "the callback acting on a pending cancellation: terminated while linked in the list"), ("WaitSuspendUnlockFirst.cfg", "the lock released before BLOCKED is published")):
        r = vlib.tlc_check(chk, "WaitSuspend with %s (must be violated)" % what, os.path.join(d, "WaitSuspend.tla"), os.path.join(d, cfg), timeout=300, expect="violation")
        if not r["violated"]:
            raise vlib.Broken("the variant of WaitSuspend (%s) is not rejected: the invariants are vacuous" % what)
    vlib.history_check(chk, "d_sync", ["cond", "condtimed"], "H_Cond", quick, seed, what="cond history violates atomic release-and-wait / exact wake-ups / mutex held at return")
    chk.assumptions += ["serialized mode explores sequentially consistent interleavings of the hooked atomic operations",
                        "scenario scripts follow a discipline under which a correct implementation terminates; a run that ends in deadlock/stuck/budget is reported as a progress violation"]
    return chk.finish()


def replay(path):
    return vlib.generic_replay(PID, "H_Cond", path)
