"""C05 -- condition variables"""
import os
import vlib
from vlib import VERIF
PID = "C05"
SPEC = os.path.join(VERIF, "spec", "hist")


def run(tier, seed):
    chk = vlib.Check(PID, tier, seed)
    quick = tier == "quick"
    vlib.tlc_check(chk, "H_Cond abstract object, exhaustive", os.path.join(SPEC, "H_Cond.tla"), os.path.join(SPEC, "H_CondMC.cfg"), timeout=600)
    vlib.history_check(chk, "d_sync", ["cond", "condtimed"], "H_Cond", quick, seed, what="cond history violates atomic release-and-wait / exact wake-ups / mutex held at return")
    chk.assumptions += ["serialized mode explores sequentially consistent interleavings of the hooked atomic operations",
                        "scenario scripts follow a discipline under which a correct implementation terminates; a run that ends in deadlock/stuck/budget is reported as a progress violation"]
    return chk.finish()


def replay(path):
    return vlib.generic_replay(PID, "H_Cond", path)
