"""C04 -- ABT_mutex: exclusion, recursion, trylock iff free, no lost wake-up"""
import os
import vlib
from vlib import VERIF
PID = "C04"
SPEC = os.path.join(VERIF, "spec", "hist")


def run(tier, seed):
    chk = vlib.Check(PID, tier, seed)
    quick = tier == "quick"
    vlib.tlc_check(chk, "H_Mutex abstract object, exhaustive", os.path.join(SPEC, "H_Mutex.tla"), os.path.join(SPEC, "H_MutexMC.cfg"), timeout=600)
    vlib.history_check(chk, "d_sync", ["mutex"], "H_Mutex", quick, seed, what="mutex history is not a history of a linearizable (recursive) lock")
    chk.assumptions += ["serialized mode explores sequentially consistent interleavings of the hooked atomic operations",
                        "scenario scripts follow a discipline under which a correct implementation terminates; a run that ends in deadlock/stuck/budget is reported as a progress violation"]
    return chk.finish()


def replay(path):
    return vlib.generic_replay(PID, "H_Mutex", path)
