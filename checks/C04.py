"""C04 -- ABT_mutex: exclusion, recursion, trylock iff free, no lost wake-up"""
import os
import vlib
from vlib import VERIF
PID = "C04"
SPEC = os.path.join(VERIF, "spec", "hist")


def run(tier, seed):
    chk = vlib.Check(PID, tier, seed)
    quick = tier == "quick"
    vlib.tlc_check(chk, "H_Mutex abstract object, exhaustive", os.path.join(SPEC, "H_Mutex.tla"), os.path.join(SPEC, "H_MutexMC.cfg"), timeout=600)
    d = os.path.join(VERIF, "spec", "sync")
    vlib.tlc_check(chk, "MutexProto: lock / waiter_lock / wait list as coded (try, re-check under waiter_lock, sleep; unlock = release + broadcast), exhaustive incl. liveness",
                   os.path.join(d, "MutexProto.tla"), os.path.join(d, "MutexProtoMC.cfg"), timeout=600)
    r = vlib.tlc_check(chk, "MutexProto without the re-check under waiter_lock (must be violated: lost wake-up)", os.path.join(d, "MutexProto.tla"),
                       os.path.join(d, "MutexProtoNoRecheck.cfg"), timeout=600, expect="violation")
    if not r["violated"]:
        raise vlib.Broken("the no-recheck variant of MutexProto is not rejected: the properties are vacuous")
    vlib.tlc_check(chk, "RecMutexCond: recursive layer of the mutex (owner, nesting counter) with the release / re-acquisition of a condition wait as coded, exhaustive",
                   os.path.join(d, "RecMutexCond.tla"), os.path.join(d, "RecMutexCondMC.cfg"), timeout=300)
    r = vlib.tlc_check(chk, "RecMutexCond with the wait releasing by unlock_no_recursion (must be violated: returns without the lock)",
                       os.path.join(d, "RecMutexCond.tla"), os.path.join(d, "RecMutexCondKeepOwner.cfg"), timeout=300, expect="violation")
    if not r["violated"]:
        raise vlib.Broken("the keep-owner variant of RecMutexCond is not rejected: the invariants are vacuous")
    vlib.history_check(chk, "d_sync", ["mutex"], "H_Mutex", quick, seed, what="mutex history is not a history of a linearizable (recursive) lock")
    chk.assumptions += ["serialized mode explores sequentially consistent interleavings of the hooked atomic operations",
                        "scenario scripts follow a discipline under which a correct implementation terminates; a run that ends in deadlock/stuck/budget is reported as a progress violation"]
    return chk.finish()


def replay(path):
    return vlib.generic_replay(PID, "H_Mutex", path)
