"""C18 -- a failed allocation makes the call fail cleanly and leaves the runtime intact"""
import os
import vlib
from vlib import VERIF
PID = "C18"
SPEC = os.path.join(VERIF, "spec", "hist")


def run(tier, seed):
    chk = vlib.Check(PID, tier, seed)
    quick = tier == "quick"
    vlib.tlc_check(chk, "H_Fault failure atomicity, exhaustive (conservation of units, FailAtomic, retry)", os.path.join(SPEC, "H_FaultMC.tla"),
                   os.path.join(SPEC, "H_FaultMC.cfg"), timeout=600)
    optsets = [("cold=%d" % c, "nes=%d" % n, "ext=%d" % x) for c in (0, 1) for n in (0, 1) for x in (0, 1)]
    done, abnormal = vlib.history_check(chk, "d_fault", ["ops"], "H_Fault", quick, seed, nseeds_quick=53 * 5, nseeds_thorough=53 * 40, optsets=optsets, free_runs=0,
                                        what="a call under an injected allocation / OS-resource failure crashed, failed without a failing request, "
                                             "handed out a handle, changed what the API shows, left memory behind, or its retry / the follow-up workload failed",
                                        env={"ABTV_BUDGET": "8000000"})
    # non-vacuity: how many requests failed, per routine
    fails, calls = {}, {}
    for r in done:
        op = None
        for e in r:
            if e.get("e") == "FaultRun":
                op = e["op"]
            elif e.get("e") in ("Op", "Init") and e.get("k", 0) > 0 and op:
                calls[op] = calls.get(op, 0) + 1
                if e.get("ret"):
                    fails[op] = fails.get(op, 0) + 1
    chk.extra["faulted_calls_per_routine"] = calls
    chk.extra["failed_calls_per_routine"] = fails
    chk.extra["injected_failures"] = sum(fails.values())
    chk.assumptions += ["single failures only (one failing request per call), injected into malloc/calloc/realloc/posix_memalign/mmap/pthread_create/pthread_mutex_init/pthread_cond_init/pthread_barrier_init of the calling thread",
                        "ABT_thread_create_many, ABT_thread_free_many, ABT_thread_join_many are documented as having no error handling (DOC_UNDEFINED_NO_ERROR_HANDLING) and are excluded",
                        "'unchanged' is judged on what the API shows (stream count, pool sizes, key values, unit states, a mutex) plus the allocation ledger; leak = 0 right after the failed call only when the routine's caches were warmed by one successful call, always after ABT_finalize",
                        "routines are called from the primary ULT or (ext=1) from an external thread; a second (idle) stream is present in half of the runs"]
    return chk.finish()


def replay(path):
    return vlib.generic_replay(PID, "H_Fault", path)
