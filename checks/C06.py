"""C06 -- scheduling kernel scenarios judged by spec/hist/H_Exec.tla"""
import exec_common
PID = "C06"


def run(tier, seed):
    return exec_common.run_exec(PID, tier, seed, 3, scns=("exec", "migrate", "xjoin", "stacked"), pre=exec_common.sched_stop_model)


def replay(path):
    return exec_common.replay_exec(PID, path)
