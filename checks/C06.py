"""C06 -- scheduling kernel scenarios judged by spec/hist/H_Exec.tla"""
import exec_common
PID = "C06"


def pre(chk):
    exec_common.sched_stop_model(chk)
    exec_common.blocked_count_model(chk)


def run(tier, seed):
    return exec_common.run_exec(PID, tier, seed, 3, scns=("exec", "migrate", "xjoin", "stacked", "privjoin"), pre=pre)


def replay(path):
    return exec_common.replay_exec(PID, path)
