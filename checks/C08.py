"""C08 -- barriers"""
import os
import vlib
from vlib import VERIF
PID = "C08"
SPEC = os.path.join(VERIF, "spec", "hist")


def run(tier, seed):
    chk = vlib.Check(PID, tier, seed)
    quick = tier == "quick"
    vlib.tlc_check(chk, "H_Barrier abstract object, exhaustive", os.path.join(SPEC, "H_Barrier.tla"), os.path.join(SPEC, "H_BarrierMC.cfg"), timeout=600)
    d = os.path.join(VERIF, "spec", "sync")
    vlib.tlc_check(chk, "FutexMulti: how external-thread waiters sleep on a wait list (sequence word read under the lock, FUTEX_WAIT, re-check) as coded, exhaustive incl. liveness",
                   os.path.join(d, "FutexMulti.tla"), os.path.join(d, "FutexMultiMC.cfg"), timeout=600)
    for cfg, what in (("FutexMultiLate.cfg", "sequence word read after releasing the lock"), ("FutexMultiReset.cfg", "sequence word reset by a re-initialisation")):
        r = vlib.tlc_check(chk, "FutexMulti with the %s (must be violated: lost wake-up)" % what, os.path.join(d, "FutexMulti.tla"), os.path.join(d, cfg),
                           timeout=600, expect="violation")
        if not r["violated"]:
            raise vlib.Broken("the variant of FutexMulti (%s) is not rejected: the properties are vacuous" % what)
    for cfg, what in (("BarrierProtoMC.cfg", "3 callers, 3 waiters, 2 rounds, incl. liveness"), ("BarrierProtoMC2.cfg", "3 callers sharing a barrier of 2 waiters, 3 rounds each: overlapping rounds"),
                      ("BarrierProtoReinit.cfg", "3 callers, re-initialised between 3 and 2 waiters by callers that have left a round while the others are leaving")):
        vlib.tlc_check(chk, "BarrierProto: ABT_barrier_wait as coded (lock, counter, wait list, broadcast, reset), exhaustive, %s" % what,
                       os.path.join(d, "BarrierProto.tla"), os.path.join(d, cfg), timeout=600)
    for cfg, what in (("BarrierProtoResetLate.cfg", "counter reset after the lock is released"), ("BarrierProtoBcastLate.cfg", "broadcast issued after the lock is released"),
                      ("BarrierProtoSubReset.cfg", "counter reset by subtracting a waiter count that a re-initialisation has changed (= seeded C08-m7)")):
        r = vlib.tlc_check(chk, "BarrierProto with the %s (must be violated: a caller leaves an incomplete round)" % what, os.path.join(d, "BarrierProto.tla"), os.path.join(d, cfg),
                           timeout=600, expect="violation")
        if not r["violated"]:
            raise vlib.Broken("the variant of BarrierProto (%s) is not rejected: the properties are vacuous" % what)
    vlib.history_check(chk, "d_sync", ["barrier", "xbarrier"], "H_Barrier", quick, seed, what="a caller left a barrier round before all waiters entered it")
    chk.assumptions += ["serialized mode explores sequentially consistent interleavings of the hooked atomic operations",
                        "scenario scripts follow a discipline under which a correct implementation terminates; a run that ends in deadlock/stuck/budget is reported as a progress violation"]
    return chk.finish()


def replay(path):
    return vlib.generic_replay(PID, "H_Barrier", path)
