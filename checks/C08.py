"""C08 -- barriers"""
import os
import vlib
from vlib import VERIF
PID = "C08"
SPEC = os.path.join(VERIF, "spec", "hist")


def run(tier, seed):
    chk = vlib.Check(PID, tier, seed)
    quick = tier == "quick"
    vlib.tlc_check(chk, "H_Barrier abstract object, exhaustive", os.path.join(SPEC, "H_Barrier.tla"), os.path.join(SPEC, "H_BarrierMC.cfg"), timeout=600)
    vlib.history_check(chk, "d_sync", ["barrier"], "H_Barrier", quick, seed, what="a caller left a barrier round before all waiters entered it")
    chk.assumptions += ["serialized mode explores sequentially consistent interleavings of the hooked atomic operations",
                        "scenario scripts follow a discipline under which a correct implementation terminates; a run that ends in deadlock/stuck/budget is reported as a progress violation"]
    return chk.finish()


def replay(path):
    return vlib.generic_replay(PID, "H_Barrier", path)
