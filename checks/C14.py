"""C14 -- user-defined pools and schedulers see a consistent unit <-> work-unit mapping"""
import os
import vlib
from vlib import VERIF
PID = "C14"
SPEC = os.path.join(VERIF, "spec", "hist")


def run(tier, seed):
    chk = vlib.Check(PID, tier, seed)
    quick = tier == "quick"
    d = os.path.join(VERIF, "spec", "data")
    vlib.tlc_check(chk, "UnitMapBucket: hash bucket as coded (locked map/unmap with tombstone reuse, lock-free lookup), exhaustive",
                   os.path.join(d, "UnitMapBucket.tla"), os.path.join(d, "UnitMapBucketMC.cfg" if quick else "UnitMapBucketMC3.cfg"), timeout=1200)
    r = vlib.tlc_check(chk, "UnitMapBucket with free_unit before unmap (must be violated)", os.path.join(d, "UnitMapBucket.tla"),
                       os.path.join(d, "UnitMapBucketEarly.cfg"), timeout=300, expect="violation")
    if not r["violated"]:
        raise vlib.Broken("the free-before-unmap variant of UnitMapBucket is not rejected: the invariants are vacuous")
    optsets = [("nes=%d" % n, "coll=%d" % c, "fail=%d" % f, "csched=%d" % s) for n in (0, 1, 2) for (c, f, s) in ((1, 0, 0), (1, 1, 0), (1, 1, 1), (0, 1, 1), (1, 0, 1))]
    vlib.history_check(chk, "d_upool", ["umap"], "H_UnitMap", quick, seed, nseeds_quick=100, nseeds_thorough=2000, optsets=optsets, free_runs=150,
                       what="call log of the user-defined pools (create_unit / free_unit / push / pop), lookups and association changes are not explained by the unit-map specification",
                       env={"ABTV_BUDGET": "3000000"})
    chk.assumptions += ["the pools' own call log is the observation: unit handles are identified by a fresh id per create_unit call, addresses are reused at once (tombstone reuse in the hash table)",
                        "coll=1: all unit handles fall into three of the 256 hash buckets",
                        "lookups of other work units are made only for units whose association is not changing (blocked 'static' units), as the API requires a live unit",
                        "pop policies: FIFO, or a random one of the 2 / 3 oldest (any order without starving a unit for ever)",
                        "sequentially consistent interleavings (serialized mode); free-running executions in the thorough tier"]
    return chk.finish()


def replay(path):
    return vlib.generic_replay(PID, "H_UnitMap", path)
