"""C20 -- configuration maps and textual settings: TLC as oracle evaluator of the
executable TLA+ definitions (spec/func) over records produced by the real parsers."""
import os, re, json, itertools, random, subprocess, shutil
import vlib
from vlib import VERIF
PID = "C20"
SPEC = os.path.join(VERIF, "spec", "func")
RUNCFG = ".EnvClamp.run.%d.cfg" % os.getpid()   # (per process: several runs of this check may overlap)


def hexs(s):
    return s.encode("latin1").hex()


def run_func(exe, mode, arg, out, env=None, extra=()):
    e = dict(os.environ, ABTV_OUT=out, ABTV_MODE="off",
             ASAN_OPTIONS="abort_on_error=1:detect_leaks=0:handle_abort=0",
             UBSAN_OPTIONS="halt_on_error=1:abort_on_error=1:print_stacktrace=1")
    if env:
        e.update(env)
    r = subprocess.run([exe, mode, arg] + list(extra), env=e, capture_output=True, text=True, timeout=600, errors="replace")
    return r


def oracle(chk, name, module, cfg, out, what, keyprefix):
    res = vlib.tlc(os.path.join(SPEC, module), os.path.join(SPEC, cfg), workers=1, env={"TRACE": out}, timeout=900)
    m = re.search(r'"BAD",\s*\{([^}]*)\}', res["out"])
    n = re.search(r'"NRECS", (\d+)', res["out"])
    if not m or not n:
        raise vlib.Broken("oracle evaluation %s did not complete:\n%s" % (name, res["out"][-2000:]))
    nrec = int(n.group(1))
    chk.evaluations += nrec
    chk.extra.setdefault("oracle_records", {})[name] = nrec
    bad = [int(x) for x in m.group(1).replace(" ", "").split(",") if x]
    if bad:
        evs = vlib.read_ndjson(out)
        for i in bad[:5]:
            e = evs[i - 1]
            s = bytes(e.get("s", [])).decode("latin1")
            chk.violation("%s:%s" % (keyprefix, hexs(s)), "%s: input %r gave %s" % (what, s, json.dumps({k: v for k, v in e.items() if k not in ("q", "a", "s")})),
                          replay_content=json.dumps(e) + "\n")
    return nrec, bad


def atoi_inputs(quick, rng):
    alpha = [' ', '+', '-', '0', '1', '9', 'x']
    ins = []
    for L in range(0, 6 if quick else 7):
        for t in itertools.product(alpha, repeat=L):
            ins.append("".join(t))
    lims = [2**31 - 1, 2**31, 2**32 - 1, 2**32, 2**63 - 1, 2**63, 2**64 - 1, 2**64, 10**19, 10**20, 10**25]
    for v in lims:
        for d in (-2, -1, 0, 1, 2):
            for sign in ("", "-", "+", "--", " \t"):
                for suffix in ("", "x", " 1", "-"):
                    ins.append("%s%d%s" % (sign, v + d, suffix))
                ins.append(sign + "000" + str(v + d))
    for _ in range(500 if quick else 5000):
        n = rng.choice(lims) + rng.randrange(-1000, 1000)
        ins.append(rng.choice(["", "-", "+", "  ", "+-"]) + str(max(n, 0)) + rng.choice(["", "", "k", " "]))
    return ins


def aff_inputs(quick, rng):
    alpha = ['0', '1', '2', '+', '-', ' ', '{', '}', ':', ',']
    ins = []
    for L in range(0, 5 if quick else 6):
        for t in itertools.product(alpha, repeat=L):
            ins.append("".join(t))
    doc = ["{0},{1},{2},{3},{4},{5},{6},{7},{8},{9},{10},{11}", "0,1,2,3,4,5,6,7,8,9,10,11", "{0}:12:1", "{0}:12", "0:12",
           "{6}:6:1,{0}:6:1", "6:6,0:6", "6:12", "{0}:3:4", "0:3:4", "{0}:3:4,{1}:3:4,{2}:3:4,{3}:3:4", "{0,1,2}:4:3", "{0:3}:4:3",
           "{0:3:1}:4:3", "{0,4,8},{1,5,9},{2,6,10},{3,7,11}", "{0:3:4}:4:1", "{1:2:3}:3:-2,1", "{-2:3:-2}:2:-4",
           " 1 :  +2 , { -1 : \r 2\n:2}\n", "{1:2:3}:3:2", "3:4:-1,-1", "+ 1", "1:1:1:1", "{1,2,}", "{{2:3}}", "{1:0}", "1:-2", "{}",
           "++1", "+-+-1", "-9:1:-9", "{0:4}:3:4", "{1,}", "0:1048575", "0:1048576", "{0:1048576}"]
    ins += doc
    ins += aff_grammar_inputs(1500 if quick else 20000, rng)
    for d in doc:
        for _ in range(8 if quick else 60):
            if not d:
                continue
            i = rng.randrange(len(d))
            c = rng.choice(alpha)
            ins.append(rng.choice([d[:i] + c + d[i:], d[:i] + d[i + 1:], d[:i] + c + d[i + 1:]]))
    return ins


def aff_grammar_inputs(n, rng):
    """random sentences of the documented grammar: intervals with and without count / stride, several of them
    inside one pair of braces, braces with their own count / stride"""
    def num(neg=False):
        v = rng.choice([0, 1, 2, 3, 4, 5, 7, 11])
        return ("-" if neg and rng.random() < 0.3 else "") + str(v)

    def interval():
        k = rng.randrange(4)
        if k == 0:
            return num()
        if k == 1:
            return "%s:%s" % (num(), rng.choice(["1", "2", "3", "4"]))
        return "%s:%s:%s" % (num(), rng.choice(["1", "2", "3"]), rng.choice(["1", "2", "3", "-1", "-2", "4"]))

    def item():
        if rng.random() < 0.55:
            body = "{" + ",".join(interval() for _ in range(rng.choice([1, 1, 2, 2, 3]))) + "}"
            k = rng.randrange(3)
            if k == 1:
                body += ":" + rng.choice(["1", "2", "3"])
            elif k == 2:
                body += ":%s:%s" % (rng.choice(["1", "2", "3"]), rng.choice(["1", "2", "4", "-1", "-3"]))
            return body
        return interval()
    out = []
    for _ in range(n):
        t = ",".join(item() for _ in range(rng.choice([1, 1, 2, 3])))
        if rng.random() < 0.15:
            i = rng.randrange(len(t) + 1)
            t = t[:i] + " " + t[i:]
        out.append(t)
    return out


def envg_lines(quick, rng):
    M = 1 << 20
    TS = ["-", "512", "1000", "16384", "65536", str(M), str(3 * M), str(16 * M), str(100 * M)]
    SP = ["-", "1", "4096", str(M), str(8 * M), str(64 * M), str(200 * M)]
    PG = ["-", "1", "4096", "5000", str(M), str(3 * M)]
    MS = ["-", "0", "1", "2", "3", "8", "1000", "5000"]
    MD = ["-", "0", "1", "7", "4096", "5001"]
    HP = ["-", "1", "4096", str(2 * M), str(5 * M)]
    lines = []
    for ts in TS:                      # every pair (stack size, stack page size): the minimum of the second depends on the first
        for sp in SP:
            lines.append(" ".join([ts, sp, "-", "-", "-", "-"]))
            lines.append(" ".join([ts, sp, rng.choice(PG), rng.choice(MS), rng.choice(MD), rng.choice(HP)]))
    for ts in TS:
        for ms in MS:
            lines.append(" ".join([ts, "-", "-", ms, "-", "-"]))
    for _ in range(600 if quick else 8000):
        def r(lst):
            return rng.choice(lst) if rng.random() < 0.6 else str(rng.randrange(0, rng.choice([10, 5000, 1 << 20, 1 << 28])))
        lines.append(" ".join([r(TS), r(SP), r(PG), r(MS), r(MD), r(HP)]))
    return lines


def aff_big_inputs(rng):
    big = ["99999999999", "2147483647", "2147483648", "-2147483648", "-2147483649", "2147483647:2:1", "2147483647:3:2147483647",
           "{2147483647:2:1}", "{1:2:2147483647}:3:2147483647", "-2147483647:3:-2147483647", "{0:1048575:2047}", "0:1048575:2048",
           "{2000000000:3:100000000}:4:100000000", "1:99999999999", "1:2:99999999999", "{1}:2:-99999999999", "0:1000000:4000"]
    for _ in range(60):
        big.append("%s%d:%d:%s%d" % (rng.choice(["", "-", "{"]), rng.randrange(10**12), rng.randrange(1, 50), rng.choice(["", "-"]), rng.randrange(10**11)))
    return big


ENV_VARS = ["MAX_NUM_XSTREAMS", "KEY_TABLE_SIZE", "SYS_PAGE_SIZE", "THREAD_STACKSIZE", "SCHED_STACKSIZE", "SCHED_EVENT_FREQ", "SCHED_SLEEP_NSEC"]


def env_lines(quick, rng):
    strs = ["0", "1", "2", "3", "5", "63", "64", "65", "100", "511", "512", "513", "1000", "4095", "4096", "4097", "16384", "65537",
            "1000000", "123456789", "-1", "-0", "+7", "  12", "12abc", "abc", "x", "+", "-", "99999999999999999999", "18446744073709551615",
            "9223372036854775807", "9223372036854775808", "4294967295", "2147483647", "2147483648", "1073741823", "1073741824", " 33 ", "0x10",
            "1e3", "007", "--8", "+-9"]
    for _ in range(60 if quick else 1500):
        strs.append(rng.choice(["", "", "+", "-", " "]) + str(rng.randrange(0, rng.choice([10, 1000, 100000, 999999999]))) + rng.choice(["", "", "z"]))
    lines = []
    for v in ENV_VARS:
        lines.append(v + " -")
        for s in strs:
            lines.append(v + " " + hexs(s))
    return lines


def run(tier, seed):
    chk = vlib.Check(PID, tier, seed)
    quick = tier == "quick"
    rng = random.Random(seed)
    sdir = vlib.scratch("c20")
    try:
        vlib.tlc_check(chk, "CfgMap abstract map, exhaustive (3 colliding keys)", os.path.join(SPEC, "CfgMap.tla"), os.path.join(SPEC, "CfgMapMC.cfg"), timeout=300)
        exe = vlib.build_driver("d_func")
        ncores = str(os.cpu_count())
        with open(os.path.join(SPEC, "EnvClamp.cfg")) as f:
            cfgtxt = f.read()
        envcfg = os.path.join(sdir, "EnvClamp.cfg")
        open(envcfg, "w").write(re.sub(r"NCores = \d+", "NCores = " + ncores, cfgtxt))
        shutil.copy(envcfg, os.path.join(SPEC, RUNCFG))
        # 1. numeric parser
        ins = atoi_inputs(quick, rng)
        fin, out = os.path.join(sdir, "atoi.in"), os.path.join(sdir, "atoi.ndjson")
        open(fin, "w").write("\n".join(hexs(s) for s in ins) + "\n")
        r = run_func(exe, "atoi", fin, out)
        if r.returncode != 0:
            chk.violation("atoi:crash", "numeric parser crashed (rc=%d): %s" % (r.returncode, r.stderr[-300:]), replay_content=r.stderr)
        else:
            oracle(chk, "atoi", "AtoiCheck.tla", "OneState.cfg", out, "ABTU_ato* result differs from the specification (saturation / sign / junk handling)", "atoi")
            chk.distinct.update("atoi:" + s for s in ins)
        # 2. affinity grammar
        ins = aff_inputs(quick, rng)
        fin, out = os.path.join(sdir, "aff.in"), os.path.join(sdir, "aff.ndjson")
        open(fin, "w").write("\n".join(hexs(s) for s in ins) + "\n")
        r = run_func(exe, "aff", fin, out)
        if r.returncode != 0:
            chk.violation("aff:crash", "affinity parser crashed (rc=%d): %s" % (r.returncode, r.stderr[-300:]), replay_content=r.stderr)
        else:
            oracle(chk, "affinity", "Affinity.tla", "OneState.cfg", out, "ABT_SET_AFFINITY acceptance / expansion differs from the documented grammar", "aff")
            chk.distinct.update("aff:" + s for s in ins)
        # 3. environment clamping
        lines = env_lines(quick, rng)
        fin, out = os.path.join(sdir, "env.in"), os.path.join(sdir, "env.ndjson")
        open(fin, "w").write("\n".join(lines) + "\n")
        r = run_func(exe, "env", fin, out)
        if r.returncode != 0:
            chk.violation("env:crash", "environment parsing crashed (rc=%d): %s" % (r.returncode, r.stderr[-300:]), replay_content=r.stderr)
        else:
            oracle(chk, "env", "EnvClamp.tla", RUNCFG, out, "environment setting not clamped / rounded / defaulted as documented", "env")
            chk.distinct.update(lines)
        # 3b. settings whose limits depend on other settings, through ABTD_env_init()
        lines = envg_lines(quick, rng)
        fin, out = os.path.join(sdir, "envg.in"), os.path.join(sdir, "envg.ndjson")
        open(fin, "w").write("\n".join(lines) + "\n")
        r = run_func(exe, "envg", fin, out)
        if r.returncode != 0:
            chk.violation("envg:crash", "ABTD_env_init crashed (rc=%d): %s" % (r.returncode, r.stderr[-300:]), replay_content=r.stderr)
        else:
            oracle(chk, "envg", "EnvDerived.tla", "OneState.cfg", out, "derived environment setting (limit depending on another setting) differs from the specification", "envg")
            chk.distinct.update("envg:" + x for x in lines)
        # 4. configuration maps: random and exhaustive operation sequences
        out = os.path.join(sdir, "cfg.ndjson")
        r = run_func(exe, "cfg", str(seed * 1000 + 1), out, extra=("300" if quick else "4000",))
        r2 = run_func(exe, "cfgx", "3" if quick else "5", out)
        if r.returncode != 0 or r2.returncode != 0:
            chk.violation("cfg:crash", "configuration object operations crashed", replay_content=r.stderr + r2.stderr)
        else:
            runs = vlib.split_runs(vlib.read_ndjson(out))
            chk.evaluations += len(runs)
            for x in runs:
                chk.distinct.add(json.dumps([[e.get(k) for k in ("e", "c", "k", "t", "v", "found")] for e in x[1:]]))
            vlib.validate_runs(chk, runs, os.path.join(SPEC, "CfgMapTrace.tla"), os.path.join(SPEC, "CfgMapTrace.cfg"), batch_events=20000,
                               what="configuration object does not behave as a map", keyfn=lambda r_: "cfg:%s:%s" % (r_[0].get("scn"), r_[0].get("seed")))
            chk.sample({"cfg_history": [{k: v for k, v in e.items() if k not in ("q", "a")} for e in runs[len(runs) // 2][:12]]})
        # 5. the same inputs plus out-of-range numbers under ASan + UBSan: no input may overflow or touch memory out of bounds
        exe_s = vlib.build_driver("d_func", variant="asan")
        big = aff_big_inputs(rng) + aff_inputs(True, rng)[-400:]
        fin, outs = os.path.join(sdir, "affbig.in"), os.path.join(sdir, "affbig.ndjson")
        open(fin, "w").write("\n".join(hexs(s) for s in big) + "\n")
        for mode, f in (("aff", fin), ("atoi", os.path.join(sdir, "atoi.in")), ("env", os.path.join(sdir, "env.in"))):
            r = run_func(exe_s, mode, f, outs)
            chk.evaluations += 1
            if r.returncode != 0:
                msg = [l for l in r.stderr.splitlines() if "runtime error" in l or "ERROR: AddressSanitizer" in l]
                chk.violation("%s:sanitizer" % mode, "undefined behaviour / memory error while parsing: %s" % (msg[:2] or r.stderr[-300:]),
                              replay_content=r.stderr[-4000:])
        chk.extra["sanitizer_inputs"] = len(big)
        chk.sample({"atoi_inputs": ["+-+-123abc", "18446744073709551616", "-2147483649"], "affinity_inputs": ["{0:3}:4:3", "1:1:1:1", "99999999999"]})
    finally:
        shutil.rmtree(sdir, ignore_errors=True)
        try:
            os.remove(os.path.join(SPEC, RUNCFG))
        except OSError:
            pass
    chk.assumptions += ["the TLA+ definitions in spec/func are the reference semantics (transcribed from the documented grammar / README.envvar)",
                        "environment values between 10^9 and the variable's maximum are not generated (TLC integers are 32-bit); limits themselves are covered through digit-sequence comparison",
                        "ASan/UBSan-instrumented build is the observer for overflow / out-of-bounds accesses"]
    return chk.finish()


def replay(path):
    print("replay: re-run ./check C20 --tier quick; the replay file holds the failing record: %s" % open(path).read()[:400])
    return run("quick", 1)
