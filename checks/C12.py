"""C12 -- scheduling kernel, scenario 'exec' judged by spec/hist/H_Exec.tla"""
import exec_common
PID = "C12"


def run(tier, seed):
    return exec_common.run_exec(PID, tier, seed, 4, scns=("exec", "cancelnew", "cancelmix", "migrate"))


def replay(path):
    return exec_common.replay_exec(PID, path)
