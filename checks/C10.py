"""C10 -- reader-writer lock"""
import os
import vlib
from vlib import VERIF
PID = "C10"
SPEC = os.path.join(VERIF, "spec", "hist")


def run(tier, seed):
    chk = vlib.Check(PID, tier, seed)
    quick = tier == "quick"
    vlib.tlc_check(chk, "H_RWLock abstract object, exhaustive", os.path.join(SPEC, "H_RWLock.tla"), os.path.join(SPEC, "H_RWLockMC.cfg"), timeout=600)
    d = os.path.join(VERIF, "spec", "sync")
    vlib.tlc_check(chk, "RWLockProto: monitor of internal mutex + condition variable + write_flag / reader_count as coded, exhaustive incl. liveness",
                   os.path.join(d, "RWLockProto.tla"), os.path.join(d, "RWLockProtoMC.cfg"), timeout=600)
    r = vlib.tlc_check(chk, "RWLockProto skipping the broadcast when the wait list looks empty (must be violated: lost wake-up)",
                       os.path.join(d, "RWLockProto.tla"), os.path.join(d, "RWLockProtoSkip.cfg"), timeout=600, expect="violation")
    if not r["violated"]:
        raise vlib.Broken("the skip-broadcast variant of RWLockProto is not rejected: the properties are vacuous")
    vlib.history_check(chk, "d_sync", ["rwlock"], "H_RWLock", quick, seed, what="rwlock history is not a history of a linearizable reader-writer lock")
    chk.assumptions += ["serialized mode explores sequentially consistent interleavings of the hooked atomic operations",
                        "scenario scripts follow a discipline under which a correct implementation terminates; a run that ends in deadlock/stuck/budget is reported as a progress violation"]
    return chk.finish()


def replay(path):
    return vlib.generic_replay(PID, "H_RWLock", path)
