"""C10 -- reader-writer lock"""
import os
import vlib
from vlib import VERIF
PID = "C10"
SPEC = os.path.join(VERIF, "spec", "hist")


def run(tier, seed):
    chk = vlib.Check(PID, tier, seed)
    quick = tier == "quick"
    vlib.tlc_check(chk, "H_RWLock abstract object, exhaustive", os.path.join(SPEC, "H_RWLock.tla"), os.path.join(SPEC, "H_RWLockMC.cfg"), timeout=600)
    vlib.history_check(chk, "d_sync", ["rwlock"], "H_RWLock", quick, seed, what="rwlock history is not a history of a linearizable reader-writer lock")
    chk.assumptions += ["serialized mode explores sequentially consistent interleavings of the hooked atomic operations",
                        "scenario scripts follow a discipline under which a correct implementation terminates; a run that ends in deadlock/stuck/budget is reported as a progress violation"]
    return chk.finish()


def replay(path):
    return vlib.generic_replay(PID, "H_RWLock", path)
