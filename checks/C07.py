"""C07 -- built-in pools are linearizable queues."""
import os, sys, json
import vlib
from vlib import VERIF

SPEC = os.path.join(VERIF, "spec")
PID = "C07"


def configs():
    out = []
    for kind in (0, 1, 2):
        for access in (0, 1, 2, 3, 4):
            for shape in (0, 1):
                if shape == 1 and access == 0:
                    continue
                out.append(("kind=%d" % kind, "access=%d" % access, "shape=%d" % shape))
        out.append(("kind=%d" % kind, "access=4", "shape=3"))
    return out


def run(tier, seed):
    chk = vlib.Check(PID, tier, seed)
    quick = tier == "quick"
    # 1. the abstract object and the protocol model, exhaustively
    vlib.tlc_check(chk, "H_Queue(2 threads,3 units)", os.path.join(SPEC, "hist", "H_Queue.tla"),
                   os.path.join(SPEC, "hist", "H_QueueMC.cfg"), timeout=300)
    vlib.tlc_check(chk, "PoolQueue MC1 (2 thr, 2 units, FIFO) + refinement of H_Queue",
                   os.path.join(SPEC, "data", "PoolQueue.tla"), os.path.join(SPEC, "data", "PoolQueueMC1.cfg"), timeout=300)
    vlib.tlc_check(chk, "PoolQueue liveness (every call returns, WF)",
                   os.path.join(SPEC, "data", "PoolQueue.tla"), os.path.join(SPEC, "data", "PoolQueueLive.cfg"), timeout=300)
    if not quick:
        vlib.tlc_check(chk, "PoolQueue MC2 (3 thr, 3 units, deque) + refinement of H_Queue",
                       os.path.join(SPEC, "data", "PoolQueue.tla"), os.path.join(SPEC, "data", "PoolQueueMC2.cfg"), timeout=1500)
    # 2. recorded histories of the real pools against H_Queue
    exe = vlib.build_driver("d_pool")
    nseeds = 60 if quick else 1500
    # (the single-producer/single-consumer access mode gets four times the seeds: whether the implementation chosen for it
    #  tolerates a producer and a consumer on different threads shows only in a few percent of the two-actor schedules)
    jobs = [dict(exe=exe, scn="pool", seed0=seed * 100000 + 1, count=nseeds * (4 if "access=1" in c else 1), opts=c) for c in configs()]
    runs = vlib.sweep(jobs)
    if not quick:
        fjobs = [dict(exe=exe, scn="pool", seed0=seed * 100000 + 50001, count=300, opts=c, mode="free",
                      env={"ABTV_PERTURB": "1"}) for c in configs()]
        runs += vlib.sweep(fjobs)
    chk.evaluations = len(runs)
    done, abnormal = vlib.classify_runs(chk, runs, stuck_is_violation=True)
    for r in done:
        chk.distinct.add(json.dumps([(e.get("t"), e.get("op"), e.get("us"), e.get("r")) for e in r if e.get("e") in ("Call", "Ret")]))
    vlib.validate_runs(chk, done, os.path.join(SPEC, "hist", "H_QueueTrace.tla"),
                       os.path.join(SPEC, "hist", "H_QueueTrace.cfg"), batch_events=6000,
                       what="pool history is not linearizable / queue order, exactly-once or quiescent size violated")
    if done:
        chk.sample({"history": [e for e in done[0] if e.get("e") in ("Pool", "Call", "Ret", "Quiet")][:24]})
    chk.extra["runs_by_verdict"] = {"done": len(done), "abnormal": len(abnormal)}
    chk.extra["pool_configs"] = len(configs())
    chk.assumptions += ["sequentially consistent interleaving of the hooked atomic operations (serialized mode)",
                        "TLC bounds: 2-3 threads, 2-3 units, <=2 calls per thread for the protocol model",
                        "histories: <=3 concurrent callers, <=5 calls each, 6 units"]
    return chk.finish()


def replay(path):
    chk = vlib.Check(PID, "quick", 0)
    runs = vlib.split_runs(vlib.read_ndjson(path))
    done, _ = vlib.classify_runs(chk, runs)
    vlib.validate_runs(chk, done, os.path.join(SPEC, "hist", "H_QueueTrace.tla"),
                       os.path.join(SPEC, "hist", "H_QueueTrace.cfg"))
    for k, w, rp in chk.violations:
        print("VIOLATION property=%s replay=%s" % (PID, path))
        print("  " + w)
    return 1 if chk.violations else 0
