"""C13 -- migration: scenarios 'migrate' / 'migrace' of d_kernel judged by H_Exec, the request protocol model MigProto,
and migration into user-defined pools whose create_unit fails transiently (d_upool, judged by H_UnitMap)"""
import exec_common, vlib
PID = "C13"


def pre(chk):
    exec_common.mig_proto_model(chk)
    quick = chk.tier == "quick"
    # an accepted request is performed exactly once also when the target pool's create_unit fails at first:
    # the request stays pending and is retried, the callback runs once, in the requested pool
    vlib.history_check(chk, "d_upool", ["umap"], "H_UnitMap", quick, chk.seed, nseeds_quick=80, nseeds_thorough=1000,
                       optsets=[("nes=0", "coll=1", "fail=1", "csched=0"), ("nes=1", "coll=1", "fail=1", "csched=0")], free_runs=0,
                       what="migration into a user-defined pool (create_unit failing transiently): request lost, callback not exactly once per performed migration, or unit map inconsistent",
                       env={"ABTV_BUDGET": "1500000"})


def run(tier, seed):
    return exec_common.run_exec(PID, tier, seed, 5, scns=("migrate", "migrace"), pre=pre)


def replay(path):
    evs = vlib.read_ndjson(path)
    if evs and evs[0].get("drv") == "d_upool":
        return vlib.generic_replay(PID, "H_UnitMap", path)
    return exec_common.replay_exec(PID, path)
