"""C13 -- scheduling kernel scenarios judged by spec/hist/H_Exec.tla"""
import exec_common
PID = "C13"


def run(tier, seed):
    return exec_common.run_exec(PID, tier, seed, 5, scns=("migrate", "migrace"), pre=exec_common.mig_proto_model)


def replay(path):
    return exec_common.replay_exec(PID, path)
