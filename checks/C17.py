"""C17 -- execution-stream ranks are unique and the stream life cycle is repeatable"""
import os, json, hashlib
import vlib
from vlib import VERIF
PID = "C17"
SPEC = os.path.join(VERIF, "spec", "data")


def run(tier, seed):
    chk = vlib.Check(PID, tier, seed)
    quick = tier == "quick"
    vlib.tlc_check(chk, "RankList: abstract rank set + the doubly linked list as coded, exhaustive (4 streams, ranks 0..5)",
                   os.path.join(SPEC, "RankList.tla"), os.path.join(SPEC, "RankListMC.cfg"), timeout=600)
    exe = vlib.build_driver("d_stream")
    n = 400 if quick else 6000
    per = 50 if quick else 250
    jobs = []
    for scn in ("ranks", "rankconc"):
        for off in range(0, n, per):
            jobs.append(dict(exe=exe, scn=scn, seed0=seed * 1000000 + 1 + off, count=min(per, n - off), opts=(), env={"ABTV_BUDGET": "600000"}))
    # free-running stress: 8 external threads create/join/free streams at full speed; plain (non-atomic) bookkeeping that is
    # updated outside its lock cannot be interleaved by the serializing runtime, only by real threads
    for k in range(4 if quick else 16):
        jobs.append(dict(exe=exe, scn="rankstress", seed0=seed * 1000000 + 900001 + k, count=1, opts=("rounds=%d" % (30 if quick else 80), "pairs=150"),
                         mode="free", env={}, timeout=600))
    # the life cycle repeated hundreds of times, sequentially, with the allocation ledger on: nothing may pile up
    for k in range(2 if quick else 6):
        jobs.append(dict(exe=exe, scn="cycle", seed0=seed * 1000000 + 950001 + k, count=1, opts=("warm=%d" % (40 + 7 * k), "n=%d" % (400 if quick else 1500)),
                         mode="free", env={}, timeout=600))
    if not quick:
        for scn in ("ranks", "rankconc"):
            jobs.append(dict(exe=exe, scn=scn, seed0=seed * 1000000 + 800001, count=300, opts=(), mode="free", env={"ABTV_PERTURB": "1"}, timeout=900))
    runs = vlib.sweep(jobs)
    chk.evaluations = len(runs)
    done, abnormal = vlib.classify_runs(chk, runs, stuck_is_violation=True)
    for r in done:
        chk.distinct.add(hashlib.sha1(json.dumps([[e.get(k) for k in sorted(e) if k not in ("q", "a", "steps")] for e in r[1:]]).encode()).hexdigest())
    vlib.validate_runs(chk, done, os.path.join(SPEC, "RankListTrace.tla"), os.path.join(SPEC, "RankListTrace.cfg"), batch_events=6000,
                       what="stream history violates rank uniqueness / smallest-unused / reuse / get_num / life cycle")
    if done:
        chk.sample({"history": [{k: v for k, v in e.items() if k not in ("q",)} for e in done[0][:25]]})
    # replacing the main scheduler (from the primary ULT and from ULTs in any pool of a multi-pool scheduler) keeps the
    # stream and the caller running: the kernel scenario `replace`, judged by the life-cycle specification H_Exec
    vlib.history_check(chk, "d_kernel", ["replace"], "H_Exec", quick, seed, nseeds_quick=300, nseeds_thorough=3000,
                       optsets=(("nes=0", "cfg=0"),), free_runs=0, env={"ABTV_BUDGET": "400000"},
                       what="after ABT_xstream_set_main_sched[_basic] the caller or another unit is lost / runs twice / the stream cannot be joined")
    vlib.history_check(chk, "d_kernel", ["rejoin"], "H_Exec", quick, seed, nseeds_quick=200, nseeds_thorough=2000,
                       optsets=(("nes=1", "cfg=0"), ("nes=1", "cfg=3"), ("nes=1", "cfg=5")), free_runs=0, env={"ABTV_BUDGET": "400000"},
                       what="a join requested before the joined stream replaced its main scheduler never returns / returns early")
    chk.extra["runs_by_verdict"] = {"done": len(done), "abnormal": len(abnormal)}
    chk.assumptions += ["sequential histories are validated deterministically; the concurrent scenario (3 external creators) by linearizability search",
                        "the linked-list model assumes the primary stream owns rank 0 for the whole run (checked invariant HeadIsPrimary); "
                        "without it the stale p_prev of a head insertion would corrupt the list"]
    return chk.finish()


def replay(path):
    evs = vlib.read_ndjson(path)
    if evs and evs[0].get("scn") in ("replace", "rejoin"):
        return vlib.generic_replay(PID, "H_Exec", path)
    chk = vlib.Check(PID, "quick", 0)
    runs = vlib.split_runs(evs)
    done, _ = vlib.classify_runs(chk, runs)
    vlib.validate_runs(chk, done, os.path.join(SPEC, "RankListTrace.tla"), os.path.join(SPEC, "RankListTrace.cfg"))
    for k, w, rp in chk.violations:
        print("VIOLATION property=%s replay=%s" % (PID, path))
        print("  " + w)
    return 1 if chk.violations else 0
