"""C09 -- eventuals and futures become ready exactly once and wake every waiter"""
import os
import vlib
from vlib import VERIF
PID = "C09"
SPEC = os.path.join(VERIF, "spec", "hist")


def run(tier, seed):
    chk = vlib.Check(PID, tier, seed)
    quick = tier == "quick"
    vlib.tlc_check(chk, "H_Eventual abstract object, exhaustive", os.path.join(SPEC, "H_Eventual.tla"), os.path.join(SPEC, "H_EventualMC.cfg"), timeout=600)
    vlib.tlc_check(chk, "H_Future abstract object, exhaustive", os.path.join(SPEC, "H_Future.tla"), os.path.join(SPEC, "H_FutureMC.cfg"), timeout=600)
    d = os.path.join(VERIF, "spec", "sync")
    vlib.tlc_check(chk, "EventualProto: set / wait under the object's lock as coded (value read outside the critical section), exhaustive incl. liveness",
                   os.path.join(d, "EventualProto.tla"), os.path.join(d, "EventualProtoMC.cfg"), timeout=600)
    r = vlib.tlc_check(chk, "EventualProto reading `ready` before taking the lock (must be violated: two successful sets)",
                       os.path.join(d, "EventualProto.tla"), os.path.join(d, "EventualProtoEarly.cfg"), timeout=600, expect="violation")
    if not r["violated"]:
        raise vlib.Broken("the ready-before-lock variant of EventualProto is not rejected: the invariants are vacuous")
    vlib.tlc_check(chk, "EventualProto with a consumer that recycles the eventual (test, reset, wait for the next set), exhaustive",
                   os.path.join(d, "EventualProto.tla"), os.path.join(d, "EventualProtoRecycle.cfg"), timeout=600)
    r = vlib.tlc_check(chk, "EventualProto releasing the lock before waking the waiters (must be violated: reset with waiters, stale wake-up)",
                       os.path.join(d, "EventualProto.tla"), os.path.join(d, "EventualProtoUnlockFirst.cfg"), timeout=600, expect="violation")
    if not r["violated"]:
        raise vlib.Broken("the unlock-before-broadcast variant of EventualProto is not rejected: the invariants are vacuous")
    for cfg, what in (("FutureProtoMC.cfg", "3 setters on 2 compartments, 2 waiters, a tester"), ("FutureProtoMC3.cfg", "4 setters on 3 compartments, 2 waiters, a tester")):
        vlib.tlc_check(chk, "FutureProto: set / wait / lock-free test as coded (callback before the counter is published), exhaustive incl. liveness, %s" % what,
                       os.path.join(d, "FutureProto.tla"), os.path.join(d, cfg), timeout=600)
    for cfg, what in (("FutureProtoPublishEarly.cfg", "counter published before the callback runs"), ("FutureProtoCheckUnlocked.cfg", "wait reading the counter before taking the lock")):
        r = vlib.tlc_check(chk, "FutureProto with the %s (must be violated)" % what, os.path.join(d, "FutureProto.tla"), os.path.join(d, cfg), timeout=600, expect="violation")
        if not r["violated"]:
            raise vlib.Broken("the variant of FutureProto (%s) is not rejected: the properties are vacuous" % what)
    vlib.history_check(chk, "d_sync", ["eventual"], "H_Eventual", quick, seed,
                       what="eventual history is not a history of a set-once/wait/test/reset object")
    vlib.history_check(chk, "d_sync", ["future"], "H_Future", quick, seed,
                       what="future history violates ready-at-Nth-set / callback exactly once before waiters / late set fails")
    chk.assumptions += ["serialized mode explores sequentially consistent interleavings of the hooked atomic operations",
                        "a run that ends in deadlock/stuck/budget is a progress violation (every scenario contains enough sets)"]
    return chk.finish()


def replay(path):
    evs = vlib.read_ndjson(path)
    mod = "H_Future" if any(e.get("e") == "Future" for e in evs) else "H_Eventual"
    return vlib.generic_replay(PID, mod, path)
