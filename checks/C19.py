"""C19 -- timed waits respect their deadline and never damage the waiter queue"""
import os, json
import vlib
from vlib import VERIF
PID = "C19"
SPEC = os.path.join(VERIF, "spec", "hist")


def run(tier, seed):
    chk = vlib.Check(PID, tier, seed)
    quick = tier == "quick"
    vlib.tlc_check(chk, "H_Cond abstract object (timed + untimed waiters), exhaustive", os.path.join(SPEC, "H_Cond.tla"), os.path.join(SPEC, "H_CondMC.cfg"), timeout=600)
    d = os.path.join(VERIF, "spec", "sync")
    vlib.tlc_check(chk, "Waitlist: the wait list with partially maintained back pointers as coded (signal / broadcast / time-out removal), exhaustive",
                   os.path.join(d, "Waitlist.tla"), os.path.join(d, "WaitlistMC4.cfg" if quick else "WaitlistMC.cfg"), timeout=900)
    r = vlib.tlc_check(chk, "Waitlist with a wrong back-pointer repair (must be violated)", os.path.join(d, "Waitlist.tla"), os.path.join(d, "WaitlistBroken.cfg"),
                       timeout=300, expect="violation")
    if not r["violated"]:
        raise vlib.Broken("the broken variant of Waitlist is not rejected: the invariants are vacuous")
    dd = os.path.join(VERIF, "spec", "data")
    vlib.tlc_check(chk, "PoolWait: blocking pop of the FIFO_WAIT pool (mutex + condition variable, push signals, woken consumer pops or retries) as coded, "
                   "exhaustive incl. liveness (3 consumers, 3 pushes)", os.path.join(dd, "PoolWait.tla"), os.path.join(dd, "PoolWaitMC.cfg"), timeout=300)
    r = vlib.tlc_check(chk, "PoolWait signalling only on the empty -> non-empty transition (must be violated: lost wake-up)", os.path.join(dd, "PoolWait.tla"),
                       os.path.join(dd, "PoolWaitLost.cfg"), timeout=300, expect="violation")
    if not r["violated"]:
        raise vlib.Broken("the signal-only-when-empty variant of PoolWait is not rejected: the invariant is vacuous")
    vlib.history_check(chk, "d_sync", ["condtimed"], "H_Cond", quick, seed,
                       what="timed wait history: TIMEDOUT before the deadline or after being signalled, SUCCESS without a signal, or mutex not held at return")
    # blocking pool pops: single consumer, every unit is pushed while it waits
    optsets = [("kind=%d" % k, "access=%d" % a, "shape=2") for k in (0, 1, 2) for a in (1, 2, 3, 4)]
    vlib.history_check(chk, "d_pool", ["pool"], "H_Queue", quick, seed, nseeds_quick=60, nseeds_thorough=1000, optsets=optsets,
                       what="blocking pop lost a unit pushed while it waited (or the pool history is not a queue history)")
    chk.assumptions += ["virtual clock: clock_gettime/futex/cond time-outs are driven by the runtime, every deadline order is producible",
                        "the signaller waits for the SUCCESS return each signal must cause, so a consumed or lost signal shows as a stuck run"]
    return chk.finish()


def replay(path):
    evs = vlib.read_ndjson(path)
    mod = "H_Queue" if any(e.get("e") == "Pool" for e in evs) else "H_Cond"
    return vlib.generic_replay(PID, mod, path)
