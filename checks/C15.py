"""C15 -- descriptors and stacks are exclusively owned, conserved; any stack size works"""
import os
import vlib
from vlib import VERIF
PID = "C15"
SPEC = os.path.join(VERIF, "spec", "hist")


def run(tier, seed):
    chk = vlib.Check(PID, tier, seed)
    quick = tier == "quick"
    vlib.tlc_check(chk, "SyncLifo: tagged-pointer LIFO protocol, exhaustive (ABA-freedom, conservation)", os.path.join(VERIF, "spec", "data", "SyncLifo.tla"),
                   os.path.join(VERIF, "spec", "data", "SyncLifoMC.cfg"), timeout=900)
    d = os.path.join(VERIF, "spec", "data")
    vlib.tlc_check(chk, "MemPoolLocal: local bucket arrays over the global pool of full buckets as coded (alloc / free / bucket hand-over), 2 local pools, exhaustive",
                   os.path.join(d, "MemPoolLocal.tla"), os.path.join(d, "MemPoolLocalMC.cfg"), timeout=900)
    vlib.tlc_check(chk, "MemPoolLocal: one local pool with page growth, exhaustive", os.path.join(d, "MemPoolLocal.tla"), os.path.join(d, "MemPoolLocalMC1.cfg"), timeout=900)
    r = vlib.tlc_check(chk, "MemPoolLocal with a wrong bucket shift (must be violated)", os.path.join(d, "MemPoolLocal.tla"), os.path.join(d, "MemPoolLocalBadShift.cfg"),
                       timeout=300, expect="violation")
    if not r["violated"]:
        raise vlib.Broken("the bad-shift variant of MemPoolLocal is not rejected: the invariants are vacuous")
    vlib.tlc_check(chk, "PartialBucket: merging the incomplete buckets that destroyed local pools hand back (append / cut a complete bucket / remainder) as coded, exhaustive",
                   os.path.join(d, "PartialBucket.tla"), os.path.join(d, "PartialBucketMC.cfg"), timeout=300)
    r = vlib.tlc_check(chk, "PartialBucket with the remainder counted with the wrong sign (defect D6; must be violated)", os.path.join(d, "PartialBucket.tla"),
                       os.path.join(d, "PartialBucketSignBug.cfg"), timeout=300, expect="violation")
    if not r["violated"]:
        raise vlib.Broken("the sign-bug variant of PartialBucket is not rejected: the invariants are vacuous")
    optsets = [("nes=%d" % n, "mem=%d" % m) for m in (0, 1, 2, 3) for n in (0, 1, 2)]
    # tasklet descriptors freed by an external thread, and live ones next to memory-pool stacks (tiny buckets)
    optsets += [("nes=%d" % n, "mem=%d" % m, "desc=1") for m in (2, 3) for n in (0, 1, 2)]
    # stack guard pages (mprotect): a freed ULT leaves no protected page behind, also on user-supplied stacks
    optsets += [("nes=%d" % n, "mem=%d" % m, "guard=%d" % g) for (m, g) in ((0, 1), (2, 1), (1, 2)) for n in (0, 1, 2)]
    vlib.history_check(chk, "d_mem", ["stacks"], "H_Alloc", quick, seed, nseeds_quick=100, nseeds_thorough=1500, optsets=optsets, free_runs=100,
                       what="stack ranges overlap / smaller than requested / misaligned / user stack not used as given / stack contents damaged / allocation ledger unbalanced",
                       env={"ABTV_BUDGET": "4000000"})
    vlib.history_check(chk, "d_mem", ["mpool"], "H_Alloc", quick, seed, nseeds_quick=1500, nseeds_thorough=20000, optsets=[()], free_runs=2000,
                       what="memory pool handed out a block twice / to two owners, misaligned, damaged, or pages leaked",
                       env={"ABTV_BUDGET": "4000000"})
    # free-running churn: plain (non-atomic) local-pool state can only be raced by real threads
    exe = vlib.build_driver("d_mem")
    jobs = [dict(exe=exe, scn="churn", seed0=seed * 1000000 + 700001 + 10 * k, count=5 if quick else 20, opts=("rounds=%d" % (2000 if quick else 6000),), mode="free", env={}, timeout=600)
            for k in range(4 if quick else 12)]
    runs = vlib.sweep(jobs)
    chk.evaluations += len(runs)
    done, abnormal = vlib.classify_runs(chk, runs, stuck_is_violation=True)
    vlib.validate_runs(chk, done, os.path.join(SPEC, "H_AllocTrace.tla"), os.path.join(SPEC, "H_AllocTrace.cfg"), what="a descriptor was handed out while still in use (churn)")
    chk.extra["churn_runs"] = {"done": len(done), "abnormal": len(abnormal), "moved_between_streams": sum(1 for r in done for e in r if e.get("e") == "Churn" and e.get("moved"))}
    chk.assumptions += ["addresses are compared as ranks (order-isomorphic small integers); sizes and alignments exactly",
                        "a free() of a pointer the allocation ledger never handed out is reported as crash:invalid-free",
                        "huge-page allocation modes are not available in the sandbox: ABT_MEM_LP_ALLOC in {mmap_rp, malloc} only",
                        "stack sizes: boundary classes around 16 KiB..1 MiB (+-8, +-64, primes) and random sizes, not all values"]
    return chk.finish()


def replay(path):
    return vlib.generic_replay(PID, "H_Alloc", path)
