"""C01 -- scheduling kernel, scenario 'exec' judged by spec/hist/H_Exec.tla"""
import exec_common
PID = "C01"


def run(tier, seed):
    return exec_common.run_exec(PID, tier, seed, 1, scns=("exec", "replace", "stacked"), pre=exec_common.sched_stop_model)


def replay(path):
    return exec_common.replay_exec(PID, path)
