"""C03 -- scheduling kernel, scenario 'exec' judged by spec/hist/H_Exec.tla"""
import exec_common
PID = "C03"


def run(tier, seed):
    return exec_common.run_exec(PID, tier, seed, 2, scns=("exec", "cancelnew", "cancelmix"), pre=exec_common.join_proto_model)


def replay(path):
    return exec_common.replay_exec(PID, path)
