"""C02 -- a ULT never runs on two streams at once; its context survives every switch"""
import os
import exec_common, vlib
from vlib import VERIF
PID = "C02"


def run(tier, seed):
    return exec_common.run_exec(PID, tier, seed, 2, scns=("switch", "exec", "ryt", "replace", "ytrace"), pre=pre)


def pre(chk):
    d = os.path.join(VERIF, "spec", "core")
    vlib.tlc_check(chk, "CtxSwitch: context-switch protocol (save, switch stack, publish in the callback), exhaustive: no unit on two streams, every resume restores what was saved",
                   os.path.join(d, "CtxSwitch.tla"), os.path.join(d, "CtxSwitchMC.cfg"), timeout=600)
    # non-vacuity witness: with the old ULT published before its context is stored TLC must find a violation
    r = vlib.tlc_check(chk, "CtxSwitch with PublishEarly (must be violated)", os.path.join(d, "CtxSwitch.tla"), os.path.join(d, "CtxSwitchEarly.cfg"), timeout=300, expect="violation")
    if not r["violated"]:
        raise vlib.Broken("the early-publish variant of CtxSwitch is not rejected: the invariants are vacuous")


def replay(path):
    return exec_common.replay_exec(PID, path)
