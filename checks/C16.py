"""C16 -- work-unit-local storage: per-unit key->value map, exactly-once destructors"""
import os
import vlib
from vlib import VERIF
PID = "C16"
SPEC = os.path.join(VERIF, "spec", "hist")


def run(tier, seed):
    chk = vlib.Check(PID, tier, seed)
    quick = tier == "quick"
    vlib.tlc_check(chk, "H_Key abstract storage, exhaustive (2 units, 2 keys, 2 actors)", os.path.join(SPEC, "H_KeyMC.tla"), os.path.join(SPEC, "H_KeyMC.cfg"), timeout=600)
    d = os.path.join(VERIF, "spec", "data")
    vlib.tlc_check(chk, "KTableChain: one hash chain of a key table as coded (unlocked walk, locked re-scan and append, lock-free get), exhaustive",
                   os.path.join(d, "KTableChainMC.tla"), os.path.join(d, "KTableChainMC.cfg"), timeout=300)
    r = vlib.tlc_check(chk, "KTableChain without the re-scan under the lock (must be violated)", os.path.join(d, "KTableChainMC.tla"),
                       os.path.join(d, "KTableChainNoRescan.cfg"), timeout=300, expect="violation")
    if not r["violated"]:
        raise vlib.Broken("the no-rescan variant of KTableChain is not rejected: the invariants are vacuous")
    optsets = [("tsize=%d" % t, "nes=%d" % n) for t in (1, 2, 4, 8) for n in (0, 1, 2)]
    vlib.history_check(chk, "d_key", ["keys"], "H_Key", quick, seed, nseeds_quick=150, nseeds_thorough=2500, optsets=optsets,
                       what="key/value history: get did not return the last value set, values leaked, or a destructor was missed / repeated / called for NULL",
                       env={"ABTV_BUDGET": "600000"})
    chk.assumptions += ["every (unit, key) has a single writer (the owner for even keys, the primary ULT through ABT_thread_set_specific for odd keys), so gets are linearizable registers",
                        "sequentially consistent interleavings (serialized mode); the creation race of a unit's key table is exercised by the owner and the foreign writer on different streams"]
    return chk.finish()


def replay(path):
    return vlib.generic_replay(PID, "H_Key", path)
