"""C11 -- suspend/resume and directed switches (scenarios 'switch' and 'exec' judged by spec/hist/H_Exec.tla)"""
import exec_common
PID = "C11"


def run(tier, seed):
    return exec_common.run_exec(PID, tier, seed, 6, scns=("switch", "exec", "ryt", "replace"), pre=exec_common.suspend_resume_model)


def replay(path):
    return exec_common.replay_exec(PID, path)
