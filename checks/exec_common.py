"""Shared by C01, C03, C06, C12 (scenario 'exec' of d_kernel, judged by H_Exec)
and by C11 / C13 (scenarios 'switch' / 'migrate')."""
import os, json, hashlib
import vlib
from vlib import VERIF

SPEC = os.path.join(VERIF, "spec", "hist")


def attribute(run, line, verdict):
    """Which property does a rejected / unfinished 'exec' run speak about?
    line = 1-based index of the rejected record (None for unfinished runs)."""
    evs = run
    upto = evs[:line] if line else evs
    started = {e["u"] for e in upto if e.get("e") == "Start"}
    finished = {e["u"] for e in upto if e.get("e") in ("Finish", "Exit")}
    cancelled = {e["u"] for e in upto if e.get("e") == "Cancel"}
    scn = evs[0].get("scn", "exec")
    if line:
        ev = evs[line - 1]
        k = ev.get("e")
        if ev.get("self", 1) != 1:
            return "C11"          # a running unit reads a state other than RUNNING for itself
        if ev.get("u") in cancelled and k in ("Resumed", "Back", "Yield", "YieldTo", "Suspend", "Finish") and scn == "migrate":
            return "C12"          # a unit whose cancellation was requested runs on past its next scheduling point
        if k in ("Ctx", "Overlap") or (k == "Start" and ev.get("sp16", 0) != 0):
            return "C02"          # registers / FP control state / stack alignment
        if k == "Ledger":
            return "C12+C06"      # a resource was not released exactly once by the time ABT_finalize returned
        if k in ("MigReq", "MigRet", "MigCb", "MigCount", "MigRej") or (k == "Back" and "pool" in ev):
            return "C13"
        if k in ("Prim", "Run", "Obs"):
            return "C11"
        if k == "StateObs":
            return "C12+C11"      # a blocked unit terminated before it was resumed (its cancellation is honoured at the resume)
        if k in ("Start", "Create", "CreateRet", "Finish"):
            # a second start after revive belongs to the life cycle
            revived = {e["u"] for e in upto if e.get("e") == "Revive"}
            return "C12" if ev.get("u") in revived and k == "Start" else "C01"
        if k == "FreeRej":
            return "C03"
        if k in ("JoinRet", "FreeRet", "JoinCall", "FreeCall"):
            if ev.get("u") in cancelled:
                return "C12+C03"  # a cancelled target must still release its joiner
            if k in ("JoinRet", "FreeRet") and ev.get("u") not in finished:
                return "C03+C01"  # the join returned before the unit had run to completion
            return "C03"
        if k in ("XJoinRet", "FinalizeRet"):
            us = ev.get("us", [])
            lost = [u for u in us if u not in started and u not in cancelled]
            return "C01" if lost else "C06"
        if k in ("Blocked", "XJoinCall", "FinalizeCall"):
            return "C06"
        if k in ("Yield", "Back", "Exit", "AfterExit", "Cancel", "CancelRet", "Revive", "ReviveRet"):
            return "C12"
        if k in ("Suspend", "Resumed", "ResumeCall", "ResumeRet"):
            return "C11"
        if k == "End":
            created = {e["u"] for e in upto if e.get("e") == "Create"}
            return "C01" if (created - started - cancelled) else "C12"
        return "C01"
    # unfinished run (deadlock / stuck / budget / crash): look at what is pending
    if scn in ("migrate", "migrace"):
        created0 = {e["u"] for e in evs if e.get("e") == "Create"}
        fin0 = {e["u"] for e in evs if e.get("e") in ("Finish", "Exit")}
        xj0 = [e for e in evs if e.get("e") in ("XJoinCall", "FinalizeCall")]
        xr0 = [e for e in evs if e.get("e") in ("XJoinRet", "FinalizeRet")]
        if not verdict.startswith("crash") and created0 and created0 <= fin0 and len(xj0) > len(xr0):
            return "C06"          # every unit ran to completion; the stream join / finalize does not return
        return "C13"
    if scn == "switch":
        # a context restored wrongly usually ends in a crash
        return "C11+C02" if verdict.startswith("crash") else "C11"
    if scn == "replace":
        return "C01+C06+C11"      # the caller or another unit is lost / the stream cannot be joined after set_main_sched
    if scn in ("ryt", "ytrace"):
        return "C02+C11"          # resume_yield_to with the yielder's pool served by other streams
    if scn == "stacked":
        return "C06+C01"          # a unit of a stacked scheduler's pool is lost / the stream is not joinable
    if scn in ("xjoin", "privjoin"):
        return "C06"
    if scn == "rejoin":
        return "C17+C06"          # the join request is lost when the joined stream replaces its main scheduler
    if scn == "cancelmix":
        return "C12+C03"          # cancellation while joining / being joined
    if scn == "cancelnew":
        return "C12+C03"          # a cancelled target must release its joiner: clause of both properties
    pend_join = None
    for e in evs:
        if e.get("e") in ("JoinCall", "FreeCall"):
            pend_join = e
        elif e.get("e") in ("JoinRet", "FreeRet") and pend_join and pend_join.get("u") == e.get("u") and pend_join.get("by") == e.get("by"):
            pend_join = None
    xj = [e for e in evs if e.get("e") in ("XJoinCall", "FinalizeCall")]
    xr = [e for e in evs if e.get("e") in ("XJoinRet", "FinalizeRet")]
    created = {e["u"] for e in evs if e.get("e") == "Create"}
    susp = [e["u"] for e in evs if e.get("e") == "Suspend"]
    resumed = [e["u"] for e in evs if e.get("e") == "Resumed"]
    rescall = [e["u"] for e in evs if e.get("e") == "ResumeCall"]
    if verdict.startswith("crash") or verdict.startswith("exit"):
        if cancelled or any(e.get("e") == "Revive" for e in evs):
            return "C12"
        if len(xj) > len(xr):
            return "C06"
        if pend_join:
            return "C03"
        return "C01"
    never_started = created - started - cancelled
    for u in susp:
        if u in rescall and u not in resumed and u not in cancelled:
            return "C11"          # resumed but never ran again
    if pend_join and pend_join.get("u") in finished:
        return "C03"              # target terminated, joiner not released
    if pend_join and pend_join.get("u") in cancelled:
        return "C12+C03"
    if never_started:
        return "C01"              # a created unit is never run
    if len(xj) > len(xr) and not (created - finished - cancelled):
        return "C06"              # all work done, stream join / finalize does not return
    if len(xj) > len(xr):
        return "C06"
    return "C01"


def sched_stop_model(chk):
    """Level B: the stop test of a joined stream's scheduler against resume_and_push (C01, C06)"""
    d = os.path.join(VERIF, "spec", "core")
    vlib.tlc_check(chk, "SchedStop: stop test (is_empty, num_blocked, twice) vs suspend / resume_and_push as coded, exhaustive",
                   os.path.join(d, "SchedStop.tla"), os.path.join(d, "SchedStopMC.cfg"), timeout=600)
    for cfg, what in (("SchedStopDecFirst.cfg", "decrement-before-push"), ("SchedStopEarlyReturn.cfg", "a scheduler whose run() returns without the stop test (defect S4)")):
        r = vlib.tlc_check(chk, "SchedStop with %s (must be violated)" % what, os.path.join(d, "SchedStop.tla"), os.path.join(d, cfg), timeout=300, expect="violation")
        if not r["violated"]:
            raise vlib.Broken("the variant of SchedStop (%s) is not rejected: the invariants are vacuous" % what)


def blocked_count_model(chk):
    """Level B: the blocked counter across yield_to / suspend / resume with migration and cancellation requests (C06)"""
    d = os.path.join(VERIF, "spec", "core")
    vlib.tlc_check(chk, "BlockedCount: counter updates of the yield_to / suspend callbacks and of resume as coded, with concurrent "
                   "migration and cancellation requests, exhaustive", os.path.join(d, "BlockedCount.tla"),
                   os.path.join(d, "BlockedCountMC.cfg"), timeout=300)
    for cfg, what in (("BlockedCountSkipDec.cfg", "no decrement when the directed yield ends in a cancellation"),
                      ("BlockedCountLoadLate.cfg", "pool read after the migration was performed"),
                      ("BlockedCountIncFirst.cfg", "suspend counting before it honours the migration request")):
        r = vlib.tlc_check(chk, "BlockedCount with %s (must be violated)" % what, os.path.join(d, "BlockedCount.tla"),
                           os.path.join(d, cfg), timeout=300, expect="violation")
        if not r["violated"]:
            raise vlib.Broken("the variant of BlockedCount (%s) is not rejected: the invariants are vacuous" % what)


def mig_proto_model(chk):
    """Level B: the migration request protocol as coded (C13); the order before fix dbdaa3d is the witness"""
    d = os.path.join(VERIF, "spec", "core")
    vlib.tlc_check(chk, "MigProto: store target, set flag / clear flag, read target, move, callback as coded, exhaustive (2 requesters)",
                   os.path.join(d, "MigProto.tla"), os.path.join(d, "MigProtoMC.cfg"), timeout=300)
    r = vlib.tlc_check(chk, "MigProto clearing the flag after the move (defect S3; must be violated)", os.path.join(d, "MigProto.tla"),
                       os.path.join(d, "MigProtoClearLate.cfg"), timeout=300, expect="violation")
    if not r["violated"]:
        raise vlib.Broken("the clear-late variant of MigProto is not rejected: the invariant is vacuous")


def join_proto_model(chk):
    """Level B: the join hand-shake (REQ_JOIN, p_link, TERMINATED) as coded (C03)"""
    d = os.path.join(VERIF, "spec", "core")
    vlib.tlc_check(chk, "JoinProto: joiner / terminating ULT hand-shake as coded, exhaustive incl. termination under fairness",
                   os.path.join(d, "JoinProto.tla"), os.path.join(d, "JoinProtoMC.cfg"), timeout=300)
    r = vlib.tlc_check(chk, "JoinProto with a joiner that tests the whole request word (must be violated)", os.path.join(d, "JoinProto.tla"),
                       os.path.join(d, "JoinProtoBroken.cfg"), timeout=300, expect="violation")
    if not r["violated"]:
        raise vlib.Broken("the broken variant of JoinProto is not rejected: the invariants are vacuous")


def suspend_resume_model(chk):
    """Level B: ABT_self_suspend against ABT_thread_resume from another stream, as coded (C11)"""
    d = os.path.join(VERIF, "spec", "core")
    vlib.tlc_check(chk, "SuspendResume: suspension callback (count, publish BLOCKED) against a retrying resumer and two schedulers as coded, exhaustive incl. termination under fairness",
                   os.path.join(d, "SuspendResume.tla"), os.path.join(d, "SuspendResumeMC.cfg"), timeout=300)
    for cfg, what in (("SuspendResumeStoreEarly.cfg", "BLOCKED published before the context is saved"), ("SuspendResumeNoCheck.cfg", "a resume that does not test the state"),
                      ("SuspendResumeTermInCb.cfg", "a suspension callback that acts on a pending cancellation and goes on (= seeded C11-m7)")):
        r = vlib.tlc_check(chk, "SuspendResume with %s (must be violated: the ULT runs on two streams / BLOCKED stored over TERMINATED)" % what, os.path.join(d, "SuspendResume.tla"),
                           os.path.join(d, cfg), timeout=300, expect="violation")
        if not r["violated"]:
            raise vlib.Broken("the variant of SuspendResume (%s) is not rejected: the invariants are vacuous" % what)


def run_exec(pid, tier, seed, emphasis, scns=("exec",), pre=None):
    chk = vlib.Check(pid, tier, seed)
    quick = tier == "quick"
    if pre:
        pre(chk)
    vlib.tlc_check(chk, "H_Exec abstract life cycle, exhaustive (2 units)", os.path.join(SPEC, "H_ExecMC.tla"),
                   os.path.join(SPEC, "H_ExecMC.cfg"), timeout=600)
    vlib.tlc_check(chk, "H_Exec with migration, exhaustive (1 unit, 2 pools)", os.path.join(SPEC, "H_ExecMC.tla"),
                   os.path.join(SPEC, "H_ExecMC2.cfg"), timeout=1200)
    exe = vlib.build_driver("d_kernel")
    n = 250 if quick else 4000
    per = 50 if quick else 250
    jobs = []
    n = max(per, n // len(scns))
    def applicable(scn, cfg, nes):
        if scn == "migrace" and (nes < 2 or cfg):
            return False
        if scn in ("xjoin", "stacked") and (nes < 1 or cfg == 4):
            return False            # shared pools: blocked units are not counted by the stop test (documented)
        if scn == "cancelmix" and nes < 1:
            return False
        if scn in ("ryt", "ytrace") and (cfg != 4 or nes < 2):
            return False
        if scn in ("replace", "privjoin") and (cfg or nes):
            return False
        if scn == "rejoin" and (nes != 1 or cfg == 4):
            return False
        return True

    for scn in scns:
        for cfg in range(6):
            for nes in (0, 1, 2):
                if not applicable(scn, cfg, nes):
                    continue
                mult = 6 if scn in ("ryt", "replace", "ytrace", "privjoin") else 1
                if scn == "xjoin" and cfg in (2, 5):
                    mult = 8        # the waiting scheduler leaves its loop on other paths than the others (defect S4)
                for off in range(0, n * mult, per):
                    opts = ("nes=%d" % nes, "cfg=%d" % cfg)
                    if scn == "migrate" and nes == 2 and (off // per) % 2:
                        opts += ("dead=1",)   # a joined, not yet freed stream with a low rank is in the stream list
                    jobs.append(dict(exe=exe, scn=scn, seed0=seed * 1000000 + emphasis * 100000 + 1 + off,
                                     count=per, opts=opts,
                                     env={"ABTV_BUDGET": "400000"}))
        if scn == "exec":
            # one ULT in pools that several streams serve waits for slow tasklets and ULTs with a single join_many / free_many
            for off in range(0, 2 * n, per):
                jobs.append(dict(exe=exe, scn=scn, seed0=seed * 1000000 + emphasis * 100000 + 50001 + off, count=per,
                                 opts=("nes=2", "cfg=4", "jm=1"), env={"ABTV_BUDGET": "400000"}))
        if not quick:
            for cfg in range(6):
                for nes in ((0,) if scn in ("switch", "replace") else (1, 2)):   # (observations are snapshots only when serialized)
                    if not applicable(scn, cfg, nes):
                        continue
                    jobs.append(dict(exe=exe, scn=scn, seed0=seed * 1000000 + 700001, count=300,
                                     opts=("nes=%d" % nes, "cfg=%d" % cfg), mode="free", env={"ABTV_PERTURB": "1"}, timeout=900))
    runs = vlib.sweep(jobs)
    chk.evaluations = len(runs)
    others = {}
    done = []
    for r in runs:
        v = vlib.run_verdict(r)
        if v == "done":
            done.append(r)
            continue
        if v.startswith("broken"):
            raise vlib.Broken("driver reported %s in %s" % (v, vlib.run_key(r)))
        p = attribute(r, None, v)
        if pid in p.split("+"):
            chk.violation(vlib.run_key(r) + ":" + v, "run ended with %s (progress / crash verdict attributed to %s)" % (v, p),
                          replay_content="\n".join(json.dumps(e) for e in r) + "\n")
        else:
            others[p] = others.get(p, 0) + 1
    for r in done:
        sig = json.dumps([[e.get(k) for k in sorted(e) if k not in ("q", "steps")] for e in r[1:]])
        chk.distinct.add(hashlib.sha1(sig.encode()).hexdigest())
    sub = vlib.Check(pid, tier, seed)      # collect all rejections, then attribute
    sub.known = []
    vlib.validate_runs(sub, done, os.path.join(SPEC, "H_ExecTrace.tla"), os.path.join(SPEC, "H_ExecTrace.cfg"),
                       batch_events=8000, what="history rejected by H_Exec")
    chk.states += sub.states
    chk.transitions += sub.transitions
    chk.traces += sub.traces
    for key, what, rp in sub.violations:
        bad = vlib.split_runs(vlib.read_ndjson(rp))[0]
        import re
        m = re.search(r"at record (\d+)", what)
        line = int(m.group(1)) if m else None
        p = attribute(bad, line, "done")
        if pid in p.split("+"):
            chk.violation(key, what + " (attributed to %s)" % p, replay_path=rp)
        else:
            others[p] = others.get(p, 0) + 1
            os.remove(rp)
    if done:
        chk.sample({"history": [{k: v for k, v in e.items() if k != "q"} for e in done[len(done) // 3][:40]]})
    chk.extra["runs_by_verdict"] = {"done": len(done), "abnormal": len(runs) - len(done)}
    chk.extra["rejections_attributed_to_other_properties"] = others
    chk.assumptions += ["sequentially consistent interleavings of hooked atomic operations (serialized mode)",
                        "scenarios are disciplined random programs (<=12 units, 1-3 streams, 6 scheduler/pool configurations); "
                        "an unfinished run is a progress violation attributed by the pending operation",
                        "a rejection is attributed to the property whose clause the rejected record belongs to; "
                        "rejections attributed to another property are counted, not reported here"]
    return chk.finish()


def replay_exec(pid, path):
    return vlib.generic_replay(pid, "H_Exec", path)
