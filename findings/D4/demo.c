#include "abti.h"
#include <stdio.h>
#include <stdlib.h>
#include <unistd.h>
static void fn(void *a) { (void)a; }
int main(void)
{
    alarm(5);
    ABT_init(0, NULL);
    int bad = 0;
    for (int k = 0; k < 200 && !bad; k++) {
        void *p[8]; for (int j = 0; j < 1 + k % 8; j++) { posix_memalign(&p[j], 64, 64); memset(p[j], 0xff, 64); } for (int j = 0; j < 1 + k % 8; j++) free(p[j]);
        ABT_pool pool;
        ABT_pool_create_basic(ABT_POOL_FIFO, ABT_POOL_ACCESS_PRIV, ABT_FALSE, &pool);
        unsigned char b = *(unsigned char *)((ABTI_pool *)pool)->data;
        if (b) { printf("iteration %d: lock byte of PRIV pool = 0x%02x\n", k, b); bad = 1; fflush(stdout);
            ABT_thread t, r = ABT_THREAD_NULL;
            ABT_thread_create(pool, fn, NULL, ABT_THREAD_ATTR_NULL, &t);
            ABT_pool_pop_wait_thread(pool, &r, 0.001);
            printf("pop_wait returned %s\n", r == t ? "the unit" : "nothing");
        }
        ABT_pool_free(&pool);
    }
    printf("bad=%d\n", bad);
    return 0;
}
