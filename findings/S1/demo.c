/* S1: a migration request handled inside a suspend callback leaves the
 * blocked counter of the old pool at +1 and of the new pool at -1, and
 * ABT_xstream_join never returns. */
#include <abt.h>
#include <stdio.h>
#include <unistd.h>
static ABT_pool pa, pb;
static ABT_thread T;
static volatile int go;
static void target(void *a)
{
    (void)a;
    ABT_thread_migrate_to_pool(T, pb); /* request, handled at the next scheduling point ... */
    ABT_self_suspend();                /* ... which is a suspension */
}
int main(void)
{
    alarm(5);
    ABT_init(0, NULL);
    ABT_xstream xa, xb;
    ABT_xstream_create(ABT_SCHED_NULL, &xa);
    ABT_xstream_create(ABT_SCHED_NULL, &xb);
    ABT_xstream_get_main_pools(xa, 1, &pa);
    ABT_xstream_get_main_pools(xb, 1, &pb);
    ABT_thread_create(pa, target, NULL, ABT_THREAD_ATTR_NULL, &T);
    ABT_thread_state st;
    do { ABT_thread_yield(); ABT_thread_get_state(T, &st); } while (st != ABT_THREAD_STATE_BLOCKED);
    size_t ta, sa, tb, sb;
    ABT_pool_get_total_size(pa, &ta); ABT_pool_get_size(pa, &sa);
    ABT_pool_get_total_size(pb, &tb); ABT_pool_get_size(pb, &sb);
    printf("blocked: old pool %ld, new pool %ld (while suspended)\n", (long)ta - (long)sa, (long)tb - (long)sb);
    ABT_thread_resume(T);
    ABT_thread_free(&T);
    ABT_pool_get_total_size(pa, &ta); ABT_pool_get_size(pa, &sa);
    ABT_pool_get_total_size(pb, &tb); ABT_pool_get_size(pb, &sb);
    printf("blocked: old pool %ld, new pool %ld (after completion)\n", (long)ta - (long)sa, (long)tb - (long)sb);
    fflush(stdout);
    ABT_xstream_join(xa); ABT_xstream_join(xb);
    ABT_xstream_free(&xa); ABT_xstream_free(&xb);
    ABT_finalize();
    printf("joined\n");
    return 0;
}
