#include <abt.h>
#include <pthread.h>
#include <stdio.h>
#include <stdlib.h>
#include <sys/resource.h>
static int N;
static void *fn(void *a) { for (int i = 0; i < N; i++) { ABT_xstream x; if (ABT_xstream_create(ABT_SCHED_NULL, &x) != ABT_SUCCESS) continue; ABT_xstream_join(x); ABT_xstream_free(&x);} return NULL; }
static long rss(void){ struct rusage r; getrusage(RUSAGE_SELF,&r); return r.ru_maxrss; }
int main(int argc, char **argv) {
    int nt = atoi(argv[1]); N = atoi(argv[2]); int ext = atoi(argv[3]);
    ABT_init(0, NULL);
    for (int round = 0; round < 4; round++) {
        if (ext) { pthread_t th[16]; for (int t = 0; t < nt; t++) pthread_create(&th[t], NULL, fn, NULL); for (int t = 0; t < nt; t++) pthread_join(th[t], NULL); }
        else fn(NULL);
        printf("round %d maxrss %ld KB\n", round, rss());
    }
    ABT_finalize(); return 0;
}
