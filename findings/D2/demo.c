/* D2: a ULT created with a stack size that is not a multiple of the cache
 * line (64) is freed with a wrong base pointer: free(): invalid pointer. */
#include <abt.h>
#include <stdio.h>
static void fn(void *a) { (void)a; }
int main(void)
{
    ABT_init(0, NULL);
    ABT_xstream xs; ABT_pool p; ABT_thread t; ABT_thread_attr attr;
    ABT_xstream_self(&xs); ABT_xstream_get_main_pools(xs, 1, &p);
    ABT_thread_attr_create(&attr);
    ABT_thread_attr_set_stacksize(attr, 32776);   /* 32768 + 8 */
    ABT_thread_create(p, fn, NULL, attr, &t);
    ABT_thread_free(&t);                           /* aborts before the fix */
    ABT_thread_attr_free(&attr);
    ABT_finalize();
    printf("ok\n");
    return 0;
}
