/* D1: ABT_thread_migrate() never finds a target stream.  With a second
 * running stream whose pool differs from the caller's, the call must return
 * ABT_SUCCESS and the ULT must continue on the other stream. */
#include <abt.h>
#include <stdio.h>
static int ret = -1, rank_after = -1;
static void fn(void *a)
{
    (void)a;
    ABT_thread self;
    ABT_thread_self(&self);
    ret = ABT_thread_migrate(self);
    ABT_thread_yield();
    ABT_xstream_self_rank(&rank_after);
}
int main(void)
{
    ABT_init(0, NULL);
    ABT_xstream xs, self;
    ABT_pool p;
    ABT_xstream_create(ABT_SCHED_NULL, &xs);
    ABT_xstream_self(&self);
    ABT_xstream_get_main_pools(self, 1, &p);
    ABT_thread t;
    ABT_thread_create(p, fn, NULL, ABT_THREAD_ATTR_NULL, &t);
    ABT_thread_free(&t);
    ABT_xstream_join(xs);
    ABT_xstream_free(&xs);
    ABT_finalize();
    printf("ABT_thread_migrate returned %d, continued on rank %d\n", ret, rank_after);
    return !(ret == ABT_SUCCESS && rank_after == 1);
}
