SPECIFICATION Spec
CONSTANTS Setters = {1,2}
  Waiters = {1,2}
  ReadyBeforeLock = FALSE
INVARIANT OneWinner
INVARIANT ValueOfWinner
PROPERTY AllReturn
CHECK_DEADLOCK FALSE
