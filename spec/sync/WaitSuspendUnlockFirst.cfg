SPECIFICATION Spec
CONSTANT Variant = "UnlockFirst"
INVARIANTS WakerFindsBlocked DeadNotLinked

CHECK_DEADLOCK FALSE
