---------------------------- MODULE EventualProto ----------------------------
(* Level B: ABT_eventual set / wait / reset as coded in eventual.c (the future
   has the same shape with a counter), one action per access.

   set:   acquire(lock); if (!ready) { copy value; ready = TRUE; broadcast; release; SUCCESS }
                         else        { release; ERROR }
   wait:  acquire(lock); if (!ready) enqueue + release + sleep  else release;  read value
   (the value is read outside the critical section: it cannot change while the
    eventual is ready)

   Checked: exactly one of several concurrent sets of an unready eventual
   succeeds; every waiter returns (liveness) and reads the value of THE
   successful set; nobody returns before a set.

   ReadyBeforeLock = TRUE reads `ready` before taking the lock (seeded change
   C09-m3): two setters can both succeed and the second overwrites what
   released waiters are reading.  Non-vacuity witness.                      *)
EXTENDS Naturals, FiniteSets
CONSTANTS Setters, Waiters, ReadyBeforeLock
VARIABLES lk, ready, value, waiting, spc, sseen, sres, wpc, wgot
vars == <<lk, ready, value, waiting, spc, sseen, sres, wpc, wgot>>
None == 0
Init == /\ lk = None /\ ready = FALSE /\ value = 0 /\ waiting = {}
        /\ spc = [s \in Setters |-> "start"] /\ sseen = [s \in Setters |-> FALSE] /\ sres = [s \in Setters |-> "none"]
        /\ wpc = [w \in Waiters |-> "lock"] /\ wgot = [w \in Waiters |-> 0]
\* ---- setters (setter s writes the value s)
SStart(s) == /\ spc[s] = "start"
             /\ IF ReadyBeforeLock THEN sseen' = [sseen EXCEPT ![s] = ready] ELSE sseen' = sseen
             /\ spc' = [spc EXCEPT ![s] = "lock"] /\ UNCHANGED <<lk, ready, value, waiting, sres, wpc, wgot>>
SLock(s) == /\ spc[s] = "lock" /\ lk = None /\ lk' = s
            /\ sseen' = IF ReadyBeforeLock THEN sseen ELSE [sseen EXCEPT ![s] = ready]
            /\ spc' = [spc EXCEPT ![s] = "decide"] /\ UNCHANGED <<ready, value, waiting, sres, wpc, wgot>>
SDecide(s) == /\ spc[s] = "decide"
              /\ IF sseen[s] THEN spc' = [spc EXCEPT ![s] = "unlock"] /\ sres' = [sres EXCEPT ![s] = "error"] /\ UNCHANGED value
                 ELSE spc' = [spc EXCEPT ![s] = "setready"] /\ sres' = [sres EXCEPT ![s] = "ok"] /\ value' = s
              /\ UNCHANGED <<lk, ready, waiting, sseen, wpc, wgot>>
SSetReady(s) == /\ spc[s] = "setready" /\ ready' = TRUE /\ spc' = [spc EXCEPT ![s] = "bcast"]
                /\ UNCHANGED <<lk, value, waiting, sseen, sres, wpc, wgot>>
SBcast(s) == /\ spc[s] = "bcast" /\ waiting' = {} /\ spc' = [spc EXCEPT ![s] = "unlock"]
             /\ UNCHANGED <<lk, ready, value, sseen, sres, wpc, wgot>>
SUnlock(s) == /\ spc[s] = "unlock" /\ lk' = None /\ spc' = [spc EXCEPT ![s] = "done"]
              /\ UNCHANGED <<ready, value, waiting, sseen, sres, wpc, wgot>>
\* ---- waiters
WLock(w) == /\ wpc[w] = "lock" /\ lk = None /\ lk' = w + 100 /\ wpc' = [wpc EXCEPT ![w] = "test"]
            /\ UNCHANGED <<ready, value, waiting, spc, sseen, sres, wgot>>
WTest(w) == /\ wpc[w] = "test"
            /\ IF ready THEN wpc' = [wpc EXCEPT ![w] = "read"] /\ waiting' = waiting
               ELSE wpc' = [wpc EXCEPT ![w] = "sleep"] /\ waiting' = waiting \cup {w}
            /\ lk' = None /\ UNCHANGED <<ready, value, spc, sseen, sres, wgot>>
WWoken(w) == /\ wpc[w] = "sleep" /\ w \notin waiting /\ wpc' = [wpc EXCEPT ![w] = "read"]
             /\ UNCHANGED <<lk, ready, value, waiting, spc, sseen, sres, wgot>>
WRead(w) == /\ wpc[w] = "read" /\ wgot' = [wgot EXCEPT ![w] = value] /\ wpc' = [wpc EXCEPT ![w] = "done"]
            /\ UNCHANGED <<lk, ready, value, waiting, spc, sseen, sres>>
Next == \/ \E s \in Setters : SStart(s) \/ SLock(s) \/ SDecide(s) \/ SSetReady(s) \/ SBcast(s) \/ SUnlock(s)
        \/ \E w \in Waiters : WLock(w) \/ WTest(w) \/ WWoken(w) \/ WRead(w)
Spec == Init /\ [][Next]_vars /\ WF_vars(Next)
Winners == {s \in Setters : sres[s] = "ok"}
OneWinner == Cardinality(Winners) <= 1
\* a waiter that has returned read the value of the one successful set
ValueOfWinner == \A w \in Waiters : wpc[w] = "done" => \E s \in Winners : wgot[w] = s
AllReturn == <>((\A w \in Waiters : wpc[w] = "done") /\ (\A s \in Setters : spc[s] = "done"))
=============================================================================
