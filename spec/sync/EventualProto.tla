---------------------------- MODULE EventualProto ----------------------------
(* Level B: ABT_eventual set / wait / reset as coded in eventual.c (the future
   has the same shape with a counter), one action per access.

   set:   acquire(lock); if (!ready) { copy value; ready = TRUE; broadcast; release; SUCCESS }
                         else        { release; ERROR }
   wait:  acquire(lock); if (!ready) enqueue + release + sleep  else release;  read value
   (the value is read outside the critical section: it cannot change while the
    eventual is ready)

   Checked: exactly one of several concurrent sets of an unready eventual
   succeeds; every waiter returns (liveness) and reads the value of THE
   successful set; nobody returns before a set.

   ReadyBeforeLock = TRUE reads `ready` before taking the lock (seeded change
   C09-m3): two setters can both succeed and the second overwrites what
   released waiters are reading.  Non-vacuity witness.

   A recycling consumer (Recycle = TRUE) polls with test, resets the eventual
   as soon as it has seen it ready and waits for the next set.  The reset is
   legal only when nobody is on the wait list -- which holds because the
   setter wakes everybody BEFORE it releases the lock that test needs.
   UnlockBeforeBcast = TRUE (seeded change C09-m6) releases the lock first:
   the recycler can reset and enqueue itself while the setter has not yet
   walked the list, and is then woken although nothing was set after its
   reset (and the reset finds waiters on the list).  Non-vacuity witness.   *)
EXTENDS Naturals, FiniteSets
CONSTANTS Setters, Waiters, ReadyBeforeLock, Recycle, UnlockBeforeBcast
VARIABLES lk, ready, value, waiting, spc, sseen, sres, wpc, wgot, rpc, gen, rgen, badreset
vars == <<lk, ready, value, waiting, spc, sseen, sres, wpc, wgot, rpc, gen, rgen, badreset>>
R == 99   \* the recycler as a member of the wait list
None == 0
Init == /\ lk = None /\ ready = FALSE /\ value = 0 /\ waiting = {}
        /\ spc = [s \in Setters |-> "start"] /\ sseen = [s \in Setters |-> FALSE] /\ sres = [s \in Setters |-> "none"]
        /\ wpc = [w \in Waiters |-> "lock"] /\ wgot = [w \in Waiters |-> 0]
        /\ rpc = (IF Recycle THEN "poll" ELSE "off") /\ gen = 0 /\ rgen = 0 /\ badreset = FALSE
\* ---- setters (setter s writes the value s)
SStart(s) == /\ spc[s] = "start"
             /\ IF ReadyBeforeLock THEN sseen' = [sseen EXCEPT ![s] = ready] ELSE sseen' = sseen
             /\ spc' = [spc EXCEPT ![s] = "lock"] /\ UNCHANGED <<lk, ready, value, waiting, sres, wpc, wgot, rpc, gen, rgen, badreset>>
SLock(s) == /\ spc[s] = "lock" /\ lk = None /\ lk' = s
            /\ sseen' = IF ReadyBeforeLock THEN sseen ELSE [sseen EXCEPT ![s] = ready]
            /\ spc' = [spc EXCEPT ![s] = "decide"] /\ UNCHANGED <<ready, value, waiting, sres, wpc, wgot, rpc, gen, rgen, badreset>>
SDecide(s) == /\ spc[s] = "decide"
              /\ IF sseen[s] THEN spc' = [spc EXCEPT ![s] = "unlock"] /\ sres' = [sres EXCEPT ![s] = "error"] /\ UNCHANGED value
                 ELSE spc' = [spc EXCEPT ![s] = "setready"] /\ sres' = [sres EXCEPT ![s] = "ok"] /\ value' = s
              /\ UNCHANGED <<lk, ready, waiting, sseen, wpc, wgot, rpc, gen, rgen, badreset>>
SSetReady(s) == /\ spc[s] = "setready" /\ ready' = TRUE /\ gen' = gen + 1
                /\ spc' = [spc EXCEPT ![s] = IF UnlockBeforeBcast THEN "unlock" ELSE "bcast"]
                /\ UNCHANGED <<lk, value, waiting, sseen, sres, wpc, wgot, rpc, rgen, badreset>>
SBcast(s) == /\ spc[s] = "bcast" /\ waiting' = {} /\ spc' = [spc EXCEPT ![s] = IF UnlockBeforeBcast THEN "done" ELSE "unlock"]
             /\ UNCHANGED <<lk, ready, value, sseen, sres, wpc, wgot, rpc, gen, rgen, badreset>>
SUnlock(s) == /\ spc[s] = "unlock" /\ lk' = None
              /\ spc' = [spc EXCEPT ![s] = IF UnlockBeforeBcast /\ sres[s] = "ok" THEN "bcast" ELSE "done"]
              /\ UNCHANGED <<ready, value, waiting, sseen, sres, wpc, wgot, rpc, gen, rgen, badreset>>
\* ---- waiters
WLock(w) == /\ wpc[w] = "lock" /\ lk = None /\ lk' = w + 100 /\ wpc' = [wpc EXCEPT ![w] = "test"]
            /\ UNCHANGED <<ready, value, waiting, spc, sseen, sres, wgot, rpc, gen, rgen, badreset>>
WTest(w) == /\ wpc[w] = "test"
            /\ IF ready THEN wpc' = [wpc EXCEPT ![w] = "read"] /\ waiting' = waiting
               ELSE wpc' = [wpc EXCEPT ![w] = "sleep"] /\ waiting' = waiting \cup {w}
            /\ lk' = None /\ UNCHANGED <<ready, value, spc, sseen, sres, wgot, rpc, gen, rgen, badreset>>
WWoken(w) == /\ wpc[w] = "sleep" /\ w \notin waiting /\ wpc' = [wpc EXCEPT ![w] = "read"]
             /\ UNCHANGED <<lk, ready, value, waiting, spc, sseen, sres, wgot, rpc, gen, rgen, badreset>>
WRead(w) == /\ wpc[w] = "read" /\ wgot' = [wgot EXCEPT ![w] = value] /\ wpc' = [wpc EXCEPT ![w] = "done"]
            /\ UNCHANGED <<lk, ready, value, waiting, spc, sseen, sres, rpc, gen, rgen, badreset>>
\* ---- the recycler: test (under the lock) until ready; reset; wait for the next set
RKeep == <<value, spc, sseen, sres, wpc, wgot, gen>>
RPoll == /\ rpc = "poll" /\ lk = None
         /\ rpc' = (IF ready THEN "reset" ELSE "poll") /\ UNCHANGED <<lk, ready, waiting, rgen, badreset>> /\ UNCHANGED RKeep
RReset == /\ rpc = "reset" /\ lk = None /\ ready' = FALSE /\ rgen' = gen
          /\ badreset' = (badreset \/ waiting # {})
          /\ rpc' = "wait" /\ UNCHANGED <<lk, waiting>> /\ UNCHANGED RKeep
RWait == /\ rpc = "wait" /\ lk = None
         /\ IF ready THEN rpc' = "returned" /\ waiting' = waiting ELSE rpc' = "sleep" /\ waiting' = waiting \cup {R}
         /\ UNCHANGED <<lk, ready, rgen, badreset>> /\ UNCHANGED RKeep
RWoken == /\ rpc = "sleep" /\ R \notin waiting /\ rpc' = "returned"
          /\ UNCHANGED <<lk, ready, waiting, rgen, badreset>> /\ UNCHANGED RKeep
Next == \/ RPoll \/ RReset \/ RWait \/ RWoken
        \/ \E s \in Setters : SStart(s) \/ SLock(s) \/ SDecide(s) \/ SSetReady(s) \/ SBcast(s) \/ SUnlock(s)
        \/ \E w \in Waiters : WLock(w) \/ WTest(w) \/ WWoken(w) \/ WRead(w)
Spec == Init /\ [][Next]_vars /\ WF_vars(Next)
Winners == {s \in Setters : sres[s] = "ok"}
\* one successful set per readiness period (a reset by the recycler opens a second period)
OneWinner == Cardinality(Winners) <= 1 + (IF rpc \in {"wait", "sleep", "returned"} THEN 1 ELSE 0)
\* a waiter that has returned read the value of the one successful set
ValueOfWinner == \A w \in Waiters : wpc[w] = "done" => \E s \in Winners : wgot[w] = s
\* the recycler comes back from its second wait only after a set that followed its reset, and its
\* reset never found anybody on the wait list (resetting with waiters is undefined)
RecyclerSeesNewSet == rpc = "returned" => gen > rgen
ResetLegal == ~badreset
\* (with a recycler a waiter that arrives after the reset may wait for ever: only the setters must finish)
SettersReturn == <>(\A s \in Setters : spc[s] = "done")
AllReturn == <>((\A w \in Waiters : wpc[w] = "done") /\ (\A s \in Setters : spc[s] = "done"))
=============================================================================
