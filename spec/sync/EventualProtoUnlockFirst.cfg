SPECIFICATION Spec
CONSTANTS Setters = {1,2}
  Waiters = {1,2}
  ReadyBeforeLock = FALSE
  Recycle = TRUE
  UnlockBeforeBcast = TRUE
INVARIANT OneWinner
INVARIANT ValueOfWinner
INVARIANT RecyclerSeesNewSet
INVARIANT ResetLegal
PROPERTY SettersReturn
CHECK_DEADLOCK FALSE
