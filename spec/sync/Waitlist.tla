------------------------------ MODULE Waitlist ------------------------------
(* Level B: the wait list of mutex / cond / barrier / eventual / future /
   rwlock as coded in abti_waitlist.h.  Every operation runs under the object's
   spinlock, so each is one atomic action; the subject is the singly linked
   list with the *partially maintained* back pointers:

     - wait_and_unlock (untimed; ULT, or external thread / tasklet through a
       dummy node) appends and does NOT set p_prev (it keeps whatever it had);
     - wait_timedout_and_unlock (always a dummy node) appends and sets p_prev to
       the old tail (NULL if the list was empty);
     - signal removes the head, broadcast removes everything; neither touches
       p_prev of the nodes that stay;
     - a timed waiter whose time is up removes itself: if it is the head it
       uses p_head only (its p_prev may be stale: the node it points to may
       have been signalled long ago), otherwise it uses its p_prev, and repairs
       the p_prev of its successor.

   Checked: the list reachable from p_head is exactly the FIFO queue of the
   waiters that have been neither woken nor timed out, p_tail is its last
   element, and a removal never follows a pointer to a node that is no longer
   waiting (the node lives on the waiter's stack: it is gone once woken).

   RepairRule selects how a removal repairs the successor's back pointer:
     "code"   as coded (always, when there is a successor)
     "onlyext" only if the predecessor is a dummy node -- a plausible
              "clean-up" that breaks the structure; kept as a non-vacuity
              witness: TLC must reject it.                                  *)
EXTENDS Naturals, Sequences, FiniteSets
CONSTANTS Nodes, RepairRule
NULL == 0
STALE == 99         \* an uninitialised / outdated pointer value
VARIABLES head, tail, nxt, prv, kind, q, gone, bad
vars == <<head, tail, nxt, prv, kind, q, gone, bad>>
\* q: abstract FIFO queue of waiting nodes; gone: nodes woken or timed out (their memory is dead)
Init == /\ head = NULL /\ tail = NULL /\ nxt = [n \in Nodes |-> NULL] /\ prv = [n \in Nodes |-> STALE]
        /\ kind = [n \in Nodes |-> "none"] /\ q = <<>> /\ gone = {} /\ bad = FALSE
Fresh(n) == kind[n] = "none"
InQ(n) == \E i \in 1..Len(q) : q[i] = n
\* ---- enqueue
Enq(n, k, setprev) ==
    /\ Fresh(n)
    /\ kind' = [kind EXCEPT ![n] = k]
    /\ nxt' = IF head = NULL THEN [nxt EXCEPT ![n] = NULL] ELSE [nxt EXCEPT ![tail] = n, ![n] = NULL]
    /\ head' = IF head = NULL THEN n ELSE head
    /\ prv' = IF setprev THEN [prv EXCEPT ![n] = tail] ELSE prv     \* tail = NULL when the list is empty
    /\ tail' = n
    /\ q' = Append(q, n)
    /\ UNCHANGED <<gone, bad>>
WaitULT(n) == Enq(n, "ult", FALSE)
WaitExt(n) == Enq(n, "ext", FALSE)
WaitTimed(n) == Enq(n, "timed", TRUE)
\* ---- wake
Signal == /\ head # NULL
          /\ LET h == head IN
             /\ head' = nxt[h] /\ tail' = IF nxt[h] = NULL THEN NULL ELSE tail
             /\ nxt' = [nxt EXCEPT ![h] = NULL]
             /\ q' = Tail(q) /\ gone' = gone \cup {h}
          /\ UNCHANGED <<prv, kind, bad>>
Broadcast == /\ head # NULL
             /\ head' = NULL /\ tail' = NULL /\ nxt' = [n \in Nodes |-> IF InQ(n) THEN NULL ELSE nxt[n]]
             /\ gone' = gone \cup {q[i] : i \in 1..Len(q)} /\ q' = <<>>
             /\ UNCHANGED <<prv, kind, bad>>
\* ---- time-out of a timed waiter that is still waiting
Without(s, n) == SelectSeq(s, LAMBDA x : x # n)
Timeout(n) ==
    /\ kind[n] = "timed" /\ InQ(n)
    /\ IF head = n
       THEN /\ head' = nxt[n]
            /\ tail' = IF nxt[n] = NULL THEN NULL ELSE tail
            /\ UNCHANGED <<nxt, prv>>
            /\ bad' = bad
       ELSE LET p == prv[n] IN
            \* following p_prev: it must point to a node that is still waiting, and be the true predecessor
            IF p = NULL \/ p = STALE \/ p \in gone \/ ~InQ(p) \/ nxt[p] # n
            THEN bad' = TRUE /\ UNCHANGED <<head, tail, nxt, prv>>
            ELSE /\ nxt' = [nxt EXCEPT ![p] = nxt[n]]
                 /\ IF nxt[n] # NULL
                    THEN /\ prv' = IF RepairRule = "code" \/ kind[p] \in {"ext", "timed"}
                                   THEN [prv EXCEPT ![nxt[n]] = p] ELSE prv
                         /\ tail' = tail
                    ELSE /\ tail' = p /\ prv' = prv
                 /\ head' = head /\ bad' = bad
    /\ q' = Without(q, n) /\ gone' = gone \cup {n}
    /\ UNCHANGED kind
Next == \/ \E n \in Nodes : WaitULT(n) \/ WaitExt(n) \/ WaitTimed(n) \/ Timeout(n)
        \/ Signal \/ Broadcast
Spec == Init /\ [][Next]_vars
\* ---- what must hold
RECURSIVE Chain(_, _)
Chain(n, fuel) == IF n = NULL \/ fuel = 0 THEN <<>> ELSE <<n>> \o Chain(nxt[n], fuel - 1)
ListIsQueue == Chain(head, Cardinality(Nodes) + 1) = q
TailIsLast == tail = (IF q = <<>> THEN NULL ELSE q[Len(q)])
NoDanglingDeref == ~bad
=============================================================================
