SPECIFICATION Spec
CONSTANTS Waiters = {1,2}
  Wakes = 2
  ReadValLate = FALSE
  ResetVal = FALSE
INVARIANT OnlyReadyReturn
PROPERTY AllReturn
CHECK_DEADLOCK FALSE
