----------------------------- MODULE FutexMulti -----------------------------
(* Level B: how non-yieldable waiters (external threads, tasklets) sleep on a
   wait list: abti_waitlist.h (the loop around the futex) + abtd_futex.c
   (ABTD_futex_multiple with a sequence word), one action per access.

   waiter, holding the object's spinlock L and already on the list:
       loop: if (state == READY) { release(L); return }
             orig := val;  release(L);                     -- futex_wait_and_unlock
             do FUTEX_WAIT(&val, orig) while (val == orig)  -- sleeps only if val == orig at the call
             if (state == READY) return                     -- quick check
             acquire(L)
   waker, holding L:   state[w] := READY (for the chosen waiters); val := val + 1; FUTEX_WAKE(all)

   Checked: a waiter that has been made READY returns (no lost wake-up), a
   waiter that has not been made READY does not return.

   ReadValLate = TRUE reads the sequence word after releasing L; ResetVal = TRUE
   lets a re-initialisation set the word back to 0 while woken waiters have not
   re-read it (seeded change C08-m3).  Both are non-vacuity witnesses.      *)
EXTENDS Naturals, FiniteSets
CONSTANTS Waiters, Wakes, ReadValLate, ResetVal
VARIABLES L, val, ready, pc, orig, sleeping, wakesLeft, wpc, target, resetDone
vars == <<L, val, ready, pc, orig, sleeping, wakesLeft, wpc, target, resetDone>>
None == 0
Waker == 99
Init == /\ L = None /\ val = 0 /\ ready = [w \in Waiters |-> FALSE] /\ pc = [w \in Waiters |-> "lock0"]
        /\ orig = [w \in Waiters |-> 0] /\ sleeping = {} /\ wakesLeft = Wakes /\ wpc = "idle" /\ target = None
        /\ resetDone = FALSE
Go(w, a, b) == pc[w] = a /\ pc' = [pc EXCEPT ![w] = b]
\* ---- waiter
Lock0(w) == Go(w, "lock0", "check") /\ L = None /\ L' = w /\ UNCHANGED <<val, ready, orig, sleeping, wakesLeft, wpc, target, resetDone>>
Check(w) == /\ pc[w] = "check"
            /\ IF ready[w] THEN pc' = [pc EXCEPT ![w] = "done"] /\ L' = None /\ UNCHANGED orig
               ELSE IF ReadValLate THEN pc' = [pc EXCEPT ![w] = "readlate"] /\ L' = None /\ UNCHANGED orig
               ELSE pc' = [pc EXCEPT ![w] = "unlock"] /\ orig' = [orig EXCEPT ![w] = val] /\ UNCHANGED L
            /\ UNCHANGED <<val, ready, sleeping, wakesLeft, wpc, target, resetDone>>
ReadLate(w) == Go(w, "readlate", "futexwait") /\ orig' = [orig EXCEPT ![w] = val]
               /\ UNCHANGED <<L, val, ready, sleeping, wakesLeft, wpc, target, resetDone>>
Unlock(w) == Go(w, "unlock", "futexwait") /\ L' = None /\ UNCHANGED <<val, ready, orig, sleeping, wakesLeft, wpc, target, resetDone>>
\* the system call compares and sleeps atomically
FutexWait(w) == /\ pc[w] = "futexwait"
                /\ IF val = orig[w] THEN sleeping' = sleeping \cup {w} /\ pc' = [pc EXCEPT ![w] = "asleep"]
                   ELSE sleeping' = sleeping /\ pc' = [pc EXCEPT ![w] = "recheck"]
                /\ UNCHANGED <<L, val, ready, orig, wakesLeft, wpc, target, resetDone>>
WokenUp(w) == Go(w, "asleep", "recheck") /\ w \notin sleeping /\ UNCHANGED <<L, val, ready, orig, sleeping, wakesLeft, wpc, target, resetDone>>
Recheck(w) == /\ pc[w] = "recheck" /\ pc' = [pc EXCEPT ![w] = IF val = orig[w] THEN "futexwait" ELSE "quick"]
              /\ UNCHANGED <<L, val, ready, orig, sleeping, wakesLeft, wpc, target, resetDone>>
Quick(w) == /\ pc[w] = "quick" /\ pc' = [pc EXCEPT ![w] = IF ready[w] THEN "done" ELSE "lock0"]
            /\ UNCHANGED <<L, val, ready, orig, sleeping, wakesLeft, wpc, target, resetDone>>
\* ---- waker: wakes one not yet ready waiter per round (signal)
WLock == /\ wpc = "idle" /\ wakesLeft > 0 /\ L = None /\ L' = Waker /\ wpc' = "mark"
         /\ UNCHANGED <<val, ready, pc, orig, sleeping, wakesLeft, target, resetDone>>
WMark == /\ wpc = "mark"
         /\ IF \E w \in Waiters : ~ready[w]
            THEN \E w \in Waiters : ~ready[w] /\ ready' = [ready EXCEPT ![w] = TRUE]
            ELSE ready' = ready
         /\ wpc' = "bump" /\ UNCHANGED <<L, val, pc, orig, sleeping, wakesLeft, target, resetDone>>
WBump == wpc = "bump" /\ val' = val + 1 /\ wpc' = "wake" /\ UNCHANGED <<L, ready, pc, orig, sleeping, wakesLeft, target, resetDone>>
WWake == wpc = "wake" /\ sleeping' = {} /\ wpc' = "unlock" /\ UNCHANGED <<L, val, ready, pc, orig, wakesLeft, target, resetDone>>
WUnlock == /\ wpc = "unlock" /\ L' = None /\ wpc' = "idle" /\ wakesLeft' = wakesLeft - 1
           /\ UNCHANGED <<val, ready, pc, orig, sleeping, target, resetDone>>
\* a re-initialisation that starts the sequence word over (only in the witness)
Reset == /\ ResetVal /\ ~resetDone /\ wpc = "idle" /\ wakesLeft = 0 /\ val' = 0 /\ resetDone' = TRUE
         /\ UNCHANGED <<L, ready, pc, orig, sleeping, wakesLeft, wpc, target>>
Next == \/ \E w \in Waiters : Lock0(w) \/ Check(w) \/ ReadLate(w) \/ Unlock(w) \/ FutexWait(w) \/ WokenUp(w) \/ Recheck(w) \/ Quick(w)
        \/ WLock \/ WMark \/ WBump \/ WWake \/ WUnlock \/ Reset
Spec == Init /\ [][Next]_vars /\ WF_vars(Next)
      /\ \A w \in Waiters : WF_vars(Lock0(w) \/ Check(w) \/ ReadLate(w) \/ Unlock(w) \/ FutexWait(w) \/ WokenUp(w) \/ Recheck(w) \/ Quick(w))
      /\ WF_vars(WLock \/ WMark \/ WBump \/ WWake \/ WUnlock)
OnlyReadyReturn == \A w \in Waiters : pc[w] = "done" => ready[w]
\* with as many wake-ups as waiters everybody returns
AllReturn == <>(\A w \in Waiters : pc[w] = "done")
=============================================================================
