SPECIFICATION Spec
CONSTANTS Threads = {1,2}
  N = 2
  N2 = 2
  Rounds = 2
  Variant = "ResetLate"
INVARIANT NoEarlyRelease
PROPERTY AllDone
CHECK_DEADLOCK FALSE
