SPECIFICATION Spec
CONSTANTS Threads = {1,2,3}
  N = 3
  N2 = 3
  Rounds = 2
  Variant = "None"
INVARIANTS NoEarlyRelease CounterBelowN SleepersMatch
PROPERTY AllDone
CHECK_DEADLOCK FALSE
