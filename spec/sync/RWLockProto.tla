----------------------------- MODULE RWLockProto -----------------------------
(* Level B: ABT_rwlock as coded in rwlock.c: a monitor made of the internal
   mutex, the condition variable (its own spinlock + wait list) and two
   plain fields, write_flag and reader_count.

   rdlock:  lock(m); while (write_flag) cond_wait; reader_count++; unlock(m)
   wrlock:  lock(m); while (write_flag || reader_count) cond_wait; write_flag = 1; unlock(m)
   unlock:  lock(m); write_flag = 0 or reader_count--; cond_broadcast; unlock(m)
   cond_wait = acquire(c.lock); unlock(m); enqueue; release(c.lock) + sleep; lock(m)
   cond_broadcast = acquire(c.lock); wake all; release(c.lock)

   The internal mutex is abstracted to an atomic lock (see MutexProto.tla).

   Checked: a writer excludes everybody, readers exclude writers, and under
   weak fairness every thread gets through all its lock/unlock rounds (no
   lost wake-up).

   SkipBroadcastIfEmpty = TRUE is the "optimisation" that reads the wait list
   without the condition variable's lock and skips the broadcast when it looks
   empty: a locker that has released the mutex but not yet enqueued itself is
   missed.  Non-vacuity witness.                                            *)
EXTENDS Naturals, FiniteSets
CONSTANTS Readers, Writers, Rounds, SkipBroadcastIfEmpty
VARIABLES m, cl, waiting, wflag, rcount, pc, left
vars == <<m, cl, waiting, wflag, rcount, pc, left>>
Threads == Readers \cup Writers
None == 0
Init == /\ m = None /\ cl = None /\ waiting = {} /\ wflag = FALSE /\ rcount = 0
        /\ pc = [t \in Threads |-> "idle"] /\ left = [t \in Threads |-> Rounds]
Go(t, a, b) == pc[t] = a /\ pc' = [pc EXCEPT ![t] = b]
MustWait(t) == IF t \in Writers THEN wflag \/ rcount > 0 ELSE wflag
Start(t) == Go(t, "idle", "lockm") /\ left[t] > 0 /\ UNCHANGED <<m, cl, waiting, wflag, rcount, left>>
LockM(t) == Go(t, "lockm", "test") /\ m = None /\ m' = t /\ UNCHANGED <<cl, waiting, wflag, rcount, left>>
Test(t) == /\ pc[t] = "test" /\ pc' = [pc EXCEPT ![t] = IF MustWait(t) THEN "clacq" ELSE "take"]
           /\ UNCHANGED <<m, cl, waiting, wflag, rcount, left>>
\* cond_wait
ClAcq(t) == Go(t, "clacq", "unlockm") /\ cl = None /\ cl' = t /\ UNCHANGED <<m, waiting, wflag, rcount, left>>
UnlockM(t) == Go(t, "unlockm", "enq") /\ m' = None /\ UNCHANGED <<cl, waiting, wflag, rcount, left>>
Enq(t) == Go(t, "enq", "sleepunlock") /\ waiting' = waiting \cup {t} /\ UNCHANGED <<m, cl, wflag, rcount, left>>
SleepUnlock(t) == Go(t, "sleepunlock", "sleep") /\ cl' = None /\ UNCHANGED <<m, waiting, wflag, rcount, left>>
Woken(t) == Go(t, "sleep", "lockm") /\ t \notin waiting /\ UNCHANGED <<m, cl, waiting, wflag, rcount, left>>
\* got it
Take(t) == /\ Go(t, "take", "rel1")
           /\ IF t \in Writers THEN wflag' = TRUE /\ UNCHANGED rcount ELSE rcount' = rcount + 1 /\ UNCHANGED wflag
           /\ UNCHANGED <<m, cl, waiting, left>>
Rel1(t) == Go(t, "rel1", "cs") /\ m' = None /\ UNCHANGED <<cl, waiting, wflag, rcount, left>>
\* unlock
Leave(t) == Go(t, "cs", "ulockm") /\ UNCHANGED <<m, cl, waiting, wflag, rcount, left>>
ULockM(t) == Go(t, "ulockm", "uset") /\ m = None /\ m' = t /\ UNCHANGED <<cl, waiting, wflag, rcount, left>>
USet(t) == /\ pc[t] = "uset"
           /\ IF wflag THEN wflag' = FALSE /\ UNCHANGED rcount ELSE rcount' = rcount - 1 /\ UNCHANGED wflag
           /\ pc' = [pc EXCEPT ![t] = IF SkipBroadcastIfEmpty /\ waiting = {} THEN "urelm" ELSE "bclacq"]
           /\ UNCHANGED <<m, cl, waiting, left>>
BClAcq(t) == Go(t, "bclacq", "bwake") /\ cl = None /\ cl' = t /\ UNCHANGED <<m, waiting, wflag, rcount, left>>
BWake(t) == Go(t, "bwake", "bclrel") /\ waiting' = {} /\ UNCHANGED <<m, cl, wflag, rcount, left>>
BClRel(t) == Go(t, "bclrel", "urelm") /\ cl' = None /\ UNCHANGED <<m, waiting, wflag, rcount, left>>
URelM(t) == Go(t, "urelm", "idle") /\ m' = None /\ left' = [left EXCEPT ![t] = @ - 1] /\ UNCHANGED <<cl, waiting, wflag, rcount>>
Step(t) == Start(t) \/ LockM(t) \/ Test(t) \/ ClAcq(t) \/ UnlockM(t) \/ Enq(t) \/ SleepUnlock(t) \/ Woken(t) \/ Take(t) \/ Rel1(t)
           \/ Leave(t) \/ ULockM(t) \/ USet(t) \/ BClAcq(t) \/ BWake(t) \/ BClRel(t) \/ URelM(t)
Next == \E t \in Threads : Step(t)
Spec == Init /\ [][Next]_vars /\ \A t \in Threads : WF_vars(Step(t))
Holding == {t \in Threads : pc[t] \in {"rel1", "cs", "ulockm"}}
Exclusion == \A w \in Writers : w \in Holding => Holding = {w}
\* the counters say who holds the lock
CountsOK == /\ rcount = Cardinality({t \in Readers : pc[t] \in {"rel1", "cs", "ulockm", "uset"}})
            /\ wflag = (\E t \in Writers : pc[t] \in {"rel1", "cs", "ulockm", "uset"})
AllDone == <>(\A t \in Threads : left[t] = 0 /\ pc[t] = "idle")
=============================================================================
