SPECIFICATION Spec
CONSTANTS Threads = {1,2,3}
  N = 2
  N2 = 2
  Rounds = 2
  Variant = "BcastLate"
INVARIANT NoEarlyRelease
CHECK_DEADLOCK FALSE
