SPECIFICATION Spec
CONSTANTS Readers = {1,2}
  Writers = {3}
  Rounds = 2
  SkipBroadcastIfEmpty = TRUE
INVARIANT Exclusion
INVARIANT CountsOK
PROPERTY AllDone
CHECK_DEADLOCK FALSE
