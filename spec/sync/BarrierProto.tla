---------------------------- MODULE BarrierProto ----------------------------
(* Level B: ABT_barrier_wait as coded in barrier.c, one action per shared-memory
   access.

   wait:   acquire(lock); counter++;
           if (counter < num_waiters) { enqueue on the wait list; release(lock) and sleep }   -- ABTI_waitlist_wait_and_unlock
           else { broadcast (wake every waiter); counter = 0; release(lock) }

   More callers than num_waiters may use the barrier (Threads may be larger than
   N), so consecutive rounds overlap: a caller of round r+1 can take the lock
   while the sleepers of round r have not run yet.

   Checked: nobody is released early -- at any time the number of callers that
   have returned is at most N * (entries \div N), i.e. only complete rounds
   return; the counter is below N whenever the lock is free (the ABTI_ASSERT of
   the code); under weak fairness every caller completes all its rounds
   (checked where |Threads| = N: with more callers than N the program itself may leave a caller without partners).

   Non-vacuity witnesses, TLC must reject each:
     Variant = "ResetLate"   the counter is reset after the lock is released: a
                             released caller re-enters, sees counter = N and
                             leaves the next round alone;
     Variant = "BcastLate"   the broadcast is issued after the lock is released:
                             it wakes a caller that is already waiting for the
                             next round.                                         *)
EXTENDS Naturals, FiniteSets
CONSTANTS Threads, N, Rounds, Variant
VARIABLES lk, counter, waiting, pc, left, entries, returns
vars == <<lk, counter, waiting, pc, left, entries, returns>>
None == 0
Init == /\ lk = None /\ counter = 0 /\ waiting = {} /\ entries = 0 /\ returns = 0
        /\ pc = [t \in Threads |-> "idle"] /\ left = [t \in Threads |-> Rounds]
Go(t, a, b) == pc[t] = a /\ pc' = [pc EXCEPT ![t] = b]
Start(t) == Go(t, "idle", "acq") /\ left[t] > 0 /\ UNCHANGED <<lk, counter, waiting, left, entries, returns>>
Acq(t) == Go(t, "acq", "inc") /\ lk = None /\ lk' = t /\ UNCHANGED <<counter, waiting, left, entries, returns>>
Inc(t) == /\ pc[t] = "inc" /\ counter' = counter + 1 /\ entries' = entries + 1
          /\ pc' = [pc EXCEPT ![t] = IF counter + 1 < N THEN "enq"
                                     ELSE IF Variant = "BcastLate" THEN "reset" ELSE "bcast"]
          /\ UNCHANGED <<lk, waiting, left, returns>>
\* not the last one: enqueue under the lock, release it in the suspend callback, sleep
Enq(t) == Go(t, "enq", "sleepunlock") /\ waiting' = waiting \cup {t} /\ UNCHANGED <<lk, counter, left, entries, returns>>
SleepUnlock(t) == Go(t, "sleepunlock", "sleep") /\ lk' = None /\ UNCHANGED <<counter, waiting, left, entries, returns>>
Woken(t) == Go(t, "sleep", "ret") /\ t \notin waiting /\ UNCHANGED <<lk, counter, waiting, left, entries, returns>>
\* the last one
Bcast(t) == /\ pc[t] = "bcast" /\ waiting' = {}
            /\ pc' = [pc EXCEPT ![t] = CASE Variant = "ResetLate" -> "rel" [] Variant = "BcastLate" -> "ret" [] OTHER -> "reset"]
            /\ UNCHANGED <<lk, counter, left, entries, returns>>
Reset(t) == /\ pc[t] = "reset" /\ counter' = 0
            /\ pc' = [pc EXCEPT ![t] = IF Variant = "ResetLate" THEN "ret" ELSE "rel"]
            /\ UNCHANGED <<lk, waiting, left, entries, returns>>
Rel(t) == /\ pc[t] = "rel" /\ lk' = None
          /\ pc' = [pc EXCEPT ![t] = CASE Variant = "ResetLate" -> "reset" [] Variant = "BcastLate" -> "bcast" [] OTHER -> "ret"]
          /\ UNCHANGED <<counter, waiting, left, entries, returns>>
Ret(t) == Go(t, "ret", "idle") /\ returns' = returns + 1 /\ left' = [left EXCEPT ![t] = @ - 1] /\ UNCHANGED <<lk, counter, waiting, entries>>
Step(t) == Start(t) \/ Acq(t) \/ Inc(t) \/ Enq(t) \/ SleepUnlock(t) \/ Woken(t) \/ Bcast(t) \/ Reset(t) \/ Rel(t) \/ Ret(t)
Next == \E t \in Threads : Step(t)
Spec == Init /\ [][Next]_vars /\ \A t \in Threads : WF_vars(Step(t))
\* only complete rounds return (a caller at "ret" has been released already)
Released == returns + Cardinality({t \in Threads : pc[t] = "ret"})
NoEarlyRelease == Released <= N * (entries \div N)
CounterBelowN == lk = None => counter < N
\* the sleepers are exactly the callers of the incomplete round
SleepersMatch == lk = None /\ (\A t \in Threads : pc[t] \notin {"ret", "sleep"} \/ t \in waiting) => Cardinality(waiting) = counter
AllDone == <>(\A t \in Threads : left[t] = 0 /\ pc[t] = "idle")
=============================================================================
