---------------------------- MODULE BarrierProto ----------------------------
(* Level B: ABT_barrier_wait as coded in barrier.c, one action per shared-memory
   access.

   wait:   acquire(lock); counter++;
           if (counter < num_waiters) { enqueue on the wait list; release(lock) and sleep }   -- ABTI_waitlist_wait_and_unlock
           else { broadcast (wake every waiter); counter = 0; release(lock) }

   More callers than num_waiters may use the barrier (Threads may be larger than
   N), so consecutive rounds overlap: a caller of round r+1 can take the lock
   while the sleepers of round r have not run yet.

   With N2 # N a caller that has left a round re-initialises the barrier (N <-> N2)
   while the others, and the last arriver past its broadcast, are still leaving.

   Checked: nobody is released early -- at any time the number of callers that
   have been released is at most the sum of the sizes of the complete rounds; the counter is below N whenever the lock is free (the ABTI_ASSERT of
   the code); under weak fairness every caller completes all its rounds
   (checked where |Threads| = N: with more callers than N the program itself may leave a caller without partners).

   Non-vacuity witnesses, TLC must reject each:
     Variant = "ResetLate"   the counter is reset after the lock is released: a
                             released caller re-enters, sees counter = N and
                             leaves the next round alone;
     Variant = "SubReset"    the counter is reset by `counter -= num_waiters` (= seeded C08-m7): the
                             count re-read there has been changed by a reinit (N2 # N);
     Variant = "BcastLate"   the broadcast is issued after the lock is released:
                             it wakes a caller that is already waiting for the
                             next round.                                         *)
EXTENDS Integers, FiniteSets
CONSTANTS Threads, N, N2, Rounds, Variant
VARIABLES lk, counter, waiting, pc, left, entries, returns, numw, cur, allowed
vars == <<lk, counter, waiting, pc, left, entries, returns, numw, cur, allowed>>
None == 0
Init == /\ lk = None /\ counter = 0 /\ waiting = {} /\ entries = 0 /\ returns = 0 /\ numw = N /\ cur = 0 /\ allowed = 0
        /\ pc = [t \in Threads |-> "idle"] /\ left = [t \in Threads |-> Rounds]
Go(t, a, b) == pc[t] = a /\ pc' = [pc EXCEPT ![t] = b]
Start(t) == Go(t, "idle", "acq") /\ left[t] > 0 /\ UNCHANGED <<lk, counter, waiting, left, entries, returns, numw, cur, allowed>>
Acq(t) == Go(t, "acq", "inc") /\ lk = None /\ lk' = t /\ UNCHANGED <<counter, waiting, left, entries, returns, numw, cur, allowed>>
Inc(t) == /\ pc[t] = "inc" /\ counter' = counter + 1 /\ entries' = entries + 1
          /\ pc' = [pc EXCEPT ![t] = IF counter + 1 < numw THEN "enq"
                                     ELSE IF Variant = "BcastLate" THEN "reset" ELSE "bcast"]
          \* ghost: what the property says -- a round is complete when numw callers have entered it
          /\ IF cur + 1 = numw THEN cur' = 0 /\ allowed' = allowed + numw ELSE cur' = cur + 1 /\ allowed' = allowed
          /\ UNCHANGED <<lk, waiting, left, returns, numw>>
\* not the last one: enqueue under the lock, release it in the suspend callback, sleep
Enq(t) == Go(t, "enq", "sleepunlock") /\ waiting' = waiting \cup {t} /\ UNCHANGED <<lk, counter, left, entries, returns, numw, cur, allowed>>
SleepUnlock(t) == Go(t, "sleepunlock", "sleep") /\ lk' = None /\ UNCHANGED <<counter, waiting, left, entries, returns, numw, cur, allowed>>
Woken(t) == Go(t, "sleep", "ret") /\ t \notin waiting /\ UNCHANGED <<lk, counter, waiting, left, entries, returns, numw, cur, allowed>>
\* the last one
Bcast(t) == /\ pc[t] = "bcast" /\ waiting' = {}
            /\ pc' = [pc EXCEPT ![t] = CASE Variant = "ResetLate" -> "rel" [] Variant = "BcastLate" -> "ret" [] OTHER -> "reset"]
            /\ UNCHANGED <<lk, counter, left, entries, returns, numw, cur, allowed>>
Reset(t) == /\ pc[t] = "reset" /\ counter' = (IF Variant = "SubReset" THEN counter - numw ELSE 0)
            /\ pc' = [pc EXCEPT ![t] = IF Variant = "ResetLate" THEN "ret" ELSE "rel"]
            /\ UNCHANGED <<lk, waiting, left, entries, returns, numw, cur, allowed>>
Rel(t) == /\ pc[t] = "rel" /\ lk' = None
          /\ pc' = [pc EXCEPT ![t] = CASE Variant = "ResetLate" -> "reset" [] Variant = "BcastLate" -> "bcast" [] OTHER -> "ret"]
          /\ UNCHANGED <<counter, waiting, left, entries, returns, numw, cur, allowed>>
Ret(t) == Go(t, "ret", "idle") /\ returns' = returns + 1 /\ left' = [left EXCEPT ![t] = @ - 1] /\ UNCHANGED <<lk, counter, waiting, entries, numw, cur, allowed>>
\* ABT_barrier_reinit by a caller that has left the round while others (and the last arriver, past its
\* broadcast) are still leaving it; nobody has entered the next round.  A plain store, no lock (barrier.c).
Reinit(t) == /\ N2 # N /\ pc[t] = "idle" /\ left[t] > 0 /\ returns > 0 /\ waiting = {} /\ cur = 0
             /\ \A u \in Threads : pc[u] \in {"idle", "sleep", "ret", "reset", "rel"}
             /\ numw' = (IF numw = N THEN N2 ELSE N)
             /\ UNCHANGED <<lk, counter, waiting, pc, left, entries, returns, cur, allowed>>
Step(t) == Reinit(t) \/ Start(t) \/ Acq(t) \/ Inc(t) \/ Enq(t) \/ SleepUnlock(t) \/ Woken(t) \/ Bcast(t) \/ Reset(t) \/ Rel(t) \/ Ret(t)
Next == \E t \in Threads : Step(t)
Spec == Init /\ [][Next]_vars /\ \A t \in Threads : WF_vars(Step(t))
\* only complete rounds return (a caller at "ret" has been released already)
Released == returns + Cardinality({t \in Threads : pc[t] = "ret"})
NoEarlyRelease == Released <= allowed
CounterBelowN == lk = None => counter >= 0 /\ counter < numw
\* the sleepers are exactly the callers of the incomplete round
SleepersMatch == lk = None /\ (\A t \in Threads : pc[t] \notin {"ret", "sleep"} \/ t \in waiting) => Cardinality(waiting) = counter
AllDone == <>(\A t \in Threads : left[t] = 0 /\ pc[t] = "idle")
=============================================================================
