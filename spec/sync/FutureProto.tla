----------------------------- MODULE FutureProto -----------------------------
(* Level B: ABT_future as coded in futures.c, one action per shared-memory
   access.

   set:   acquire(lock); c = counter;
          if (c >= N) { release(lock); return ABT_ERR_FUTURE }
          array[c] = value; c++;
          if (c == N) callback(array);            -- before the counter is published
          counter = c  (release store);
          if (c == N) broadcast;
          release(lock)
   wait:  acquire(lock); if (counter < N) enqueue, release(lock) and sleep   -- ABTI_waitlist_wait_and_unlock
          else release(lock)
   test:  ready = (counter == N)                  -- no lock

   Checked: the callback runs exactly once, with the N values of the N
   successful sets, before any waiter returns and before any test reports
   ready; the sets beyond the N-th fail and change nothing; under weak fairness
   every setter and waiter returns.

   Non-vacuity witnesses, TLC must reject each:
     Variant = "PublishEarly"    counter stored before the callback runs (= a
                                 seeded change of C09): a test sees ready first;
     Variant = "CheckUnlocked"   wait reads the counter before taking the lock:
                                 the broadcast passes between its check and its
                                 enqueue, the waiter sleeps for ever.            *)
EXTENDS Naturals, FiniteSets
CONSTANTS Setters, Waiters, Testers, N, Variant
VARIABLES lk, counter, arr, cbCount, cbArgs, waiting, pc, c, failed
vars == <<lk, counter, arr, cbCount, cbArgs, waiting, pc, c, failed>>
None == 0
Threads == Setters \cup Waiters \cup Testers
Init == /\ lk = None /\ counter = 0 /\ arr = [i \in 1..N |-> None] /\ cbCount = 0 /\ cbArgs = [i \in 1..N |-> None]
        /\ waiting = {} /\ failed = {} /\ c = [t \in Setters |-> 0]
        /\ pc = [t \in Threads |-> IF t \in Setters THEN "sacq" ELSE IF t \in Waiters THEN (IF Variant = "CheckUnlocked" THEN "wcheck0" ELSE "wacq") ELSE "test"]
Go(t, a, b) == pc[t] = a /\ pc' = [pc EXCEPT ![t] = b]
\* ---- set
SAcq(t) == Go(t, "sacq", "sread") /\ lk = None /\ lk' = t /\ UNCHANGED <<counter, arr, cbCount, cbArgs, waiting, c, failed>>
SRead(t) == /\ pc[t] = "sread" /\ c' = [c EXCEPT ![t] = counter]
            /\ pc' = [pc EXCEPT ![t] = IF counter >= N THEN "sfailrel" ELSE "swrite"]
            /\ UNCHANGED <<lk, counter, arr, cbCount, cbArgs, waiting, failed>>
SFailRel(t) == Go(t, "sfailrel", "done") /\ lk' = None /\ failed' = failed \cup {t} /\ UNCHANGED <<counter, arr, cbCount, cbArgs, waiting, c>>
SWrite(t) == /\ pc[t] = "swrite" /\ arr' = [arr EXCEPT ![c[t] + 1] = t] /\ c' = [c EXCEPT ![t] = @ + 1]
             /\ pc' = [pc EXCEPT ![t] = IF c[t] + 1 = N /\ Variant # "PublishEarly" THEN "scb" ELSE "sstore"]
             /\ UNCHANGED <<lk, counter, cbCount, cbArgs, waiting, failed>>
SCb(t) == /\ pc[t] = "scb" /\ cbCount' = cbCount + 1 /\ cbArgs' = arr
          /\ pc' = [pc EXCEPT ![t] = IF Variant = "PublishEarly" THEN "sbcast" ELSE "sstore"]
          /\ UNCHANGED <<lk, counter, arr, waiting, c, failed>>
SStore(t) == /\ pc[t] = "sstore" /\ counter' = c[t]
             /\ pc' = [pc EXCEPT ![t] = IF c[t] = N THEN (IF Variant = "PublishEarly" THEN "scb" ELSE "sbcast") ELSE "srel"]
             /\ UNCHANGED <<lk, arr, cbCount, cbArgs, waiting, c, failed>>
SBcast(t) == Go(t, "sbcast", "srel") /\ waiting' = {} /\ UNCHANGED <<lk, counter, arr, cbCount, cbArgs, c, failed>>
SRel(t) == Go(t, "srel", "done") /\ lk' = None /\ UNCHANGED <<counter, arr, cbCount, cbArgs, waiting, c, failed>>
\* ---- wait
WCheck0(t) == /\ pc[t] = "wcheck0" /\ pc' = [pc EXCEPT ![t] = IF counter < N THEN "wacq" ELSE "ret"]
              /\ UNCHANGED <<lk, counter, arr, cbCount, cbArgs, waiting, c, failed>>
WAcq(t) == /\ pc[t] = "wacq" /\ lk = None /\ lk' = t /\ pc' = [pc EXCEPT ![t] = IF Variant = "CheckUnlocked" THEN "wenq" ELSE "wcheck"]
           /\ UNCHANGED <<counter, arr, cbCount, cbArgs, waiting, c, failed>>
WCheck(t) == /\ pc[t] = "wcheck" /\ pc' = [pc EXCEPT ![t] = IF counter < N THEN "wenq" ELSE "wrel"]
             /\ UNCHANGED <<lk, counter, arr, cbCount, cbArgs, waiting, c, failed>>
WEnq(t) == Go(t, "wenq", "wsleepunlock") /\ waiting' = waiting \cup {t} /\ UNCHANGED <<lk, counter, arr, cbCount, cbArgs, c, failed>>
WSleepUnlock(t) == Go(t, "wsleepunlock", "wsleep") /\ lk' = None /\ UNCHANGED <<counter, arr, cbCount, cbArgs, waiting, c, failed>>
WWoken(t) == Go(t, "wsleep", "ret") /\ t \notin waiting /\ UNCHANGED <<lk, counter, arr, cbCount, cbArgs, waiting, c, failed>>
WRel(t) == Go(t, "wrel", "ret") /\ lk' = None /\ UNCHANGED <<counter, arr, cbCount, cbArgs, waiting, c, failed>>
\* ---- test (may be repeated until it reports ready)
Test(t) == /\ pc[t] = "test" /\ pc' = [pc EXCEPT ![t] = IF counter = N THEN "sawready" ELSE "test"]
           /\ UNCHANGED <<lk, counter, arr, cbCount, cbArgs, waiting, c, failed>>
Step(t) == \/ SAcq(t) \/ SRead(t) \/ SFailRel(t) \/ SWrite(t) \/ SCb(t) \/ SStore(t) \/ SBcast(t) \/ SRel(t)
           \/ WCheck0(t) \/ WAcq(t) \/ WCheck(t) \/ WEnq(t) \/ WSleepUnlock(t) \/ WWoken(t) \/ WRel(t) \/ Test(t)
Next == \E t \in Threads : Step(t)
Spec == Init /\ [][Next]_vars /\ \A t \in Threads : WF_vars(Step(t))
CallbackOnce == cbCount <= 1
CallbackBeforeReady == (\E t \in Threads : pc[t] \in {"ret", "sawready"}) => cbCount = 1 /\ counter = N
\* the callback saw N values of N different successful setters, and nothing is written afterwards
ValuesKept == cbCount = 1 => /\ arr = cbArgs
                             /\ \A i \in 1..N : arr[i] \in Setters \ failed
                             /\ \A i, j \in 1..N : i # j => arr[i] # arr[j]
ExtraSetsFail == (\A t \in Setters : pc[t] = "done") => Cardinality(failed) = Cardinality(Setters) - N /\ counter = N
AllDone == <>(\A t \in Setters \cup Waiters : pc[t] \in {"done", "ret"})
=============================================================================
