------------------------------ MODULE CondProto ------------------------------
(* Level B: ABT_cond_wait / signal / broadcast as coded in abti_cond.h, cond.c.

   wait(c, m):   acquire(c.lock); unlock(m); enqueue on c's wait list and
                 release(c.lock) + sleep; when woken: lock(m)
   signal(c):    acquire(c.lock); wake the first waiter; release(c.lock)
   broadcast(c): acquire(c.lock); wake all; release(c.lock)

   The user mutex m is abstracted to an atomic lock (MutexProto.tla models it).
   Waiters follow the standard discipline: under m, `while (!pred) wait(c, m)`;
   the setter takes m, makes the predicate true, releases m, then signals.

   Checked: the release of m and the enqueue are atomic with respect to
   signal/broadcast (no signal can fall between them), so every waiter
   terminates (liveness under weak fairness); the mutex is held whenever wait
   returns.

   UnlockFirst = TRUE releases the user mutex BEFORE taking the condition
   variable's lock: a signal can then be lost.  Non-vacuity witness.        *)
EXTENDS Naturals, FiniteSets, Sequences
CONSTANTS Waiters, UnlockFirst, UseBroadcast   \* (UseBroadcast is informative: a signal per waiter is subsumed by the broadcast)
VARIABLES m, cl, q, pred, pc, spc
vars == <<m, cl, q, pred, pc, spc>>
None == 0
Setter == 99
Init == m = None /\ cl = None /\ q = <<>> /\ pred = FALSE /\ pc = [w \in Waiters |-> "lockm"] /\ spc = "lockm"
InQ(w) == \E i \in 1..Len(q) : q[i] = w
Go(w, a, b) == pc[w] = a /\ pc' = [pc EXCEPT ![w] = b]
\* ---- waiters
LockM(w) == Go(w, "lockm", "test") /\ m = None /\ m' = w /\ UNCHANGED <<cl, q, pred, spc>>
Test(w) == /\ pc[w] = "test" /\ pc' = [pc EXCEPT ![w] = IF pred THEN "unlockdone" ELSE (IF UnlockFirst THEN "unlockm" ELSE "clacq")]
           /\ UNCHANGED <<m, cl, q, pred, spc>>
ClAcq(w) == /\ pc[w] = "clacq" /\ cl = None /\ cl' = w /\ pc' = [pc EXCEPT ![w] = IF UnlockFirst THEN "enq" ELSE "unlockm"]
            /\ UNCHANGED <<m, q, pred, spc>>
UnlockM(w) == /\ pc[w] = "unlockm" /\ m = w /\ m' = None /\ pc' = [pc EXCEPT ![w] = IF UnlockFirst THEN "clacq" ELSE "enq"]
              /\ UNCHANGED <<cl, q, pred, spc>>
Enq(w) == Go(w, "enq", "sleepunlock") /\ q' = Append(q, w) /\ UNCHANGED <<m, cl, pred, spc>>
SleepUnlock(w) == Go(w, "sleepunlock", "sleep") /\ cl' = None /\ UNCHANGED <<m, q, pred, spc>>
Woken(w) == Go(w, "sleep", "lockm") /\ ~InQ(w) /\ UNCHANGED <<m, cl, q, pred, spc>>
Done(w) == Go(w, "unlockdone", "done") /\ m = w /\ m' = None /\ UNCHANGED <<cl, q, pred, spc>>
\* ---- the setter: one state change, then one signal per waiter (or one broadcast)
SLockM == spc = "lockm" /\ m = None /\ m' = Setter /\ spc' = "set" /\ UNCHANGED <<cl, q, pred, pc>>
SSet == spc = "set" /\ pred' = TRUE /\ spc' = "unlockm" /\ UNCHANGED <<m, cl, q, pc>>
SUnlockM == spc = "unlockm" /\ m' = None /\ spc' = "clacq" /\ UNCHANGED <<cl, q, pred, pc>>
SClAcq == spc = "clacq" /\ cl = None /\ cl' = Setter /\ spc' = "wake" /\ UNCHANGED <<m, q, pred, pc>>
SWake == /\ spc = "wake" /\ q' = <<>> /\ spc' = "clrel" /\ UNCHANGED <<m, cl, pred, pc>>   \* broadcast (a signal per waiter is subsumed: pred stays true)
SClRel == spc = "clrel" /\ cl' = None /\ spc' = "end" /\ UNCHANGED <<m, q, pred, pc>>
Next == \/ \E w \in Waiters : LockM(w) \/ Test(w) \/ ClAcq(w) \/ UnlockM(w) \/ Enq(w) \/ SleepUnlock(w) \/ Woken(w) \/ Done(w)
        \/ SLockM \/ SSet \/ SUnlockM \/ SClAcq \/ SWake \/ SClRel
Fair == /\ \A w \in Waiters : WF_vars(LockM(w) \/ Test(w) \/ ClAcq(w) \/ UnlockM(w) \/ Enq(w) \/ SleepUnlock(w) \/ Woken(w) \/ Done(w))
        /\ WF_vars(SLockM \/ SSet \/ SUnlockM \/ SClAcq \/ SWake \/ SClRel)
Spec == Init /\ [][Next]_vars /\ Fair
\* whoever tests the predicate holds the mutex
HoldsAtTest == \A w \in Waiters : pc[w] \in {"test", "unlockdone"} => m = w
AllReturn == <>(\A w \in Waiters : pc[w] = "done")
=============================================================================
