SPECIFICATION Spec
CONSTANTS Threads = {1,2,3}
  Rounds = 2
  NoRecheck = TRUE
INVARIANT MutualExclusion
PROPERTY AllDone
CHECK_DEADLOCK FALSE
