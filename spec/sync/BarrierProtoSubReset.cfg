SPECIFICATION Spec
CONSTANTS Threads = {1,2,3}
  N = 3
  N2 = 2
  Rounds = 3
  Variant = "SubReset"
INVARIANTS NoEarlyRelease CounterBelowN
CHECK_DEADLOCK FALSE
