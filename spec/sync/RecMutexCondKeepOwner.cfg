SPECIFICATION Spec
CONSTANTS Threads = {1,2}
  KeepOwner = TRUE
  MaxOps = 5
INVARIANT HolderHasLock Exclusive FreeMeansFlat
CHECK_DEADLOCK FALSE
