---------------------------- MODULE RecMutexCond ----------------------------
(* Level B: the recursive layer of ABT_mutex (abti_mutex.h) together with the
   release / re-acquisition that a condition-variable wait performs
   (abti_cond.h, cond.c), one action per shared-memory access.

   lock(t):    if (owner_id != t) { lock_no_recursion(); owner_id = t; }   -- nesting_cnt is 0 here
               else nesting_cnt++;
   unlock(t):  if (nesting_cnt == 0) { owner_id = none; unlock_no_recursion(); }
               else nesting_cnt--;
   wait(t):    (enqueue on the condition variable) unlock(t); sleep; ... woken ...; lock(t)

   Checked: whoever believes to hold the mutex (is between a lock that returned
   and the matching unlock, not inside a wait) really holds the underlying lock,
   and at most one thread does (HolderHasLock, Exclusive); the nesting counter is
   zero whenever the mutex is free.

   KeepOwner = TRUE is the seeded change C04-m6 / C05-m5: the wait releases the
   mutex with unlock_no_recursion(), which leaves owner_id behind; the
   re-acquisition then takes the "already mine" branch and returns without the
   underlying lock.  Non-vacuity witness.                                    *)
EXTENDS Naturals, FiniteSets
CONSTANTS Threads, KeepOwner, MaxOps
VARIABLES u, owner, nest, pc, depth, ops
vars == <<u, owner, nest, pc, depth, ops>>
None == 0
Init == u = None /\ owner = None /\ nest = 0 /\ pc = [t \in Threads |-> "idle"] /\ depth = [t \in Threads |-> 0] /\ ops = 0
Go(t, a, b) == pc[t] = a /\ pc' = [pc EXCEPT ![t] = b]
\* ---- lock (also used for the re-acquisition after a wait: pc "relock")
LockRead(t) == /\ pc[t] \in {"idle", "held", "relock"} /\ (pc[t] # "relock" => ops < MaxOps)
               /\ ops' = (IF pc[t] = "relock" THEN ops ELSE ops + 1)
               /\ pc' = [pc EXCEPT ![t] = IF owner = t THEN "l_nest" ELSE "l_acq"]
               /\ UNCHANGED <<u, owner, nest, depth>>
LockAcq(t) == Go(t, "l_acq", "l_own") /\ u = None /\ u' = t /\ UNCHANGED <<owner, nest, depth, ops>>
LockOwn(t) == Go(t, "l_own", "held") /\ owner' = t /\ depth' = [depth EXCEPT ![t] = @ + 1] /\ UNCHANGED <<u, nest, ops>>
LockNest(t) == Go(t, "l_nest", "held") /\ nest' = nest + 1 /\ depth' = [depth EXCEPT ![t] = @ + 1] /\ UNCHANGED <<u, owner, ops>>
\* ---- unlock
UnlockRead(t) == /\ pc[t] = "held" /\ depth[t] > 0
                 /\ pc' = [pc EXCEPT ![t] = IF nest = 0 THEN "u_own" ELSE "u_nest"] /\ UNCHANGED <<u, owner, nest, depth, ops>>
UnlockOwn(t) == Go(t, "u_own", "u_rel") /\ owner' = None /\ UNCHANGED <<u, nest, depth, ops>>
UnlockRel(t) == /\ pc[t] = "u_rel" /\ u' = None /\ depth' = [depth EXCEPT ![t] = @ - 1]
                /\ pc' = [pc EXCEPT ![t] = "idle"] /\ UNCHANGED <<owner, nest, ops>>
UnlockNest(t) == /\ pc[t] = "u_nest" /\ nest' = nest - 1 /\ depth' = [depth EXCEPT ![t] = @ - 1]
                 /\ pc' = [pc EXCEPT ![t] = "held"] /\ UNCHANGED <<u, owner, ops>>
\* ---- a wait by a thread that holds the mutex exactly once
WaitStart(t) == /\ pc[t] = "held" /\ depth[t] = 1 /\ ops < MaxOps /\ ops' = ops + 1
                /\ pc' = [pc EXCEPT ![t] = IF KeepOwner THEN "w_rel" ELSE "w_own"] /\ UNCHANGED <<u, owner, nest, depth>>
WaitOwn(t) == Go(t, "w_own", "w_rel") /\ owner' = None /\ UNCHANGED <<u, nest, depth, ops>>
WaitRel(t) == /\ pc[t] = "w_rel" /\ u' = None /\ depth' = [depth EXCEPT ![t] = 0]
              /\ pc' = [pc EXCEPT ![t] = "asleep"] /\ UNCHANGED <<owner, nest, ops>>
\* woken by a signal (the signaller need not hold the mutex)
Woken(t) == Go(t, "asleep", "relock") /\ UNCHANGED <<u, owner, nest, depth, ops>>
Next == \E t \in Threads : LockRead(t) \/ LockAcq(t) \/ LockOwn(t) \/ LockNest(t) \/ UnlockRead(t) \/ UnlockOwn(t)
                           \/ UnlockRel(t) \/ UnlockNest(t) \/ WaitStart(t) \/ WaitOwn(t) \/ WaitRel(t) \/ Woken(t)
Spec == Init /\ [][Next]_vars
Believes(t) == depth[t] > 0 /\ pc[t] \in {"held", "l_nest", "l_acq", "u_own", "u_nest", "w_own"}
HolderHasLock == \A t \in Threads : Believes(t) => u = t
Exclusive == Cardinality({t \in Threads : Believes(t)}) <= 1
FreeMeansFlat == u = None => nest = 0
=============================================================================
