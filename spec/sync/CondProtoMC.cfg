SPECIFICATION Spec
CONSTANTS Waiters = {1,2,3}
  UnlockFirst = FALSE
  UseBroadcast = TRUE
INVARIANT HoldsAtTest
PROPERTY AllReturn
CHECK_DEADLOCK FALSE
