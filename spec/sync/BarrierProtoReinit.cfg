SPECIFICATION Spec
CONSTANTS Threads = {1,2,3}
  N = 3
  N2 = 2
  Rounds = 3
  Variant = "None"
INVARIANTS NoEarlyRelease CounterBelowN SleepersMatch
CHECK_DEADLOCK FALSE
