----------------------------- MODULE WaitSuspend -----------------------------
(* Level B: how a ULT goes to sleep on a wait list and is woken, as coded
   (abti_waitlist.h ABTI_waitlist_wait_and_unlock / _signal, ythread.c
   ABTI_ythread_callback_suspend_unlock, abti_ythread.h resume_and_push), with a
   cancellation request arriving at any time.  One action per shared access.

   waiter (holds the object's lock L):  link itself into the list; switch to the
        scheduler (context saved); there the callback runs:
            handle requests (a cancellation is NOT acted upon here);
            num_blocked++;  state = BLOCKED;  release(L)
   waker:  acquire(L); if the list is not empty: unlink the first waiter,
            ABTI_ASSERT(state == BLOCKED), state = READY, push, num_blocked--;  release(L)
   scheduler:  pop; a unit whose cancellation is pending is terminated instead of
            being run; otherwise state = RUNNING, jump into the saved context

   Checked: the waker always finds its waiter BLOCKED (the lock is released only
   after the state is published); a terminated unit is never linked in a list
   whose lock is free; nobody jumps into an unsaved context; num_blocked is
   never negative and 0 at the end; under weak fairness the waiter ends up
   running again or terminated by its cancellation, and the waker returns.

   Non-vacuity witnesses, TLC must reject each:
     Variant = "TermInCb"     the callback acts on a pending cancellation (= seeded
                              C05-m7): the unit is terminated while linked;
     Variant = "UnlockFirst"  the callback releases L before publishing BLOCKED. *)
EXTENDS Integers
CONSTANT Variant
VARIABLES lk, linked, st, ctxSaved, creq, pcW, pcK, inpool, blocked, bad
vars == <<lk, linked, st, ctxSaved, creq, pcW, pcK, inpool, blocked, bad>>
Init == /\ lk = "W" /\ linked = FALSE /\ st = "RUNNING" /\ ctxSaved = FALSE /\ creq = FALSE
        /\ pcW = "link" /\ pcK = "acq" /\ inpool = FALSE /\ blocked = 0 /\ bad = FALSE
\* ---- the waiter, then the callback on the scheduler's context
Link == pcW = "link" /\ linked' = TRUE /\ pcW' = "save" /\ UNCHANGED <<lk, st, ctxSaved, creq, pcK, inpool, blocked, bad>>
Save == pcW = "save" /\ ctxSaved' = TRUE /\ pcW' = "cb_req" /\ UNCHANGED <<lk, linked, st, creq, pcK, inpool, blocked, bad>>
CbReq == /\ pcW = "cb_req"
         /\ IF Variant = "TermInCb" /\ creq THEN st' = "TERMINATED" /\ pcW' = "cb_unlock_only"
            ELSE st' = st /\ pcW' = (IF Variant = "UnlockFirst" THEN "cb_unlock" ELSE "cb_inc")
         /\ UNCHANGED <<lk, linked, ctxSaved, creq, pcK, inpool, blocked, bad>>
CbInc == pcW = "cb_inc" /\ blocked' = blocked + 1 /\ pcW' = "cb_store" /\ UNCHANGED <<lk, linked, st, ctxSaved, creq, pcK, inpool, bad>>
CbStore == /\ pcW = "cb_store" /\ st' = "BLOCKED" /\ pcW' = (IF Variant = "UnlockFirst" THEN "asleep" ELSE "cb_unlock")
           /\ UNCHANGED <<lk, linked, ctxSaved, creq, pcK, inpool, blocked, bad>>
CbUnlock == /\ pcW \in {"cb_unlock", "cb_unlock_only"} /\ lk' = "none"
            /\ pcW' = (IF pcW = "cb_unlock_only" THEN "dead" ELSE IF Variant = "UnlockFirst" THEN "cb_inc" ELSE "asleep")
            /\ UNCHANGED <<linked, st, ctxSaved, creq, pcK, inpool, blocked, bad>>
\* ---- the canceller (ABT_thread_cancel: sets the request bit of a unit that has not terminated)
Cancel == ~creq /\ st # "TERMINATED" /\ creq' = TRUE /\ UNCHANGED <<lk, linked, st, ctxSaved, pcW, pcK, inpool, blocked, bad>>
\* ---- the waker (signal / set / unlock of the object)
KAcq == pcK = "acq" /\ lk = "none" /\ lk' = "K" /\ pcK' = "look" /\ UNCHANGED <<linked, st, ctxSaved, creq, pcW, inpool, blocked, bad>>
KLook == /\ pcK = "look" /\ IF linked THEN linked' = FALSE /\ pcK' = "assert" ELSE linked' = linked /\ pcK' = "rel"
         /\ UNCHANGED <<lk, st, ctxSaved, creq, pcW, inpool, blocked, bad>>
KAssert == /\ pcK = "assert" /\ bad' = (bad \/ st # "BLOCKED") /\ st' = "READY" /\ pcK' = "push"
           /\ UNCHANGED <<lk, linked, ctxSaved, creq, pcW, inpool, blocked>>
KPush == pcK = "push" /\ inpool' = TRUE /\ pcK' = "dec" /\ UNCHANGED <<lk, linked, st, ctxSaved, creq, pcW, blocked, bad>>
KDec == pcK = "dec" /\ blocked' = blocked - 1 /\ pcK' = "rel" /\ UNCHANGED <<lk, linked, st, ctxSaved, creq, pcW, inpool, bad>>
KRel == pcK = "rel" /\ lk' = "none" /\ pcK' = (IF pcW \in {"running", "dead"} \/ inpool THEN "done" ELSE "acq")
        /\ UNCHANGED <<linked, st, ctxSaved, creq, pcW, inpool, blocked, bad>>
\* ---- the scheduler of the waiter's pool
Pop == /\ inpool /\ inpool' = FALSE
       /\ IF creq THEN st' = "TERMINATED" /\ pcW' = "dead" /\ UNCHANGED <<ctxSaved, bad>>
          ELSE st' = "RUNNING" /\ pcW' = "running" /\ bad' = (bad \/ ~ctxSaved \/ pcW # "asleep") /\ ctxSaved' = FALSE
       /\ UNCHANGED <<lk, linked, creq, pcK, blocked>>
Next == Link \/ Save \/ CbReq \/ CbInc \/ CbStore \/ CbUnlock \/ Cancel \/ KAcq \/ KLook \/ KAssert \/ KPush \/ KDec \/ KRel \/ Pop
Spec == Init /\ [][Next]_vars /\ WF_vars(Link \/ Save \/ CbReq \/ CbInc \/ CbStore \/ CbUnlock)
        /\ WF_vars(KAcq \/ KLook \/ KAssert \/ KPush \/ KDec \/ KRel) /\ WF_vars(Pop)
WakerFindsBlocked == ~bad
DeadNotLinked == lk = "none" /\ st = "TERMINATED" => ~linked
BlockedCount == blocked >= 0 /\ (pcK = "done" /\ pcW \in {"running", "dead"} => blocked = 0)
Done == <>(pcW \in {"running", "dead"} /\ pcK = "done")
=============================================================================
