----------------------------- MODULE MutexProto -----------------------------
(* Level B: ABT_mutex as coded in abti_mutex.h (non-recursive part), one action
   per shared-memory access.

   lock:    while (try_acquire(lock) fails) {
                acquire(waiter_lock);
                if (try_acquire(lock) succeeds) { release(waiter_lock); break; }   -- re-check under waiter_lock
                enqueue on the wait list; release(waiter_lock) and sleep            -- ABTI_waitlist_wait_and_unlock
            }
   unlock:  acquire(waiter_lock); release(lock); broadcast (wake every waiter); release(waiter_lock)

   Checked: mutual exclusion; no lost wake-up (nobody sleeps while the mutex is
   free and no unlock is in progress); under weak fairness every thread
   completes all its lock/unlock rounds.

   NoRecheck = TRUE drops the second try_acquire: a thread whose first attempt
   failed may go to sleep after the holder's broadcast.  Non-vacuity witness:
   TLC must reject it.                                                        *)
EXTENDS Naturals, FiniteSets
CONSTANTS Threads, Rounds, NoRecheck
VARIABLES lk, wl, waiting, pc, left
vars == <<lk, wl, waiting, pc, left>>
None == 0
Init == lk = None /\ wl = None /\ waiting = {} /\ pc = [t \in Threads |-> "idle"] /\ left = [t \in Threads |-> Rounds]
Go(t, a, b) == pc[t] = a /\ pc' = [pc EXCEPT ![t] = b]
Start(t) == Go(t, "idle", "try1") /\ left[t] > 0 /\ UNCHANGED <<lk, wl, waiting, left>>
Try1(t) == /\ pc[t] = "try1"
           /\ IF lk = None THEN lk' = t /\ pc' = [pc EXCEPT ![t] = "cs"] ELSE lk' = lk /\ pc' = [pc EXCEPT ![t] = "wlacq"]
           /\ UNCHANGED <<wl, waiting, left>>
WlAcq(t) == /\ pc[t] = "wlacq" /\ wl = None /\ wl' = t /\ pc' = [pc EXCEPT ![t] = IF NoRecheck THEN "enq" ELSE "try2"]
            /\ UNCHANGED <<lk, waiting, left>>
Try2(t) == /\ pc[t] = "try2"
           /\ IF lk = None THEN lk' = t /\ pc' = [pc EXCEPT ![t] = "wlrel"] ELSE lk' = lk /\ pc' = [pc EXCEPT ![t] = "enq"]
           /\ UNCHANGED <<wl, waiting, left>>
WlRel(t) == Go(t, "wlrel", "cs") /\ wl' = None /\ UNCHANGED <<lk, waiting, left>>
\* enqueue under waiter_lock, then release it (in the suspend callback) and sleep
Enq(t) == Go(t, "enq", "sleepunlock") /\ waiting' = waiting \cup {t} /\ UNCHANGED <<lk, wl, left>>
SleepUnlock(t) == Go(t, "sleepunlock", "sleep") /\ wl' = None /\ UNCHANGED <<lk, waiting, left>>
Woken(t) == Go(t, "sleep", "try1") /\ t \notin waiting /\ UNCHANGED <<lk, wl, waiting, left>>
\* the critical section, then unlock
Leave(t) == Go(t, "cs", "uwl") /\ UNCHANGED <<lk, wl, waiting, left>>
UWl(t) == /\ pc[t] = "uwl" /\ wl = None /\ wl' = t /\ pc' = [pc EXCEPT ![t] = "urel"] /\ UNCHANGED <<lk, waiting, left>>
URel(t) == Go(t, "urel", "ubcast") /\ lk' = None /\ UNCHANGED <<wl, waiting, left>>
UBcast(t) == Go(t, "ubcast", "uwlrel") /\ waiting' = {} /\ UNCHANGED <<lk, wl, left>>
UWlRel(t) == Go(t, "uwlrel", "idle") /\ wl' = None /\ left' = [left EXCEPT ![t] = @ - 1] /\ UNCHANGED <<lk, waiting>>
Step(t) == Start(t) \/ Try1(t) \/ WlAcq(t) \/ Try2(t) \/ WlRel(t) \/ Enq(t) \/ SleepUnlock(t) \/ Woken(t)
           \/ Leave(t) \/ UWl(t) \/ URel(t) \/ UBcast(t) \/ UWlRel(t)
Next == \E t \in Threads : Step(t)
Spec == Init /\ [][Next]_vars /\ \A t \in Threads : WF_vars(Step(t))
MutualExclusion == Cardinality({t \in Threads : pc[t] \in {"cs", "uwl", "urel"}}) <= 1
                   /\ (\A t \in Threads : pc[t] \in {"cs", "uwl", "urel", "wlrel"} => lk = t)
\* nobody sleeps while the mutex is free, unless somebody is about to wake them
NoLostWakeup == waiting # {} /\ lk = None /\ wl = None =>
                    \E t \in Threads : pc[t] \in {"try1", "wlacq", "try2", "enq", "wlrel", "cs", "uwl", "urel", "ubcast"} \/ (pc[t] = "sleep" /\ t \notin waiting)
AllDone == <>(\A t \in Threads : left[t] = 0 /\ pc[t] = "idle")
=============================================================================
