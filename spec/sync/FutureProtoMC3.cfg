SPECIFICATION Spec
CONSTANTS Setters = {1,2,3,4}
  Waiters = {5,6}
  Testers = {7}
  N = 3
  Variant = "None"
INVARIANTS CallbackOnce CallbackBeforeReady ValuesKept ExtraSetsFail
PROPERTY AllDone
CHECK_DEADLOCK FALSE
