SPECIFICATION Spec
CONSTANTS Setters = {1,2,3}
  Waiters = {4,5}
  Testers = {6}
  N = 2
  Variant = "None"
INVARIANTS CallbackOnce CallbackBeforeReady ValuesKept ExtraSetsFail
PROPERTY AllDone
CHECK_DEADLOCK FALSE
