SPECIFICATION Spec
CONSTANT Variant = "None"
INVARIANTS WakerFindsBlocked DeadNotLinked BlockedCount
PROPERTY Done
CHECK_DEADLOCK FALSE
