SPECIFICATION Spec
CONSTANTS Setters = {1,2}
  Waiters = {1,2}
  ReadyBeforeLock = TRUE
  Recycle = FALSE
  UnlockBeforeBcast = FALSE
INVARIANT OneWinner
INVARIANT ValueOfWinner
INVARIANT RecyclerSeesNewSet
INVARIANT ResetLegal
PROPERTY AllReturn
CHECK_DEADLOCK FALSE
