SPECIFICATION Spec
CONSTANTS Threads = {1,2,3}
  Rounds = 2
  NoRecheck = FALSE
INVARIANT MutualExclusion
PROPERTY AllDone
CHECK_DEADLOCK FALSE
