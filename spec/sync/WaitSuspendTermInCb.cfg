SPECIFICATION Spec
CONSTANT Variant = "TermInCb"
INVARIANTS WakerFindsBlocked DeadNotLinked

CHECK_DEADLOCK FALSE
