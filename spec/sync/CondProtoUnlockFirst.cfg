SPECIFICATION Spec
CONSTANTS Waiters = {1,2}
  UnlockFirst = TRUE
  UseBroadcast = TRUE
INVARIANT HoldsAtTest
PROPERTY AllReturn
CHECK_DEADLOCK FALSE
