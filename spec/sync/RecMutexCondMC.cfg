SPECIFICATION Spec
CONSTANTS Threads = {1,2}
  KeepOwner = FALSE
  MaxOps = 5
INVARIANT HolderHasLock Exclusive FreeMeansFlat
CHECK_DEADLOCK FALSE
