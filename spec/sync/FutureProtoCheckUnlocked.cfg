SPECIFICATION Spec
CONSTANTS Setters = {1,2}
  Waiters = {3}
  Testers = {4}
  N = 2
  Variant = "CheckUnlocked"
INVARIANTS CallbackOnce CallbackBeforeReady
PROPERTY AllDone
CHECK_DEADLOCK FALSE
