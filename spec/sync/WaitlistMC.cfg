SPECIFICATION Spec
CONSTANTS Nodes = {1,2,3,4,5}
  RepairRule = "code"
INVARIANT ListIsQueue
INVARIANT TailIsLast
INVARIANT NoDanglingDeref
CHECK_DEADLOCK FALSE
