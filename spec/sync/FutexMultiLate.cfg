SPECIFICATION Spec
CONSTANTS Waiters = {1,2}
  Wakes = 2
  ReadValLate = TRUE
  ResetVal = FALSE
INVARIANT OnlyReadyReturn
PROPERTY AllReturn
CHECK_DEADLOCK FALSE
