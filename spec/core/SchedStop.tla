------------------------------ MODULE SchedStop ------------------------------
(* Level B: when may a scheduler stop?  (C01, C06)

   An execution stream that is being joined runs its scheduler until the
   scheduler "has no unit": ABTI_sched_has_unit() reads, for each pool,
   is_empty() first and num_blocked second; the stop test in
   ABTI_sched_has_to_stop() evaluates it, reads the request word, and if a
   FINISH request is there evaluates it a second time before it stops
   (src/sched/sched.c).  A ULT that suspends is counted in num_blocked by the
   suspend callback (inc, then state := BLOCKED) and un-counted by whoever
   resumes it -- ABTI_ythread_resume_and_push(): push to the pool FIRST, then
   decrement num_blocked -- so that a ULT on its way back is always visible
   through at least one of the two reads.

   One action per shared-memory access.  The scheduler's own stream is
   sequential (a unit runs, or the callback runs, or the scheduling loop
   runs); the concurrency comes from other threads that resume blocked units
   and from the joiner that sets the request.

   Checked: the scheduler never stops while a unit of its pool is unfinished,
   and num_blocked never goes negative.

   EarlyReturn = TRUE models a scheduler whose run() may return right after
   running a unit, without the stop test (BASIC_WAIT before fix 8d8da3b,
   defect S4): the main-scheduler loop then tests "FINISH requested and no
   unit" only ONCE, and that single evaluation can miss a ULT in transit.

   DecFirst = TRUE is the reordered resume (decrement, then push): TLC must
   find a run in which the scheduler stops while a ULT is in transit.        *)
EXTENDS Naturals, Integers, FiniteSets
CONSTANTS Units, DecFirst, MaxSusp, EarlyReturn
VARIABLES spc,       \* scheduler program counter
          cur,       \* unit running on the stream (0 = none)
          queue,     \* units in the pool (a set: the order does not matter here)
          nb,        \* num_blocked
          st,        \* st[u] in {"pool","running","blocking","blocked","transit","done"}
          pend,      \* pend[u]: resumers of u that have done the first of their two accesses
          nsusp,     \* nsusp[u]: how often u has suspended (bounds the model)
          req,       \* FINISH requested
          seenEmpty, \* what the stop test has read
          stopped
vars == <<spc, cur, queue, nb, st, pend, nsusp, req, seenEmpty, stopped>>
Init == /\ spc = "pop" /\ cur = 0 /\ queue = Units /\ nb = 0 /\ st = [u \in Units |-> "pool"]
        /\ pend = [u \in Units |-> 0] /\ nsusp = [u \in Units |-> 0]
        /\ req = FALSE /\ seenEmpty = FALSE /\ stopped = FALSE
\* ---- the scheduler's stream
Pop == /\ spc = "pop" /\ ~stopped
       /\ IF queue = {} THEN spc' = "h1" /\ UNCHANGED <<cur, queue, st>>
          ELSE \E u \in queue : /\ queue' = queue \ {u} /\ cur' = u /\ st' = [st EXCEPT ![u] = "running"] /\ spc' = "run"
       /\ UNCHANGED <<nb, pend, nsusp, req, seenEmpty, stopped>>
AfterUnit == IF EarlyReturn THEN {"pop", "m0"} ELSE {"pop"}
Finish == /\ spc = "run" /\ st' = [st EXCEPT ![cur] = "done"] /\ cur' = 0 /\ spc' \in AfterUnit
          /\ UNCHANGED <<queue, nb, pend, nsusp, req, seenEmpty, stopped>>
Yield == /\ spc = "run" /\ st' = [st EXCEPT ![cur] = "pool"] /\ queue' = queue \cup {cur} /\ cur' = 0 /\ spc' \in AfterUnit
         /\ UNCHANGED <<nb, pend, nsusp, req, seenEmpty, stopped>>
\* suspend: the callback runs on this stream after the switch
SuspendInc == /\ spc = "run" /\ nsusp[cur] < MaxSusp /\ nb' = nb + 1 /\ st' = [st EXCEPT ![cur] = "blocking"] /\ spc' = "susp2"
              /\ nsusp' = [nsusp EXCEPT ![cur] = @ + 1]
              /\ UNCHANGED <<cur, queue, pend, req, seenEmpty, stopped>>
SuspendPublish == /\ spc = "susp2" /\ st' = [st EXCEPT ![cur] = "blocked"] /\ cur' = 0 /\ spc' \in AfterUnit
                  /\ UNCHANGED <<queue, nb, pend, nsusp, req, seenEmpty, stopped>>
\* the stop test: has_unit() = is_empty, then num_blocked; twice if FINISH is requested
H1 == /\ spc = "h1" /\ spc' = (IF queue = {} THEN "h2" ELSE "pop") /\ UNCHANGED <<cur, queue, nb, st, pend, nsusp, req, seenEmpty, stopped>>
H2 == /\ spc = "h2" /\ spc' = (IF nb = 0 THEN "hreq" ELSE "pop") /\ UNCHANGED <<cur, queue, nb, st, pend, nsusp, req, seenEmpty, stopped>>
HReq == /\ spc = "hreq" /\ spc' = (IF req THEN "h3" ELSE "pop") /\ UNCHANGED <<cur, queue, nb, st, pend, nsusp, req, seenEmpty, stopped>>
H3 == /\ spc = "h3" /\ spc' = (IF queue = {} THEN "h4" ELSE "pop") /\ UNCHANGED <<cur, queue, nb, st, pend, nsusp, req, seenEmpty, stopped>>
H4 == /\ spc = "h4" /\ (IF nb = 0 THEN stopped' = TRUE /\ spc' = "end" ELSE stopped' = stopped /\ spc' = "pop")
      /\ UNCHANGED <<cur, queue, nb, st, pend, nsusp, req, seenEmpty>>
\* the main-scheduler loop after run() returned: request, then ONE evaluation of has_unit()
M0 == /\ spc = "m0" /\ spc' = (IF req THEN "m1" ELSE "pop") /\ UNCHANGED <<cur, queue, nb, st, pend, nsusp, req, seenEmpty, stopped>>
M1 == /\ spc = "m1" /\ spc' = (IF queue = {} THEN "m2" ELSE "pop") /\ UNCHANGED <<cur, queue, nb, st, pend, nsusp, req, seenEmpty, stopped>>
M2 == /\ spc = "m2" /\ (IF nb = 0 THEN stopped' = TRUE /\ spc' = "end" ELSE stopped' = stopped /\ spc' = "pop")
      /\ UNCHANGED <<cur, queue, nb, st, pend, nsusp, req, seenEmpty>>
\* ---- other threads
Join == ~req /\ req' = TRUE /\ UNCHANGED <<spc, cur, queue, nb, st, pend, nsusp, seenEmpty, stopped>>
\* ABTI_ythread_resume_and_push: two accesses
Resume1(u) == /\ st[u] = "blocked"
              /\ IF DecFirst THEN nb' = nb - 1 /\ st' = [st EXCEPT ![u] = "transit"] /\ UNCHANGED queue
                             ELSE queue' = queue \cup {u} /\ st' = [st EXCEPT ![u] = "pool"] /\ UNCHANGED nb
              /\ pend' = [pend EXCEPT ![u] = @ + 1]
              /\ UNCHANGED <<spc, cur, nsusp, req, seenEmpty, stopped>>
Resume2(u) == /\ pend[u] > 0
              /\ IF DecFirst THEN /\ st[u] = "transit" /\ queue' = queue \cup {u} /\ st' = [st EXCEPT ![u] = "pool"] /\ UNCHANGED nb
                             ELSE nb' = nb - 1 /\ UNCHANGED <<queue, st>>
              /\ pend' = [pend EXCEPT ![u] = @ - 1]
              /\ UNCHANGED <<spc, cur, nsusp, req, seenEmpty, stopped>>
Next == M0 \/ M1 \/ M2 \/ Pop \/ Finish \/ Yield \/ SuspendInc \/ SuspendPublish \/ H1 \/ H2 \/ HReq \/ H3 \/ H4 \/ Join
        \/ \E u \in Units : Resume1(u) \/ Resume2(u)
Spec == Init /\ [][Next]_vars
\* with the as-coded order a unit that was popped while being resumed may already run: "resuming2" units are in the queue or beyond
NoEarlyStop == stopped => \A u \in Units : st[u] = "done"
\* when nothing is in flight the counter is exact
CounterExact == (\A u \in Units : pend[u] = 0) /\ spc # "susp2" => nb = Cardinality({u \in Units : st[u] = "blocked"})
CounterOK == nb >= 0
=============================================================================
