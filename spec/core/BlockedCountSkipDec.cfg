SPECIFICATION Spec
CONSTANTS SkipDecOnCancel = TRUE
  LoadPoolLate = FALSE
  IncBeforeMigrate = FALSE
  MaxOps = 4
INVARIANT NonNeg Balanced BlockedCounted
CHECK_DEADLOCK FALSE
