SPECIFICATION Spec
CONSTANTS SkipDecOnCancel = FALSE
  LoadPoolLate = FALSE
  IncBeforeMigrate = TRUE
  MaxOps = 4
INVARIANT NonNeg Balanced BlockedCounted
CHECK_DEADLOCK FALSE
