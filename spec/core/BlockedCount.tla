---------------------------- MODULE BlockedCount ----------------------------
(* Level B: the per-pool blocked counter (C06) as the ULT switch callbacks of
   ythread.c keep it, one action per counter update / request test.

   A unit u is associated with one of two pools.  While it runs it may
     - yield            (callback: honour requests, push back)
     - yield to a partner (ABT_thread_yield_to: num_blocked of ITS pool is raised
                         before the switch "to avoid making the pool empty";
                         the callback loads the pool FIRST, honours requests,
                         pushes the unit back unless it was cancelled, and
                         lowers the counter of the pool it loaded)
     - suspend          (callback: honour a migration request -- the pool may
                         change --, raise the counter of the pool the unit will
                         come back to, publish BLOCKED); a resumer lowers the
                         counter of the unit's pool and pushes it
   Concurrently a migration request (target = the other pool) and a
   cancellation request may be raised at any time.

   Checked: no counter is ever negative (NonNeg) and, whenever the unit is
   neither blocked nor inside a directed yield, every counter is zero
   (Balanced) -- this is what lets the stop test of a joined stream
   (SchedStop.tla) trust the counter.

   Witnesses (must be violated):
     SkipDecOnCancel = TRUE   the yield_to callback returns early when the unit
                              was cancelled, without lowering the counter
                              (the counter stays 1: the stream never stops)
     LoadPoolLate = TRUE      the yield_to callback reads the unit's pool after
                              the requests were honoured, i.e. after a
                              migration (old pool stays 1, new pool gets -1)
     IncBeforeMigrate = TRUE  suspend raises the counter before it honours the
                              migration request (the resumer then lowers the
                              counter of the other pool)                    *)
EXTENDS Integers
CONSTANTS SkipDecOnCancel, LoadPoolLate, IncBeforeMigrate, MaxOps
VARIABLES pool, nb, pc, loaded, mig, cancel, ops, st
vars == <<pool, nb, pc, loaded, mig, cancel, ops, st>>
Other(p) == 3 - p
Init == /\ pool = 1 /\ nb = [p \in {1, 2} |-> 0] /\ pc = "run" /\ loaded = 0
        /\ mig = FALSE /\ cancel = FALSE /\ ops = 0 /\ st = "running"
\* ---- requests from other streams
ReqMigrate == st # "terminated" /\ ~mig /\ mig' = TRUE /\ UNCHANGED <<pool, nb, pc, loaded, cancel, ops, st>>
ReqCancel == st # "terminated" /\ ~cancel /\ cancel' = TRUE /\ UNCHANGED <<pool, nb, pc, loaded, mig, ops, st>>
\* ---- plain yield: callback = honour requests (cancel first), push back
Yield == /\ pc = "run" /\ st = "running" /\ ops < MaxOps /\ ops' = ops + 1
         /\ IF cancel THEN st' = "terminated" /\ UNCHANGED <<pool, mig>>
            ELSE /\ st' = "running"
                 /\ pool' = (IF mig THEN Other(pool) ELSE pool) /\ mig' = FALSE
         /\ UNCHANGED <<nb, pc, loaded, cancel>>
\* ---- directed yield
YtInc == /\ pc = "run" /\ st = "running" /\ ops < MaxOps /\ ops' = ops + 1
         /\ nb' = [nb EXCEPT ![pool] = @ + 1] /\ pc' = (IF LoadPoolLate THEN "yt_req" ELSE "yt_load")
         /\ UNCHANGED <<pool, loaded, mig, cancel, st>>
YtLoad == /\ pc = "yt_load" /\ loaded' = pool
          /\ pc' = (IF LoadPoolLate THEN "yt_dec" ELSE "yt_req")
          /\ UNCHANGED <<pool, nb, mig, cancel, ops, st>>
YtReq == /\ pc = "yt_req"
         /\ IF cancel
               THEN /\ st' = "terminated" /\ UNCHANGED <<pool, mig>>
                    /\ pc' = (IF SkipDecOnCancel THEN "run" ELSE IF LoadPoolLate THEN "yt_load" ELSE "yt_dec")
               ELSE /\ pool' = (IF mig THEN Other(pool) ELSE pool) /\ mig' = FALSE /\ st' = st
                    /\ pc' = (IF LoadPoolLate THEN "yt_load" ELSE "yt_dec")
         /\ UNCHANGED <<nb, loaded, cancel, ops>>
YtDec == /\ pc = "yt_dec" /\ nb' = [nb EXCEPT ![loaded] = @ - 1] /\ pc' = "run"
         /\ UNCHANGED <<pool, loaded, mig, cancel, ops, st>>
\* ---- suspend / resume
SuspReq == /\ pc = "run" /\ st = "running" /\ ops < MaxOps /\ ops' = ops + 1
           /\ IF IncBeforeMigrate
                 THEN nb' = [nb EXCEPT ![pool] = @ + 1] /\ pc' = "susp_mig" /\ UNCHANGED <<pool, mig>>
                 ELSE /\ pool' = (IF mig THEN Other(pool) ELSE pool) /\ mig' = FALSE
                      /\ pc' = "susp_inc" /\ nb' = nb
           /\ UNCHANGED <<loaded, cancel, st>>
SuspMig == /\ pc = "susp_mig" /\ pool' = (IF mig THEN Other(pool) ELSE pool) /\ mig' = FALSE
           /\ pc' = "susp_pub" /\ UNCHANGED <<nb, loaded, cancel, ops, st>>
SuspInc == /\ pc = "susp_inc" /\ nb' = [nb EXCEPT ![pool] = @ + 1] /\ pc' = "susp_pub"
           /\ UNCHANGED <<pool, loaded, mig, cancel, ops, st>>
SuspPub == /\ pc = "susp_pub" /\ st' = "blocked" /\ pc' = "run"
           /\ UNCHANGED <<pool, nb, loaded, mig, cancel, ops>>
\* the resumer: lowers the counter of the pool the unit is associated with, pushes it; the unit
\* runs again (requests are honoured at its next scheduling point)
Resume == /\ st = "blocked" /\ nb' = [nb EXCEPT ![pool] = @ - 1] /\ st' = "running"
          /\ UNCHANGED <<pool, pc, loaded, mig, cancel, ops>>
Next == ReqMigrate \/ ReqCancel \/ Yield \/ YtInc \/ YtLoad \/ YtReq \/ YtDec \/ SuspReq \/ SuspMig \/ SuspInc \/ SuspPub \/ Resume
Spec == Init /\ [][Next]_vars
NonNeg == \A p \in {1, 2} : nb[p] >= 0
Balanced == (pc = "run" /\ st \in {"running", "terminated"}) => \A p \in {1, 2} : nb[p] = 0
\* a blocked unit is counted exactly once, in the pool it will come back to
BlockedCounted == (pc = "run" /\ st = "blocked") => nb[pool] = 1 /\ nb[Other(pool)] = 0
=============================================================================
