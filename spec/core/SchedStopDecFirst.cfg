SPECIFICATION Spec
CONSTANTS Units = {1,2,3}
  MaxSusp = 2
  DecFirst = TRUE
INVARIANT NoEarlyStop
INVARIANT CounterOK
CHECK_DEADLOCK FALSE
