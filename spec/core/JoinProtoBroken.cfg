SPECIFICATION Spec
CONSTANTS JoinerTestsWholeWord = TRUE
INVARIANT JoinAfterTermination
INVARIANT NoOrphanSpin
INVARIANT NoLostWakeup
PROPERTY Termination
CHECK_DEADLOCK FALSE
