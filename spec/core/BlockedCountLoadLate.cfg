SPECIFICATION Spec
CONSTANTS SkipDecOnCancel = FALSE
  LoadPoolLate = TRUE
  IncBeforeMigrate = FALSE
  MaxOps = 4
INVARIANT NonNeg Balanced BlockedCounted
CHECK_DEADLOCK FALSE
