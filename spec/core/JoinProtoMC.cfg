SPECIFICATION Spec
CONSTANTS JoinerTestsWholeWord = FALSE
INVARIANT JoinAfterTermination
INVARIANT NoOrphanSpin
INVARIANT NoLostWakeup
PROPERTY Termination
CHECK_DEADLOCK FALSE
