SPECIFICATION Spec
CONSTANTS Streams = {1,2}
  Rounds = 2
  Variant = "TermInCb"
INVARIANT TerminatedFinal
CHECK_DEADLOCK FALSE
