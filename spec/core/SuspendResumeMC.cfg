SPECIFICATION Spec
CONSTANTS Streams = {1,2}
  Rounds = 3
  Variant = "None"
INVARIANTS TerminatedFinal OneStream OncePerResume BlockedCount
PROPERTY Done
CHECK_DEADLOCK FALSE
