---------------------------- MODULE SuspendResume ----------------------------
(* Level B: ABT_self_suspend against ABT_thread_resume from another execution
   stream, as coded (self.c, thread.c, abti_ythread.h, ythread.c), one action
   per shared-memory access.

   suspend (ULT u on stream s):   switch to the parent: the context of u is saved,
                                  then, on the scheduler's context, the callback
                                  ABTI_ythread_callback_suspend runs:
                                      num_blocked(pool)++;  state = BLOCKED (release store)
   resume (any other caller):     if (state != BLOCKED) return ABT_ERR_THREAD;     -- the caller retries
                                  state = READY; push(pool, u); num_blocked(pool)--
   scheduler (every stream):      pop u; state = RUNNING; jump into the saved context

   Checked: u never runs on two streams and nobody jumps into a context that
   has not been saved; u runs exactly once per successful resume (at most one
   unit of u in the pool, jumps = 1 + resumes); num_blocked never negative and
   0 at the end; under weak fairness u completes all its rounds.

   Non-vacuity witnesses, TLC must reject each:
     Variant = "StoreEarly"  BLOCKED is published before the switch (in
                             ABTI_ythread_suspend instead of the callback):
                             the resumer pushes u and the other stream jumps
                             into it while it still runs;
     Variant = "TermInCb"    the suspension callback acts on a pending cancellation and goes on
                             (= seeded C11-m7): BLOCKED is stored over TERMINATED;
     Variant = "NoCheck"     resume does not test the state: u is pushed while
                             RUNNING.                                           *)
EXTENDS Integers, FiniteSets
CONSTANTS Streams, Rounds, Variant
VARIABLES st, ctxSaved, onStream, cbOn, pcU, pcS, pcR, pool, blocked, left, resumes, jumps, bad, creq, dead
vars == <<st, ctxSaved, onStream, cbOn, pcU, pcS, pcR, pool, blocked, left, resumes, jumps, bad, creq, dead>>
First == CHOOSE s \in Streams : TRUE
Init == /\ st = "RUNNING" /\ ctxSaved = FALSE /\ onStream = {First} /\ cbOn = 0 /\ pcU = "body"
        /\ pcS = [s \in Streams |-> "idle"] /\ pcR = "load" /\ pool = 0 /\ blocked = 0 /\ left = Rounds
        /\ resumes = 0 /\ jumps = 1 /\ bad = FALSE /\ creq = FALSE /\ dead = FALSE
\* ---- the ULT (executed by the stream in onStream) and the callback (executed by cbOn)
Suspend == /\ pcU = "body" /\ onStream # {} /\ left > 0 /\ left' = left - 1
           /\ IF Variant = "StoreEarly" THEN pcU' = "early_inc" ELSE pcU' = "save"
           /\ UNCHANGED <<st, ctxSaved, onStream, cbOn, pcS, pcR, pool, blocked, resumes, jumps, bad, creq, dead>>
EarlyInc == /\ pcU = "early_inc" /\ blocked' = blocked + 1 /\ pcU' = "early_store"
            /\ UNCHANGED <<st, ctxSaved, onStream, cbOn, pcS, pcR, pool, left, resumes, jumps, bad, creq, dead>>
EarlyStore == /\ pcU = "early_store" /\ st' = "BLOCKED" /\ pcU' = "save"
              /\ UNCHANGED <<ctxSaved, onStream, cbOn, pcS, pcR, pool, blocked, left, resumes, jumps, bad, creq, dead>>
Save == /\ pcU = "save" /\ \E s \in onStream : cbOn' = s
        /\ ctxSaved' = TRUE /\ onStream' = {} /\ pcU' = IF Variant = "StoreEarly" THEN "cb_end" ELSE "cb_inc"
        /\ UNCHANGED <<st, pcS, pcR, pool, blocked, left, resumes, jumps, bad, creq, dead>>
CbInc == /\ pcU = "cb_inc" /\ blocked' = blocked + 1 /\ pcU' = "cb_store"
         /\ IF Variant = "TermInCb" /\ creq THEN st' = "TERMINATED" /\ dead' = TRUE ELSE UNCHANGED <<st, dead>>
         /\ UNCHANGED <<ctxSaved, onStream, cbOn, pcS, pcR, pool, left, resumes, jumps, bad, creq>>
CbStore == /\ pcU = "cb_store" /\ st' = "BLOCKED" /\ pcU' = "parked" /\ cbOn' = 0
           /\ UNCHANGED <<ctxSaved, onStream, pcS, pcR, pool, blocked, left, resumes, jumps, bad, creq, dead>>
CbEnd == /\ pcU = "cb_end" /\ pcU' = "parked" /\ cbOn' = 0
         /\ UNCHANGED <<st, ctxSaved, onStream, pcS, pcR, pool, blocked, left, resumes, jumps, bad, creq, dead>>
Finish == /\ pcU = "body" /\ onStream # {} /\ left = 0 /\ pcU' = "finished" /\ onStream' = {} /\ st' = "TERMINATED"
          /\ UNCHANGED <<ctxSaved, cbOn, pcS, pcR, pool, blocked, left, resumes, jumps, bad, creq, dead>>
\* ---- a canceller (only in the TermInCb configuration): ABT_thread_cancel sets the request bit
Cancel == /\ Variant = "TermInCb" /\ ~creq /\ st # "TERMINATED" /\ creq' = TRUE
          /\ UNCHANGED <<st, ctxSaved, onStream, cbOn, pcU, pcS, pcR, pool, blocked, left, resumes, jumps, bad, dead>>
\* ---- the resumer (a ULT of another stream or an external thread); it retries after ABT_ERR_THREAD
RLoad == /\ pcR = "load" /\ resumes < Rounds
         /\ pcR' = IF st = "BLOCKED" \/ Variant = "NoCheck" THEN "ready" ELSE "load"
         /\ UNCHANGED <<st, ctxSaved, onStream, cbOn, pcU, pcS, pool, blocked, left, resumes, jumps, bad, creq, dead>>
RReady == /\ pcR = "ready" /\ st' = "READY" /\ pcR' = "push" /\ resumes' = resumes + 1
          /\ UNCHANGED <<ctxSaved, onStream, cbOn, pcU, pcS, pool, blocked, left, jumps, bad, creq, dead>>
RPush == /\ pcR = "push" /\ pool' = pool + 1 /\ pcR' = "dec"
         /\ UNCHANGED <<st, ctxSaved, onStream, cbOn, pcU, pcS, blocked, left, resumes, jumps, bad, creq, dead>>
RDec == /\ pcR = "dec" /\ blocked' = blocked - 1 /\ pcR' = "load"
        /\ UNCHANGED <<st, ctxSaved, onStream, cbOn, pcU, pcS, pool, left, resumes, jumps, bad, creq, dead>>
\* ---- the schedulers
Idle(s) == s \notin onStream /\ cbOn # s /\ pcS[s] = "idle"
Pop(s) == /\ Idle(s) /\ pool > 0 /\ pool' = pool - 1 /\ pcS' = [pcS EXCEPT ![s] = "run"]
          /\ UNCHANGED <<st, ctxSaved, onStream, cbOn, pcU, pcR, blocked, left, resumes, jumps, bad, creq, dead>>
SetRunning(s) == /\ pcS[s] = "run" /\ st' = "RUNNING" /\ pcS' = [pcS EXCEPT ![s] = "jump"]
                 /\ UNCHANGED <<ctxSaved, onStream, cbOn, pcU, pcR, pool, blocked, left, resumes, jumps, bad, creq, dead>>
Jump(s) == /\ pcS[s] = "jump" /\ pcS' = [pcS EXCEPT ![s] = "idle"]
           /\ bad' = (bad \/ ~ctxSaved \/ onStream # {}) /\ ctxSaved' = FALSE /\ onStream' = onStream \cup {s}
           /\ pcU' = "body" /\ jumps' = jumps + 1
           /\ UNCHANGED <<st, cbOn, pcR, pool, blocked, left, resumes, creq, dead>>
Next == \/ Cancel \/ Suspend \/ EarlyInc \/ EarlyStore \/ Save \/ CbInc \/ CbStore \/ CbEnd \/ Finish
        \/ RLoad \/ RReady \/ RPush \/ RDec
        \/ \E s \in Streams : Pop(s) \/ SetRunning(s) \/ Jump(s)
Spec == Init /\ [][Next]_vars /\ WF_vars(Next) /\ WF_vars(RLoad /\ pcR' = "ready")
        /\ WF_vars(Suspend \/ Save \/ CbInc \/ CbStore \/ CbEnd \/ Finish \/ EarlyInc \/ EarlyStore)
        /\ WF_vars(RReady \/ RPush \/ RDec) /\ \A s \in Streams : WF_vars(Pop(s) \/ SetRunning(s) \/ Jump(s))
OneStream == Cardinality(onStream) <= 1 /\ ~bad
OncePerResume == pool <= 1 /\ jumps <= 1 + resumes /\ resumes <= Rounds - left
BlockedCount == blocked >= 0 /\ (pcU = "finished" /\ pcR = "load" => blocked = 0 /\ pool = 0)
\* TERMINATED is final: a terminated unit never shows another state
TerminatedFinal == dead => st = "TERMINATED"
Done == <>(pcU = "finished" /\ resumes = Rounds /\ jumps = Rounds + 1)
=============================================================================
