SPECIFICATION Spec
CONSTANTS Requesters = {1,2}
  Pools = {1,2,3}
  ClearLate = TRUE
  MaxPoints = 4
INVARIANT Performed
CHECK_DEADLOCK FALSE
