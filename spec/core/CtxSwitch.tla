------------------------------ MODULE CtxSwitch ------------------------------
(* Level B: the context-switch protocol of Argobots ULTs (C02), as coded in
   fcontext_x86_64_sysv_elf_gas.S / abtd_fcontext.h / ythread.c:

     switch_with_call:  push the callee-saved registers, MXCSR and the x87 CW
                        on the OLD stack, store the stack pointer into the old
                        context (SaveDone), load the NEW stack pointer, and
                        only then -- on the new stack -- call the callback that
                        makes the old ULT visible to others (Publish: push to
                        its pool for yield, state := BLOCKED for suspend).

   A stream that finds a ULT in a pool restores its saved context (Pop).  A
   ULT that was suspended is put back into a pool by ABT_thread_resume, which
   any stream may call once it sees BLOCKED (Resume).

   The model has one abstract register value per ULT that the ULT changes
   while it runs (Work) and expects to find unchanged after every switch.

   PublishEarly = TRUE is the defect class the property is about (the old ULT
   is made visible before its context has been stored); it is kept as a
   non-vacuity witness: TLC must find a violation with it.                    *)
EXTENDS Naturals, FiniteSets
CONSTANTS Streams, ULTs, MaxWork, PublishEarly
None == 0
VARIABLES pc,      \* pc[e] in {"sched", "run", "saving", "callback"}
          cur,     \* cur[e]: the ULT stream e runs / switches away from (None in "sched")
          kind,    \* kind[e]: what the switch in progress is: "yield" | "suspend" | "exit"
          reg,     \* reg[e]: register contents of stream e: <<owner, version>>
          val,     \* val[u]: the version ULT u has in its registers (what it expects to find)
          saved,   \* saved[u]: the stored context of u: <<owner, version>> or <<None, 0>> if none
          where    \* where[u] in {"pool", "running", "blocked", "done"}: what other streams see
vars == <<pc, cur, kind, reg, val, saved, where>>
NoCtx == <<None, 0>>
Init == /\ pc = [e \in Streams |-> "sched"] /\ cur = [e \in Streams |-> None] /\ kind = [e \in Streams |-> "yield"]
        /\ reg = [e \in Streams |-> NoCtx] /\ val = [u \in ULTs |-> 0]
        /\ saved = [u \in ULTs |-> <<u, 0>>]            \* a new ULT: the initial context built by make_fcontext
        /\ where = [u \in ULTs |-> "pool"]
\* a scheduler takes a ULT out of a pool and jumps to its saved context
Pop(e, u) == /\ pc[e] = "sched" /\ where[u] = "pool"
             /\ where' = [where EXCEPT ![u] = "running"]
             /\ cur' = [cur EXCEPT ![e] = u] /\ pc' = [pc EXCEPT ![e] = "run"]
             /\ reg' = [reg EXCEPT ![e] = saved[u]] /\ saved' = [saved EXCEPT ![u] = NoCtx]
             /\ UNCHANGED <<kind, val>>
\* the running ULT computes: its callee-saved registers change
Work(e) == /\ pc[e] = "run" /\ val[cur[e]] < MaxWork
           /\ val' = [val EXCEPT ![cur[e]] = @ + 1]
           /\ reg' = [reg EXCEPT ![e] = <<cur[e], val[cur[e]] + 1>>]
           /\ UNCHANGED <<pc, cur, kind, saved, where>>
Publish(u, k) == IF k = "yield" THEN "pool" ELSE IF k = "suspend" THEN "blocked" ELSE "done"
\* the ULT calls a switching primitive
SwitchBegin(e, k) == /\ pc[e] = "run"
                     /\ pc' = [pc EXCEPT ![e] = "saving"] /\ kind' = [kind EXCEPT ![e] = k]
                     /\ where' = IF PublishEarly THEN [where EXCEPT ![cur[e]] = Publish(cur[e], k)] ELSE where
                     /\ UNCHANGED <<cur, reg, val, saved>>
\* registers pushed on the old stack, stack pointer stored; now on the scheduler's stack
SaveDone(e) == /\ pc[e] = "saving"
               /\ saved' = [saved EXCEPT ![cur[e]] = IF kind[e] = "exit" THEN NoCtx ELSE reg[e]]
               /\ pc' = [pc EXCEPT ![e] = "callback"] /\ reg' = [reg EXCEPT ![e] = NoCtx]
               /\ UNCHANGED <<cur, kind, val, where>>
\* the callback, running on the new stack, makes the old ULT visible
Callback(e) == /\ pc[e] = "callback"
               /\ where' = IF PublishEarly THEN where ELSE [where EXCEPT ![cur[e]] = Publish(cur[e], kind[e])]
               /\ pc' = [pc EXCEPT ![e] = "sched"] /\ cur' = [cur EXCEPT ![e] = None]
               /\ UNCHANGED <<kind, reg, val, saved>>
\* anybody who sees BLOCKED may resume the ULT (a ULT running on another stream, an external thread)
Resume(u) == /\ where[u] = "blocked" /\ where' = [where EXCEPT ![u] = "pool"]
             /\ UNCHANGED <<pc, cur, kind, reg, val, saved>>
Next == \/ \E e \in Streams : Work(e) \/ SaveDone(e) \/ Callback(e) \/ \E u \in ULTs : Pop(e, u)
        \/ \E e \in Streams, k \in {"yield", "suspend", "exit"} : SwitchBegin(e, k)
        \/ \E u \in ULTs : Resume(u)
Spec == Init /\ [][Next]_vars
OnStack(e) == IF pc[e] \in {"run", "saving"} THEN cur[e] ELSE None
\* at any instant a ULT executes on at most one stream
OneRunner == \A e1, e2 \in Streams : e1 # e2 /\ OnStack(e1) # None => OnStack(e1) # OnStack(e2)
\* a ULT finds its registers as it left them
ContextKept == \A e \in Streams : pc[e] = "run" => reg[e] = <<cur[e], val[cur[e]]>>
\* a ULT that others can take has a stored context; a running one has none lying around
SavedWhenVisible == \A u \in ULTs : where[u] = "pool" => saved[u] # NoCtx
TypeOK == /\ \A e \in Streams : pc[e] \in {"sched", "run", "saving", "callback"} /\ cur[e] \in ULTs \cup {None}
          /\ \A u \in ULTs : where[u] \in {"pool", "running", "blocked", "done"}
=============================================================================
