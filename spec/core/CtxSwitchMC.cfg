SPECIFICATION Spec
CONSTANTS Streams = {1,2}
  ULTs = {1,2,3}
  MaxWork = 3
  PublishEarly = FALSE
INVARIANT TypeOK
INVARIANT OneRunner
INVARIANT ContextKept
INVARIANT SavedWhenVisible
CHECK_DEADLOCK FALSE
