------------------------------ MODULE JoinProto ------------------------------
(* Level B: the join hand-shake between a joiner and a terminating ULT (C03),
   as coded in thread.c (thread_join, thread_join_futexwait) and
   abti_ythread.h (ABTI_ythread_atomic_get_joiner, ABTI_ythread_exit), one
   action per shared-memory access.

   joiner:  if state = TERMINATED: return
            old := fetch_or(request, JOIN)
            if old had JOIN: the target is already terminating -> poll state
            else: suspend; the suspend callback stores p_link := joiner
                  (external thread: p_link := dummy, then futex wait);
                  once resumed, poll state until TERMINATED
   target:  link := load p_link
            if link = NULL: old := fetch_or(request, JOIN)
                            if old had no JOIN: nobody joins
                            else: spin until p_link # NULL
            resume the joiner (if any); state := TERMINATED

   The request word carries other bits too (CANCEL, MIGRATE): `Other` says
   whether one is pending when the joiner arrives.

   Checked: the joiner returns only after TERMINATED; the target never spins
   for a p_link that nobody is going to store; a suspended joiner is resumed
   (no state in which the target is terminated and the joiner sleeps).

   JoinerTestsWholeWord = TRUE is the defect "if (!old)" instead of
   "if (!(old & JOIN))": with another request pending the joiner sets JOIN but
   never publishes p_link, and the target spins forever.  Non-vacuity
   witness: TLC must reject it.                                             *)
EXTENDS Naturals
CONSTANTS JoinerTestsWholeWord
VARIABLES jpc, tpc, reqJoin, reqOther, link, tstate, jold, told, resumed
vars == <<jpc, tpc, reqJoin, reqOther, link, tstate, jold, told, resumed>>
Init == /\ jpc = "start" /\ tpc = "run" /\ reqJoin = FALSE /\ reqOther \in BOOLEAN /\ link = FALSE
        /\ tstate = "running" /\ jold = [join |-> FALSE, other |-> FALSE] /\ told = FALSE /\ resumed = FALSE
\* ---- joiner
JCheck == /\ jpc = "start" /\ jpc' = (IF tstate = "terminated" THEN "done" ELSE "fetchor")
          /\ UNCHANGED <<tpc, reqJoin, reqOther, link, tstate, jold, told, resumed>>
JFetchOr == /\ jpc = "fetchor" /\ jold' = [join |-> reqJoin, other |-> reqOther] /\ reqJoin' = TRUE
            /\ jpc' = "decide" /\ UNCHANGED <<tpc, reqOther, link, tstate, told, resumed>>
JDecide == /\ jpc = "decide"
           /\ LET terminating == IF JoinerTestsWholeWord THEN jold.join \/ jold.other ELSE jold.join
              IN jpc' = IF terminating THEN "poll" ELSE "setlink"
           /\ UNCHANGED <<tpc, reqJoin, reqOther, link, tstate, jold, told, resumed>>
\* the suspend callback (context already saved) publishes the joiner
JSetLink == /\ jpc = "setlink" /\ link' = TRUE /\ jpc' = "sleep"
            /\ UNCHANGED <<tpc, reqJoin, reqOther, tstate, jold, told, resumed>>
JWake == /\ jpc = "sleep" /\ resumed /\ jpc' = "poll"
         /\ UNCHANGED <<tpc, reqJoin, reqOther, link, tstate, jold, told, resumed>>
JPoll == /\ jpc = "poll" /\ tstate = "terminated" /\ jpc' = "done"
         /\ UNCHANGED <<tpc, reqJoin, reqOther, link, tstate, jold, told, resumed>>
\* ---- target (its function returned, or it was cancelled: other request bits are handled before)
TFinish == /\ tpc = "run" /\ tpc' = "loadlink" /\ UNCHANGED <<jpc, reqJoin, reqOther, link, tstate, jold, told, resumed>>
TLoadLink == /\ tpc = "loadlink" /\ tpc' = (IF link THEN "resume" ELSE "fetchor")
             /\ UNCHANGED <<jpc, reqJoin, reqOther, link, tstate, jold, told, resumed>>
TFetchOr == /\ tpc = "fetchor" /\ told' = reqJoin /\ reqJoin' = TRUE /\ tpc' = "decide"
            /\ UNCHANGED <<jpc, reqOther, link, tstate, jold, resumed>>
TDecide == /\ tpc = "decide" /\ tpc' = (IF told THEN "spin" ELSE "terminate")
           /\ UNCHANGED <<jpc, reqJoin, reqOther, link, tstate, jold, told, resumed>>
TSpin == /\ tpc = "spin" /\ link /\ tpc' = "resume"
         /\ UNCHANGED <<jpc, reqJoin, reqOther, link, tstate, jold, told, resumed>>
TResume == /\ tpc = "resume" /\ resumed' = TRUE /\ tpc' = "terminate"
           /\ UNCHANGED <<jpc, reqJoin, reqOther, link, tstate, jold, told>>
TTerminate == /\ tpc = "terminate" /\ tstate' = "terminated" /\ tpc' = "end"
              /\ UNCHANGED <<jpc, reqJoin, reqOther, link, jold, told, resumed>>
Next == JCheck \/ JFetchOr \/ JDecide \/ JSetLink \/ JWake \/ JPoll
        \/ TFinish \/ TLoadLink \/ TFetchOr \/ TDecide \/ TSpin \/ TResume \/ TTerminate
Spec == Init /\ [][Next]_vars /\ WF_vars(Next)
\* join returns only after termination
JoinAfterTermination == jpc = "done" => tstate = "terminated"
\* the target never waits for a link nobody will store
NoOrphanSpin == tpc = "spin" /\ ~link => jpc \in {"decide", "setlink"} /\ ~(jpc = "decide" /\ JoinerTestsWholeWord /\ jold.other)
\* a sleeping joiner is not forgotten
NoLostWakeup == tstate = "terminated" /\ jpc = "sleep" => resumed
\* everything ends: the joiner returns and the target terminates
Termination == <>(jpc = "done" /\ tpc = "end")
=============================================================================
