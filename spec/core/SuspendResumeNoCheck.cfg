SPECIFICATION Spec
CONSTANTS Streams = {1,2}
  Rounds = 2
  Variant = "NoCheck"
INVARIANT OneStream
CHECK_DEADLOCK FALSE
