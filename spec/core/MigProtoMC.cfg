SPECIFICATION Spec
CONSTANTS Requesters = {1,2}
  Pools = {1,2,3}
  ClearLate = FALSE
  MaxPoints = 4
INVARIANT Performed CbBound
CHECK_DEADLOCK FALSE
