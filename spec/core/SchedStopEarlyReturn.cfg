SPECIFICATION Spec
CONSTANTS Units = {1,2,3}
  MaxSusp = 2
  EarlyReturn = TRUE
  DecFirst = FALSE
INVARIANT NoEarlyStop
INVARIANT CounterOK
INVARIANT CounterExact
CHECK_DEADLOCK FALSE
