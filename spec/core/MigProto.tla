------------------------------ MODULE MigProto ------------------------------
(* Level B: the migration request protocol (C13) as coded in thread.c
   (thread_migrate_to_pool, ABTI_thread_handle_request_migrate), one action
   per shared-memory access.

   requester:  store the target pool into the unit's migration record
               (relaxed store: "two threads can update the pointer value
               simultaneously"); set REQ_MIGRATE (fetch_or); return SUCCESS
   the unit, at each scheduling point:
               if REQ_MIGRATE is set: UNSET it, then read the target pool, then
               change the associated pool and call the callback
               (a failed pool change sets the flag again)

   Checked: once every requester has returned and the unit has passed one
   more scheduling point, the unit is associated with the target of a request
   that was not overwritten -- i.e. with the LAST target stored -- and no
   request is pending for ever; the callback ran at least once per burst of
   requests.

   ClearLate = TRUE is the order before fix dbdaa3d (read the target, move,
   and only then clear the flag): a request that arrives in between is cleared
   without being performed.  Non-vacuity witness (this was defect S3).      *)
EXTENDS Naturals, FiniteSets
CONSTANTS Requesters, Pools, ClearLate, MaxPoints
VARIABLES flag, target, pool, rpc, rtgt, upc, utgt, points, cbs
vars == <<flag, target, pool, rpc, rtgt, upc, utgt, points, cbs>>
Init == /\ flag = FALSE /\ target = 0 /\ pool = 1
        /\ rpc = [r \in Requesters |-> "store"] /\ rtgt \in [Requesters -> Pools \ {1}]
        /\ upc = "run" /\ utgt = 0 /\ points = 0 /\ cbs = 0
\* ---- requesters
RStore(r) == rpc[r] = "store" /\ target' = rtgt[r] /\ rpc' = [rpc EXCEPT ![r] = "setflag"]
             /\ UNCHANGED <<flag, pool, rtgt, upc, utgt, points, cbs>>
RSetFlag(r) == rpc[r] = "setflag" /\ flag' = TRUE /\ rpc' = [rpc EXCEPT ![r] = "done"]
               /\ UNCHANGED <<target, pool, rtgt, upc, utgt, points, cbs>>
\* ---- the unit
Point == /\ upc = "run" /\ points < MaxPoints /\ points' = points + 1
         /\ upc' = (IF flag THEN (IF ClearLate THEN "read" ELSE "clear") ELSE "run")
         /\ UNCHANGED <<flag, target, pool, rpc, rtgt, utgt, cbs>>
Clear == /\ upc = "clear" /\ flag' = FALSE /\ upc' = (IF ClearLate THEN "run" ELSE "read")
         /\ UNCHANGED <<target, pool, rpc, rtgt, utgt, points, cbs>>
Read == /\ upc = "read" /\ utgt' = target /\ upc' = "move"
        /\ UNCHANGED <<flag, target, pool, rpc, rtgt, points, cbs>>
Move == /\ upc = "move" /\ pool' = utgt /\ cbs' = cbs + 1 /\ upc' = (IF ClearLate THEN "clear" ELSE "run")
        /\ UNCHANGED <<flag, target, rpc, rtgt, utgt, points>>
Next == Point \/ Clear \/ Read \/ Move \/ \E r \in Requesters : RStore(r) \/ RSetFlag(r)
Spec == Init /\ [][Next]_vars
AllReturned == \A r \in Requesters : rpc[r] = "done"
\* quiescent: every requester returned, the unit is between scheduling points and no request is pending
Quiescent == AllReturned /\ upc = "run" /\ ~flag
\* then the unit is where the last stored target says, and a migration was performed
Performed == Quiescent => pool = target /\ cbs >= 1
\* never more callbacks than requests whose flag has been raised (the bound H_Exec calls `cred`)
CbBound == cbs <= Cardinality({r \in Requesters : rpc[r] = "done"})
\* ... and quiescence is reachable at all (the flag cannot stay set without the unit noticing): checked as a
\* state constraint-free invariant: a pending flag with the unit running will be seen at the next point
=============================================================================
