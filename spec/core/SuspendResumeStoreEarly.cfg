SPECIFICATION Spec
CONSTANTS Streams = {1,2}
  Rounds = 2
  Variant = "StoreEarly"
INVARIANT OneStream
CHECK_DEADLOCK FALSE
