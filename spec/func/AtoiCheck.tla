----------------------------- MODULE AtoiCheck -----------------------------
(* Oracle evaluation: every Parse record produced by the real parser must
   equal the specification's result for the same input. *)
EXTENDS Atoi, TLC, Json, IOUtils
Recs == ndJsonDeserialize(IOEnv.TRACE)
Good(r) == LET e == ParseAs(r.fn, r.s) IN
           /\ (r.err = 1) = e.err
           /\ (~e.err => /\ r.val = e.val /\ (r.neg = 1) = e.neg /\ (r.ovf = 1) = e.ovf)
Bad == {i \in 1..Len(Recs) : ~Good(Recs[i])}
ASSUME PrintT(<<"NRECS", Len(Recs)>>)
ASSUME PrintT(<<"BAD", Bad>>)
VARIABLE x
Init == x = 0
Next == x' = x
=============================================================================
