----------------------------- MODULE EnvDerived -----------------------------
(* C20: settings whose limits depend on other settings (src/arch/abtd_env.c, ABTD_env_init):

     thread_stacksize = roundup64(clamp(THREAD_STACKSIZE | 16384, 512 ..))
     mem_sp_size      = roundup64(max(MEM_STACK_PAGE_SIZE | 8 MiB, 4 * thread_stacksize))   -- also when unset
     mem_page_size    = pow2up(roundup64(max(MEM_PAGE_SIZE | 2 MiB, 4096)))
     mem_max_stacks   = roundup2(max(MEM_MAX_NUM_STACKS | min(64 MiB / thread_stacksize, 1024), 2))
     mem_max_descs    = roundup2(max(MEM_MAX_NUM_DESCS | 4096, 2))
     huge_page_size   = max(HUGE_PAGE_SIZE | 2 MiB, 4096)

   The records come from the real ABTD_env_init(); TLC evaluates the definition on every record.
   (inputs are plain decimal numerals below 2^29, or unset = -1)                              *)
EXTENDS Naturals, Integers, Sequences, TLC, Json, IOUtils, FiniteSets
Recs == ndJsonDeserialize(IOEnv.TRACE)
Max(a, b) == IF a > b THEN a ELSE b
Min(a, b) == IF a < b THEN a ELSE b
Up(v, m) == ((v + m - 1) \div m) * m
RECURSIVE Pow2Up(_, _)
Pow2Up(v, p) == IF p >= v THEN p ELSE Pow2Up(v, 2 * p)
Or(x, d) == IF x < 0 THEN d ELSE x
MiB == 1048576
Exp(r) ==
    LET ts == Up(Max(Or(r.in[1], 16384), 512), 64)
    IN [ts |-> ts,
        sp |-> Up(Max(Or(r.in[2], 8 * MiB), 4 * ts), 64),
        pg |-> Pow2Up(Up(Max(Or(r.in[3], 2 * MiB), 4096), 64), 1),
        ms |-> Up(Max(Or(r.in[4], Min((64 * MiB) \div ts, 1024)), 2), 2),
        md |-> Up(Max(Or(r.in[5], 4096), 2), 2),
        hp |-> Max(Or(r.in[6], 2 * MiB), 4096)]
Good(r) == LET e == Exp(r) IN r.ts = e.ts /\ r.sp = e.sp /\ r.pg = e.pg /\ r.ms = e.ms /\ r.md = e.md /\ r.hp = e.hp
ASSUME PrintT(<<"NRECS", Len(Recs)>>)
ASSUME PrintT(<<"BAD", {i \in 1..Len(Recs) : ~Good(Recs[i])}>>)
VARIABLE x
Init == x = 0
Next == UNCHANGED x
=============================================================================
