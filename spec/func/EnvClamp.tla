------------------------------ MODULE EnvClamp ------------------------------
(* Numeric ABT_* environment settings (src/arch/abtd_env.c), C20:
   unset or unparsable -> default; otherwise the parsed value (saturated by the
   type's parser) is clamped to [min, max] and then rounded as documented
   (power of two / multiple of the cache line).                             *)
EXTENDS Atoi, TLC, Json, IOUtils, FiniteSets
CONSTANT NCores
Recs == ndJsonDeserialize(IOEnv.TRACE)

RECURSIVE ToNat(_, _)
ToNat(d, acc) == IF d = <<>> THEN acc ELSE ToNat(Tail(d), acc * 10 + Head(d))
RECURSIVE ToDigits(_)
ToDigits(n) == IF n < 10 THEN <<n>> ELSE Append(ToDigits(n \div 10), n % 10)
RECURSIVE Pow2Up(_, _)
Pow2Up(v, p) == IF p >= v THEN p ELSE Pow2Up(v, 2 * p)
Mult64Up(v) == ((v + 63) \div 64) * 64
HALF63 == <<9,2,2,3,3,7,2,0,3,6,8,5,4,7,7,5,8,0,7>>    \* 2^63 - 1 = SIZE_MAX / 2
TWO63 == <<9,2,2,3,3,7,2,0,3,6,8,5,4,7,7,5,8,0,8>>
HALF31 == <<2,1,4,7,4,8,3,6,4,7>>                       \* UINT32_MAX / 2
TWO31 == <<2,1,4,7,4,8,3,6,4,8>>
HALFINT == <<1,0,7,3,7,4,1,8,2,3>>                      \* INT_MAX / 2

\* [type, default, min, max (digits), round, maxres (digits: result for an input >= max)]
Var(v) == CASE v = "MAX_NUM_XSTREAMS" -> [ty |-> "int", def |-> NCores, min |-> 1, max |-> HALFINT, rnd |-> "none", maxres |-> HALFINT]
            [] v = "KEY_TABLE_SIZE" -> [ty |-> "u32", def |-> 4, min |-> 1, max |-> HALF31, rnd |-> "pow2", maxres |-> TWO31]
            [] v = "SYS_PAGE_SIZE" -> [ty |-> "sz", def |-> 4096, min |-> 64, max |-> HALF63, rnd |-> "pow2", maxres |-> TWO63]
            [] v = "THREAD_STACKSIZE" -> [ty |-> "sz", def |-> 16384, min |-> 512, max |-> HALF63, rnd |-> "m64", maxres |-> TWO63]
            [] v = "SCHED_STACKSIZE" -> [ty |-> "sz", def |-> 4194304, min |-> 512, max |-> HALF63, rnd |-> "m64", maxres |-> TWO63]
            [] v = "SCHED_EVENT_FREQ" -> [ty |-> "u32", def |-> 50, min |-> 1, max |-> HALF31, rnd |-> "none", maxres |-> HALF31]
            [] v = "SCHED_SLEEP_NSEC" -> [ty |-> "u64", def |-> 100, min |-> 0, max |-> HALF63, rnd |-> "none", maxres |-> HALF63]
Round(k, n) == CASE k = "none" -> n [] k = "pow2" -> (IF n = 0 THEN 0 ELSE Pow2Up(n, 1)) [] k = "m64" -> Mult64Up(n)
Small(d) == Len(d) <= 9
\* expected result as a digit sequence, or <<>> when the specification does not
\* compute it (a value between 10^9 and the maximum: such inputs are not generated)
Expected(r) ==
    LET V == Var(r.var)
        p == IF r.set = 1 THEN ParseAs(V.ty, r.s) ELSE [err |-> TRUE]
    IN IF p.err THEN ToDigits(Round(V.rnd, IF V.def < V.min THEN V.min ELSE V.def))
       ELSE IF p.neg THEN ToDigits(Round(V.rnd, V.min))                 \* negative int: below the minimum
       ELSE IF Small(p.val) THEN
                LET n == ToNat(p.val, 0) IN ToDigits(Round(V.rnd, IF n < V.min THEN V.min ELSE n))
       ELSE IF Leq(V.max, p.val) THEN V.maxres
       ELSE <<>>
Good(r) == LET e == Expected(r) IN e = <<>> \/ e = r.val
Skipped == {i \in 1..Len(Recs) : Expected(Recs[i]) = <<>>}
Bad == {i \in 1..Len(Recs) : ~Good(Recs[i])}
ASSUME PrintT(<<"NRECS", Len(Recs)>>)
ASSUME PrintT(<<"SKIPPED", Cardinality(Skipped)>>)
ASSUME PrintT(<<"BAD", Bad>>)
VARIABLE x
Init == x = 0
Next == x' = x
=============================================================================
