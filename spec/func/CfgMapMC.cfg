SPECIFICATION CSpec
CONSTANTS Cfgs = {0}
  Keys = {0, 8, 16}
INVARIANT GetAfterSet
CHECK_DEADLOCK FALSE
