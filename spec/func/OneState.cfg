INIT Init
NEXT Next
