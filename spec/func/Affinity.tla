------------------------------ MODULE Affinity ------------------------------
(* Executable definition of the ABT_SET_AFFINITY grammar (documented at the
   top of src/arch/abtd_affinity.c), C20.

     <list>        = <interval> | <list> "," <interval>
     <interval>    = <es-id-list> [ ":" <num> [ ":" <stride> ] ]
     <es-id-list>  = <id> | "{" <id-list> "}"
     <id-list>     = <id-interval> | <id-list> "," <id-interval>
     <id-interval> = <id> [ ":" <num> [ ":" <stride> ] ]
     <id>, <stride> = integer;  <num> = positive integer (< 2^20)
   White space may separate tokens; an integer is sign* digit+ with nothing in
   between.  Integers that do not fit in a C int are not integers of this
   grammar.  <id-interval> expands to id, id+stride, ...; <interval> expands to
   num lists, the k-th being the base list shifted by k*stride.             *)
EXTENDS Naturals, Integers, Sequences, TLC, Json, IOUtils, FiniteSets

IsWs(c) == c \in {32, 9, 10, 13}
IsDigit(c) == c >= 48 /\ c <= 57
ERR == [ok |-> FALSE]
MaxElems == 1048576
INTMAXV == 2147483647

\* ---- lexer: sequence of tokens [k |-> "int", v |-> n] / [k |-> "sym", v |-> code]
RECURSIVE Digits(_, _, _)
\* returns <<value or -1 on overflow, next index>>
Digits(s, i, acc) ==
    IF i <= Len(s) /\ IsDigit(s[i])
    THEN IF acc = -1 \/ acc > (INTMAXV - (s[i] - 48)) \div 10 THEN Digits(s, i + 1, -1)
         ELSE Digits(s, i + 1, acc * 10 + (s[i] - 48))
    ELSE <<acc, i>>
RECURSIVE Signs(_, _, _)
Signs(s, i, sg) == IF i <= Len(s) /\ s[i] = 45 THEN Signs(s, i + 1, -sg)
                   ELSE IF i <= Len(s) /\ s[i] = 43 THEN Signs(s, i + 1, sg)
                   ELSE <<sg, i>>
RECURSIVE Lex(_, _, _)
Lex(s, i, toks) ==
    IF i > Len(s) THEN [ok |-> TRUE, toks |-> toks]
    ELSE IF IsWs(s[i]) THEN Lex(s, i + 1, toks)
    ELSE IF s[i] \in {43, 45} \/ IsDigit(s[i]) THEN
        LET sg == Signs(s, i, 1)
            dg == Digits(s, sg[2], 0)
        IN IF dg[2] = sg[2] \/ dg[1] = -1 THEN ERR       \* sign without digits, or does not fit in int
           ELSE Lex(s, dg[2], Append(toks, [k |-> "int", v |-> sg[1] * dg[1]]))
    ELSE IF s[i] \in {123, 125, 58, 44} THEN Lex(s, i + 1, Append(toks, [k |-> "sym", v |-> s[i]]))
    ELSE ERR

\* ---- parser over the token sequence; every function returns [ok, i (next token), ...]
IsSym(t, i, c) == i <= Len(t) /\ t[i].k = "sym" /\ t[i].v = c
IsInt(t, i) == i <= Len(t) /\ t[i].k = "int"
\* optional  ":" num [ ":" stride ]
Tail3(t, i) ==
    IF ~IsSym(t, i, 58) THEN [ok |-> TRUE, i |-> i, num |-> 1, stride |-> 1]
    ELSE IF ~(IsInt(t, i + 1) /\ t[i + 1].v > 0) THEN ERR
    ELSE IF ~IsSym(t, i + 2, 58) THEN [ok |-> TRUE, i |-> i + 2, num |-> t[i + 1].v, stride |-> 1]
    ELSE IF ~IsInt(t, i + 3) THEN ERR
    ELSE [ok |-> TRUE, i |-> i + 4, num |-> t[i + 1].v, stride |-> t[i + 3].v]
FitsInt(n) == n >= -INTMAXV - 1 /\ n <= INTMAXV
Expand(id, num, stride) == [k \in 1..num |-> id + stride * (k - 1)]
RECURSIVE IdList(_, _, _)
IdList(t, i, acc) ==
    IF ~IsInt(t, i) THEN ERR
    ELSE LET r == Tail3(t, i + 1) IN
         IF ~r.ok \/ r.num >= MaxElems THEN ERR
         ELSE LET ids == acc \o Expand(t[i].v, r.num, r.stride) IN
              IF IsSym(t, r.i, 44) THEN IdList(t, r.i + 1, ids)
              ELSE IF IsSym(t, r.i, 125) THEN [ok |-> TRUE, i |-> r.i + 1, ids |-> ids]
              ELSE ERR
EsIdList(t, i) ==
    IF IsInt(t, i) THEN [ok |-> TRUE, i |-> i + 1, ids |-> <<t[i].v>>]
    ELSE IF IsSym(t, i, 123) THEN IdList(t, i + 1, <<>>)
    ELSE ERR
RECURSIVE List(_, _, _)
List(t, i, acc) ==
    LET b == EsIdList(t, i) IN
    IF ~b.ok THEN ERR
    ELSE LET r == Tail3(t, b.i) IN
         IF ~r.ok \/ r.num >= MaxElems THEN ERR
         ELSE LET ls == acc \o [k \in 1..r.num |-> [j \in 1..Len(b.ids) |-> b.ids[j] + r.stride * (k - 1)]] IN
              IF IsSym(t, r.i, 44) THEN List(t, r.i + 1, ls)
              ELSE IF r.i = Len(t) + 1 THEN [ok |-> TRUE, lists |-> ls]
              ELSE ERR
AffParse(s) == LET lx == Lex(s, 1, <<>>) IN IF ~lx.ok THEN ERR ELSE List(lx.toks, 1, <<>>)

\* ---- oracle evaluation of the records produced by ABTD_affinity_list_create
Recs == ndJsonDeserialize(IOEnv.TRACE)
Good(r) == LET e == AffParse(r.s) IN
           /\ (r.ok = 1) = e.ok
           /\ (e.ok /\ r.big = 0 => r.lists = e.lists)
Bad == {i \in 1..Len(Recs) : ~Good(Recs[i])}
ASSUME PrintT(<<"NRECS", Len(Recs)>>)
ASSUME PrintT(<<"BAD", Bad>>)
VARIABLE x
Init == x = 0
Next == x' = x
=============================================================================
