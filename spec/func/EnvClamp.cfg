INIT Init
NEXT Next
CONSTANT NCores = 16
