-------------------------------- MODULE Atoi --------------------------------
(* Executable definition of the numeric setting parser (src/util/atoi.c), C20.
   Strings are sequences of character codes; numbers are sequences of decimal
   digits (most significant first, no leading zero except <<0>>), so 64-bit
   values are compared exactly although TLC integers are 32-bit.

   Grammar:  ws* sign* digit+ rest     (ws only before the first sign/digit)
   The value saturates at 2^64-1 (overflow reported); each type then clamps to
   its own limits: a negative value clamps to 0 for unsigned types, to INT_MIN
   for int.  No digit => error.                                              *)
EXTENDS Naturals, Integers, Sequences

IsWs(c) == c \in {32, 9, 10, 13}
IsDigit(c) == c >= 48 /\ c <= 57

RECURSIVE StripZ(_)
StripZ(d) == IF Len(d) > 1 /\ Head(d) = 0 THEN StripZ(Tail(d)) ELSE d
RECURSIVE LexLess(_, _)
LexLess(a, b) == IF a = <<>> THEN FALSE
                 ELSE IF Head(a) # Head(b) THEN Head(a) < Head(b) ELSE LexLess(Tail(a), Tail(b))
\* a < b for normalised digit sequences
Less(a, b) == IF Len(a) # Len(b) THEN Len(a) < Len(b) ELSE LexLess(a, b)
Leq(a, b) == a = b \/ Less(a, b)

U64MAX == <<1,8,4,4,6,7,4,4,0,7,3,7,0,9,5,5,1,6,1,5>>
U32MAX == <<4,2,9,4,9,6,7,2,9,5>>
INTMAX == <<2,1,4,7,4,8,3,6,4,7>>
INTMINABS == <<2,1,4,7,4,8,3,6,4,8>>

\* scan: returns [err, neg, val, ovf]; i = position, rc = read_char, rd = read_digit
RECURSIVE Scan(_, _, _, _, _, _)
Scan(s, i, rc, rd, neg, acc) ==
    LET c == IF i <= Len(s) THEN s[i] ELSE 0 IN
    IF IsWs(c) /\ ~rc THEN Scan(s, i + 1, rc, rd, neg, acc)
    ELSE IF c = 43 /\ ~rd THEN Scan(s, i + 1, TRUE, rd, neg, acc)
    ELSE IF c = 45 /\ ~rd THEN Scan(s, i + 1, TRUE, rd, ~neg, acc)
    ELSE IF IsDigit(c) THEN
        LET nacc == StripZ(Append(acc, c - 48)) IN
        IF Less(U64MAX, nacc) THEN [err |-> FALSE, neg |-> neg, val |-> U64MAX, ovf |-> TRUE]
        ELSE Scan(s, i + 1, TRUE, TRUE, neg, nacc)
    ELSE IF ~rd THEN [err |-> TRUE, neg |-> FALSE, val |-> <<>>, ovf |-> FALSE]
    ELSE [err |-> FALSE, neg |-> neg, val |-> acc, ovf |-> FALSE]
Parse64(s) == Scan(s, 1, FALSE, FALSE, FALSE, <<>>)

Zero == <<0>>
\* result of ABTU_atoi / atoui32 / atoui64 / atosz: [err, neg, val, ovf]
ParseAs(fn, s) ==
    LET p == Parse64(s) IN
    IF p.err THEN [err |-> TRUE, neg |-> FALSE, val |-> <<>>, ovf |-> FALSE]
    ELSE CASE fn = "int" ->
              IF p.neg THEN IF Less(INTMINABS, p.val) THEN [err |-> FALSE, neg |-> TRUE, val |-> INTMINABS, ovf |-> TRUE]
                            ELSE [err |-> FALSE, neg |-> p.val # Zero, val |-> p.val, ovf |-> p.ovf]
                       ELSE IF Less(INTMAX, p.val) THEN [err |-> FALSE, neg |-> FALSE, val |-> INTMAX, ovf |-> TRUE]
                            ELSE [err |-> FALSE, neg |-> FALSE, val |-> p.val, ovf |-> p.ovf]
           [] fn = "u32" ->
              IF p.neg THEN [err |-> FALSE, neg |-> FALSE, val |-> Zero, ovf |-> (p.ovf \/ p.val # Zero)]
                       ELSE IF Less(U32MAX, p.val) THEN [err |-> FALSE, neg |-> FALSE, val |-> U32MAX, ovf |-> TRUE]
                            ELSE [err |-> FALSE, neg |-> FALSE, val |-> p.val, ovf |-> p.ovf]
           [] fn \in {"u64", "sz"} ->
              IF p.neg THEN [err |-> FALSE, neg |-> FALSE, val |-> Zero, ovf |-> (p.ovf \/ p.val # Zero)]
                       ELSE [err |-> FALSE, neg |-> FALSE, val |-> p.val, ovf |-> p.ovf]
=============================================================================
