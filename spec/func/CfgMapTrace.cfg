SPECIFICATION TSpec
CONSTANTS Cfgs = {0, 1}
  Keys = {0}
INVARIANT NotAccepted
CONSTRAINT TrackMax
POSTCONDITION Post
CHECK_DEADLOCK FALSE
