----------------------------- MODULE CfgMapTrace -----------------------------
EXTENDS CfgMap, TLC, Json, IOUtils
TraceLog == ndJsonDeserialize(IOEnv.TRACE)
VARIABLE l
tvars == <<m, l>>
Ev == TraceLog[l]
More == l <= Len(TraceLog)
Is(e) == More /\ Ev.e = e /\ l' = l + 1
TInit == CInit /\ l = 1
TNext == \/ (Is("Reset") /\ m' = [c \in Cfgs |-> <<>>])
         \/ (Is("CfgNew") /\ Ev.ret = 0 /\ New(Ev.c, Ev.init))
         \/ (Is("CfgSet") /\ Set(Ev.c, Ev.k, Ev.t, Ev.v, Ev.ret))
         \/ (Is("CfgDel") /\ Delete(Ev.c, Ev.k, Ev.ret))
         \/ (Is("CfgGet") /\ Get(Ev.c, Ev.k, Ev.found, Ev.t, Ev.v))
         \/ (Is("CfgRead") /\ Ev.ret = 0 /\ Read(Ev.c, Ev.vals))
         \/ (Is("CfgFree") /\ Ev.ret = 0 /\ Free(Ev.c))
         \/ (Is("End") /\ UNCHANGED m)
TSpec == TInit /\ [][TNext]_tvars
NotAccepted == l <= Len(TraceLog)
TrackMax == TLCSet(1, IF TLCGet(1) < l THEN l ELSE TLCGet(1))
ASSUME TLCSet(1, 0)
Post == PrintT(<<"MAXL", TLCGet(1)>>)
=============================================================================
