------------------------------- MODULE CfgMap -------------------------------
(* ABT_sched_config / ABT_pool_config as maps from integer keys to typed
   values (C20).  set overwrites value and type; set with NULL deletes (no
   error if absent); get fails iff absent; ABT_sched_config_read copies the
   values of keys 0..n-1 that are present and leaves the others untouched. *)
EXTENDS Naturals, Integers, Sequences, FiniteSets
CONSTANTS Cfgs, Keys
VARIABLES m            \* m[c]: partial function key -> [t, v]
Untouched == -777
CInit == m = [c \in Cfgs |-> <<>>]
Has(c, k) == k \in DOMAIN m[c]
Put(f, k, e) == [x \in DOMAIN f \cup {k} |-> IF x = k THEN e ELSE f[x]]
Del(f, k) == [x \in DOMAIN f \ {k} |-> f[x]]
RECURSIVE PutAll(_, _)
PutAll(f, init) == IF init = <<>> THEN f ELSE PutAll(Put(f, Head(init)[1], [t |-> Head(init)[2], v |-> Head(init)[3]]), Tail(init))
New(c, init) == m' = [m EXCEPT ![c] = PutAll(<<>>, init)]
Set(c, k, t, v, ret) == ret = 0 /\ m' = [m EXCEPT ![c] = Put(@, k, [t |-> t, v |-> v])]
Delete(c, k, ret) == ret = 0 /\ m' = [m EXCEPT ![c] = Del(@, k)]
Get(c, k, found, t, v) == /\ (found = 1) = Has(c, k)
                          /\ (Has(c, k) => m[c][k].t = t /\ m[c][k].v = v)
                          /\ UNCHANGED m
Read(c, vals) == /\ \A i \in 1..Len(vals) : vals[i] = IF Has(c, i - 1) THEN m[c][i - 1].v ELSE Untouched
                 /\ UNCHANGED m
Free(c) == m' = [m EXCEPT ![c] = <<>>]
\* stand-alone model: any operation sequence keeps the map a function
CNext == \E c \in Cfgs, k \in Keys :
            \/ \E t \in 0..2, v \in 0..1 : Set(c, k, t, v, 0)
            \/ Delete(c, k, 0)
            \/ (\E t \in 0..2, v \in 0..1 : Get(c, k, 1, t, v)) \/ Get(c, k, 0, 0, 0)
CSpec == CInit /\ [][CNext]_m
GetAfterSet == \A c \in Cfgs : \A k \in DOMAIN m[c] : m[c][k].t \in 0..2
=============================================================================
