---------------------------- MODULE H_CondTrace ----------------------------
EXTENDS H_Cond, Sequences, TLC, Json, IOUtils
TraceLog == ndJsonDeserialize(IOEnv.TRACE)
VARIABLES l, psig   \* psig: an unlocked signal / broadcast in progress: [t, kind, done] or NoSig
NoSig == [t |-> 0, kind |-> "none", done |-> FALSE]
tvars == <<holder, waiting, woken, expired, dl, l, psig>>
Ev == TraceLog[l]
More == l <= Len(TraceLog)
Consume == l' = l + 1
TInit == HInit /\ l = 1 /\ psig = NoSig
TReset == More /\ Ev.e = "Reset" /\ Consume /\ holder' = 0 /\ waiting' = {} /\ woken' = {} /\ expired' = {}
          /\ dl' = [t \in Threads |-> NoDl] /\ psig' = NoSig
TSkip == More /\ Ev.e \in {"Cond"} /\ Consume /\ UNCHANGED hvars
TAcq == More /\ Ev.e = "Acq" /\ Consume /\ Acq(Ev.t)
TRel == More /\ Ev.e = "Rel" /\ Consume /\ Rel(Ev.t)
TWaitCall == More /\ Ev.e = "WaitCall" /\ Consume /\ WaitCall(Ev.t, Ev.timed = 1, Ev.dl)
TSignal == More /\ Ev.e = "Signal" /\ Consume /\ Signal(Ev.t, "nolock" \notin DOMAIN Ev)
TBcast == More /\ Ev.e = "Bcast" /\ Consume /\ Bcast(Ev.t, "nolock" \notin DOMAIN Ev)
\* h = the harness-side count of callers that believe they hold the mutex
TWaitRet == More /\ Ev.e = "WaitRet" /\ Consume /\ Ev.h = 1 /\ WaitRet(Ev.t, Ev.ok = 1, Ev.now)
\* unlogged time-out, only when the next record needs it
\* (a waiter may also have given up just before a signal/broadcast took effect)
TExpire == /\ More /\ UNCHANGED l
           /\ \/ (Ev.e = "WaitRet" /\ Ev.ok = 0 /\ Expire(Ev.t))
              \/ ((Ev.e \in {"Signal", "Bcast"} \/ (psig.kind # "none" /\ ~psig.done)) /\ \E t \in Threads : Expire(t))
TCondEnd == More /\ Ev.e = "CondEnd" /\ Consume /\ waiting = {} /\ woken = {} /\ expired = {} /\ holder = 0
            /\ UNCHANGED hvars
TEnd == More /\ Ev.e = "End" /\ Consume /\ UNCHANGED hvars
\* A signal / broadcast sent WITHOUT the mutex takes effect somewhere between its call and its
\* return (SigCall ... SigRet): waiters that start to wait meanwhile may or may not be reached.
TSigCall == More /\ Ev.e = "SigCall" /\ Consume /\ psig = NoSig /\ psig' = [t |-> Ev.t, kind |-> Ev.kind, done |-> FALSE] /\ UNCHANGED hvars
TSigLin == /\ More /\ UNCHANGED l /\ psig.kind # "none" /\ ~psig.done /\ psig' = [psig EXCEPT !.done = TRUE]
           \* ("maybe": a signal sent at a moment when the sender cannot know whether the newest
           \*  waiter is on the list already: it may reach a waiter or nobody)
           /\ CASE psig.kind = "signal" -> Signal(psig.t, FALSE)
                [] psig.kind = "maybe" -> (Signal(psig.t, FALSE) \/ UNCHANGED hvars)
                [] OTHER -> Bcast(psig.t, FALSE)
TSigRet == More /\ Ev.e = "SigRet" /\ Consume /\ psig.t = Ev.t /\ psig.done /\ psig' = NoSig /\ UNCHANGED hvars
TOld == TReset \/ TSkip \/ TAcq \/ TRel \/ TWaitCall \/ TSignal \/ TBcast \/ TWaitRet \/ TExpire \/ TCondEnd \/ TEnd
TNext == (TOld /\ (Ev.e = "Reset" \/ UNCHANGED psig)) \/ TSigCall \/ TSigLin \/ TSigRet
TSpec == TInit /\ [][TNext]_tvars
NotAccepted == l <= Len(TraceLog)
TrackMax == TLCSet(1, IF TLCGet(1) < l THEN l ELSE TLCGet(1))
ASSUME TLCSet(1, 0)
Post == PrintT(<<"MAXL", TLCGet(1)>>)
=============================================================================
