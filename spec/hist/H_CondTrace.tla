---------------------------- MODULE H_CondTrace ----------------------------
EXTENDS H_Cond, Sequences, TLC, Json, IOUtils
TraceLog == ndJsonDeserialize(IOEnv.TRACE)
VARIABLE l
tvars == <<holder, waiting, woken, expired, dl, l>>
Ev == TraceLog[l]
More == l <= Len(TraceLog)
Consume == l' = l + 1
TInit == HInit /\ l = 1
TReset == More /\ Ev.e = "Reset" /\ Consume /\ holder' = 0 /\ waiting' = {} /\ woken' = {} /\ expired' = {}
          /\ dl' = [t \in Threads |-> NoDl]
TSkip == More /\ Ev.e \in {"Cond"} /\ Consume /\ UNCHANGED hvars
TAcq == More /\ Ev.e = "Acq" /\ Consume /\ Acq(Ev.t)
TRel == More /\ Ev.e = "Rel" /\ Consume /\ Rel(Ev.t)
TWaitCall == More /\ Ev.e = "WaitCall" /\ Consume /\ WaitCall(Ev.t, Ev.timed = 1, Ev.dl)
TSignal == More /\ Ev.e = "Signal" /\ Consume /\ Signal(Ev.t)
TBcast == More /\ Ev.e = "Bcast" /\ Consume /\ Bcast(Ev.t)
\* h = the harness-side count of callers that believe they hold the mutex
TWaitRet == More /\ Ev.e = "WaitRet" /\ Consume /\ Ev.h = 1 /\ WaitRet(Ev.t, Ev.ok = 1, Ev.now)
\* unlogged time-out, only when the next record needs it
\* (a waiter may also have given up just before a signal/broadcast took effect)
TExpire == /\ More /\ UNCHANGED l
           /\ \/ (Ev.e = "WaitRet" /\ Ev.ok = 0 /\ Expire(Ev.t))
              \/ (Ev.e \in {"Signal", "Bcast"} /\ \E t \in Threads : Expire(t))
TCondEnd == More /\ Ev.e = "CondEnd" /\ Consume /\ waiting = {} /\ woken = {} /\ expired = {} /\ holder = 0
            /\ UNCHANGED hvars
TEnd == More /\ Ev.e = "End" /\ Consume /\ UNCHANGED hvars
TNext == TReset \/ TSkip \/ TAcq \/ TRel \/ TWaitCall \/ TSignal \/ TBcast \/ TWaitRet \/ TExpire \/ TCondEnd \/ TEnd
TSpec == TInit /\ [][TNext]_tvars
NotAccepted == l <= Len(TraceLog)
TrackMax == TLCSet(1, IF TLCGet(1) < l THEN l ELSE TLCGet(1))
ASSUME TLCSet(1, 0)
Post == PrintT(<<"MAXL", TLCGet(1)>>)
=============================================================================
