---------------------------- MODULE H_ExecTrace ----------------------------
EXTENDS H_Exec, TLC, Json, IOUtils
TraceLog == ndJsonDeserialize(IOEnv.TRACE)
VARIABLE l
tvars == <<st, arg, tok, cst, starts, inYield, mg, inpool, expect, rin, l>>
Ev == TraceLog[l]
More == l <= Len(TraceLog)
Consume == l' = l + 1
Is(e) == More /\ Ev.e = e /\ Consume
SeqToSet(s) == {s[i] : i \in 1..Len(s)}
TInit == HInit /\ l = 1
TReset == Is("Reset") /\ st' = [u \in Units |-> "none"] /\ arg' = [u \in Units |-> 0] /\ tok' = [u \in Units |-> 0]
          /\ cst' = [u \in Units |-> 0] /\ starts' = [u \in Units |-> 0] /\ inYield' = [u \in Units |-> FALSE] /\ mg' = [u \in Units |-> Mg0] /\ inpool' = [u \in Units |-> FALSE] /\ expect' = NoExpect /\ rin' = {}
TNext ==
    \/ TReset
    \/ (More /\ UNCHANGED l /\ \E u \in Units : Honour(u))
    \/ (Is("Exec") /\ NoOp)
    \/ (Is("Note") /\ NoOp)
    \/ (Is("Create") /\ Create(Ev.by, Ev.u, Ev.arg, Ev.pool, IF "mig" \in DOMAIN Ev THEN Ev.mig = 1 ELSE TRUE))
    \/ (Is("CreateRet") /\ ByOK(Ev.by) /\ NoOp)
    \/ (Is("Start") /\ Start(Ev.u, Ev.arg, Ev.n) /\ ("sp16" \in DOMAIN Ev => Aligned(Ev.sp16)))
    \* two run slices of one unit overlap: the unit runs on two streams at once (never)
    \/ (Is("Overlap") /\ FALSE /\ NoOp)
    \/ (Is("Ctx") /\ CtxKept(Ev.u, Ev.regs, Ev.mxcsr, Ev.x87) /\ NoOp)
    \/ (Is("Finish") /\ Finish(Ev.u))
    \/ (Is("Exit") /\ Finish(Ev.u))
    \/ (Is("Yield") /\ Yield(Ev.u))
    \* ABT_thread_yield_to may or may not be a scheduling point (it returns at once if the target is not parked yet)
    \/ (Is("YieldTo") /\ st[Ev.u] = "running" /\ inYield' = [inYield EXCEPT ![Ev.u] = TRUE]
        /\ UNCHANGED <<st, arg, tok, cst, starts, mg, inpool, expect, rin>>)
    \/ (Is("Back") /\ Back(Ev.u, IF "pool" \in DOMAIN Ev THEN Ev.pool ELSE NoPool))
    \/ (Is("Suspend") /\ Suspend(Ev.u))
    \/ (Is("ResumeCall") /\ Resume(Ev.by, Ev.u))
    \/ (Is("ResumeRet") /\ ResumeRet(Ev.by, Ev.u))
    \/ (Is("Resumed") /\ Resumed(Ev.u))
    \/ (Is("Cancel") /\ Cancel(Ev.by, Ev.u))
    \/ (Is("CancelRet") /\ CancelRet(Ev.by, Ev.u))
    \* a join by a unit is a scheduling point of that unit
    \/ (Is("JoinCall") /\ ByOK(Ev.by)
        /\ inYield' = (IF Ev.by > 0 THEN [inYield EXCEPT ![Ev.by] = TRUE] ELSE inYield)
        /\ UNCHANGED <<st, arg, tok, cst, starts, mg, inpool, expect, rin>>)
    \/ (Is("JoinRet") /\ ByOK(Ev.by) /\ st[Ev.u] = "done" /\ Ev.st = 3 /\ Ev.tok = tok[Ev.u]
        /\ inYield' = (IF Ev.by > 0 THEN [inYield EXCEPT ![Ev.by] = FALSE] ELSE inYield)
        /\ UNCHANGED <<st, arg, tok, cst, starts, mg, inpool, expect, rin>>)
    \/ (Is("FreeCall") /\ ByOK(Ev.by) /\ NoOp)
    \* a free that must be rejected (the caller frees itself): documented error, the handle is left as it was
    \/ (Is("FreeRej") /\ Ev.ret = 1 /\ Ev.same = 1 /\ NoOp)
    \/ (Is("FreeRet") /\ FreeRet(Ev.by, Ev.u, Ev.null, Ev.tok))
    \/ (Is("Revive") /\ Revive(Ev.by, Ev.u, Ev.arg, Ev.pool))
    \/ (Is("ReviveRet") /\ ByOK(Ev.by) /\ NoOp)
    \/ (Is("MigReq") /\ MigReq(Ev.by, Ev.u, Ev.tgt, {Ev.has[i] : i \in DOMAIN Ev.has}))
    \/ (Is("MigRet") /\ MigRet(Ev.by, Ev.u, Ev.ret))
    \/ (Is("MigCb") /\ MigCb(Ev.u))
    \/ (Is("MigCount") /\ MigCount(Ev.u, Ev.n))
    \* a request for a unit that can never migrate (the primary ULT) is rejected as an invalid work unit
    \/ (Is("MigRej") /\ Ev.ret = 1 /\ NoOp)
    \/ (Is("Primary") /\ Primary(Ev.u, IF "pool" \in DOMAIN Ev THEN Ev.pool ELSE 0))
    \/ (Is("PrimaryDone") /\ PrimaryDone(Ev.u))
    \/ (Is("Pop") /\ Pop(Ev.by, Ev.t))
    \/ (Is("Prim") /\ Prim(Ev.u, Ev.op, Ev.t, Ev.arg, IF "pool" \in DOMAIN Ev THEN Ev.pool ELSE 0))
    \/ (Is("Run") /\ Run(Ev.u, Ev.of, Ev.ost, Ev.size, Ev.total))
    \/ (Is("XJoinCall") /\ NoOp)
    \* a third party reads a unit's state: TERMINATED is reported only for a unit that has terminated
    \* (a blocked unit with a pending cancellation stays blocked until it is resumed)
    \/ (Is("StateObs") /\ (Ev.st = 3 => Terminated(Ev.u)) /\ NoOp)
    \/ (Is("XJoinRet") /\ Ev.term = 1 /\ AllTerminated(SeqToSet(Ev.us)) /\ NoOp)
    \* the blocked counter is never negative; after all streams were joined no
    \* unit is blocked and the joined streams' pools are empty
    \/ (Is("Blocked") /\ Ev.n >= 0 /\ (Ev.tag = "afterjoin" /\ Ev.p > 0 => Ev.n = 0 /\ Ev.size = 0) /\ NoOp)
    \/ (Is("FinalizeCall") /\ NoOp)
    \* after ABT_finalize nothing obtained from the system allocator is left, nothing was freed twice
    \/ (Is("Ledger") /\ Ev.live = 0 /\ Ev.errors = 0 /\ NoOp)
    \/ (Is("FinalizeRet") /\ AllTerminated(SeqToSet(Ev.us)) /\ NoOp)
    \/ (Is("End") /\ (Ev.why = "done" => \A u \in Units : st[u] \in {"none", "done", "freed"}) /\ NoOp)
\* a unit that reports its own state while it runs reads RUNNING, however control came back to it
SelfOK == (More /\ "self" \in DOMAIN Ev) => Ev.self = 1
TSpec == TInit /\ [][SelfOK /\ TNext]_tvars
NotAccepted == l <= Len(TraceLog)
TrackMax == TLCSet(1, IF TLCGet(1) < l THEN l ELSE TLCGet(1))
ASSUME TLCSet(1, 0)
Post == PrintT(<<"MAXL", TLCGet(1)>>)
=============================================================================
