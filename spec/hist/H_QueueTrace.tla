--------------------------- MODULE H_QueueTrace ---------------------------
(* Acceptor of recorded pool histories (driver d_pool).  One ndjson file
   holds many runs separated by Reset records.  INVARIANT NotAccepted is
   violated iff some choice of linearization points explains the whole file. *)
EXTENDS H_Queue, TLC, Json, IOUtils

TraceLog == ndJsonDeserialize(IOEnv.TRACE)
VARIABLE l
tvars == <<q, pend, deque, l>>

Ev == TraceLog[l]
More == l <= Len(TraceLog)
Consume == l' = l + 1

TInit == q = <<>> /\ pend = [t \in Threads |-> Idle] /\ deque = FALSE /\ l = 1

TReset == More /\ Ev.e = "Reset" /\ Consume
          /\ q' = <<>> /\ pend' = [t \in Threads |-> Idle] /\ deque' = FALSE
TPool == More /\ Ev.e = "Pool" /\ Consume /\ deque' = (Ev.deque = 1) /\ UNCHANGED <<q, pend>>
TCall == More /\ Ev.e = "Call" /\ Consume
         /\ CASE Ev.op = "push" -> CallPush(Ev.t, Ev.us, Ev.hd = 1)
              [] Ev.op = "pop" -> CallPopL(Ev.t, Ev.k, Ev.tl = 1, "long" \in DOMAIN Ev)
              [] Ev.op = "remove" -> CallRemove(Ev.t, Ev.u)
TRet == More /\ Ev.e = "Ret" /\ Consume /\ Ret(Ev.t, Ev.r)
\* size and emptiness are exact whenever the pool is quiescent
TQuiet == More /\ Ev.e = "Quiet" /\ Consume /\ Quiescent
          /\ Ev.size = Len(q) /\ (Ev.empty = 1) = (q = <<>>)
          /\ UNCHANGED <<q, pend, deque>>
\* at the end every token is owned by exactly one holder and the pool is empty
TTokens == More /\ Ev.e = "Tokens" /\ Consume /\ Quiescent /\ q = <<>> /\ Ev.total = Cardinality(Units)
           /\ UNCHANGED <<q, pend, deque>>
TEnd == More /\ Ev.e = "End" /\ Consume /\ UNCHANGED <<q, pend, deque>>
\* linearize lazily: only when the next record is a Ret whose call has not taken effect
NeedLin == More /\ Ev.e = "Ret" /\ ~pend[Ev.t].done
TLin == NeedLin /\ UNCHANGED l /\ \E t \in Threads : Lin(t)

TNext == TReset \/ TPool \/ TCall \/ TRet \/ TQuiet \/ TTokens \/ TEnd \/ TLin
TSpec == TInit /\ [][TNext]_tvars

NotAccepted == l <= Len(TraceLog)
\* longest matched prefix, for diagnostics (single worker)
TrackMax == TLCSet(1, IF TLCGet(1) < l THEN l ELSE TLCGet(1))
ASSUME TLCSet(1, 0)
Post == PrintT(<<"MAXL", TLCGet(1)>>)
=============================================================================
