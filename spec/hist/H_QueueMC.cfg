SPECIFICATION HSpec
CONSTANTS
  Threads = {1,2}
  Units = {1,2,3}
INVARIANT NoDuplicates
CHECK_DEADLOCK FALSE
