------------------------------- MODULE H_Fault -------------------------------
(* Level A: failure atomicity of creating / initialising routines (C18).

   The observable state of the runtime is the vector `obs` (number of
   execution streams, total sizes of four pools, live units of the user-defined
   pool, number of work-unit bodies executed, three key values, readiness of two
   pre-existing units, usability of a mutex).  A call of routine class `eff`
   either SUCCEEDS -- then obs changes exactly as documented for that routine
   (Effect) and a fresh handle is returned -- or FAILS -- then obs does not
   change at all, no handle is handed out and no allocation stays behind.  A
   call may fail only if one of its resource requests failed; the same call
   without a failing request succeeds.  Every work unit that was successfully
   created runs exactly once (Settle), and ABT_finalize releases everything.  *)
EXTENDS Naturals, Integers
CONSTANTS Effs
VARIABLES up,      \* the runtime is initialised
          obs,     \* observable state
          created, \* units successfully created and not yet run (ghost)
          must,    \* the next call of this kind must succeed ("retry succeeds")
          keep     \* user-pool units of terminated, named work units that outlive the follow-up workload (ghost)
hvars == <<up, obs, created, must, keep>>
Zero == [nx |-> 1, s0 |-> 0, s1 |-> 0, s2 |-> 0, su |-> 0, ul |-> 0, ran |-> 0, kv |-> 0, k2 |-> 0, pk |-> 0, pre |-> 0, mx |-> 1, prim |-> 1]
HInit == up = FALSE /\ obs = Zero /\ created = 0 /\ must = FALSE /\ keep = 0

Queued(o) == o.s0 + o.s1 + o.s2 + o.su
Effect(eff, o) ==
    CASE eff = "p1"  -> [o EXCEPT !.s1 = @ + 1]
      [] eff = "p0"  -> [o EXCEPT !.s0 = @ + 1]
      [] eff = "up"  -> [o EXCEPT !.su = @ + 1, !.ul = @ + 1]   \* a unit of the user-defined pool is created
      [] eff = "upk" -> [o EXCEPT !.su = @ + 1, !.ul = @ + 1]   \* revive of a terminated unit into the user-defined pool
      [] eff = "upr" -> [o EXCEPT !.su = @ + 1]                  \* revive in the same user pool: the unit still exists
      [] eff = "p1f" -> [o EXCEPT !.s1 = @ + 1, !.ul = @ - 1]   \* revive from the user pool into a built-in one: the unit is freed
      [] eff = "upm" -> [o EXCEPT !.ul = IF o.nx > 1 THEN @ + 1 ELSE @]   \* the ULT of another stream's new main scheduler gets a unit of a user-defined pool (needs a second stream)
      [] eff = "ran" -> [o EXCEPT !.ran = @ + 1]                 \* create_to: the new ULT ran before the call returned
      [] eff = "nx"  -> [o EXCEPT !.nx = @ + 1]
      [] eff = "k2"  -> [o EXCEPT !.k2 = 33]
      [] eff = "pk"  -> [o EXCEPT !.pk = 55]
      [] OTHER       -> o
NewUnits(eff) == IF eff \in {"p1", "p0", "up", "upk", "upr", "p1f"} THEN 1 ELSE 0
KeepDelta(eff) == IF eff = "upk" THEN 1 ELSE IF eff = "p1f" THEN -1 ELSE 0
KeepDeltaIn(eff, o) == IF eff = "upm" THEN (IF o.nx > 1 THEN 1 ELSE 0) ELSE KeepDelta(eff)

InitOk == ~up /\ up' = TRUE /\ must' = FALSE /\ UNCHANGED <<obs, created, keep>>
InitFail == ~up /\ ~must /\ must' = TRUE /\ UNCHANGED <<up, obs, created, keep>>
\* set-up of pre-existing objects by calls that are not under fault
Setup(o) == up /\ obs' = o /\ created' = Queued(o) /\ keep' = 1 /\ UNCHANGED <<up, must>>
CallOk(eff) == up /\ obs' = Effect(eff, obs) /\ created' = created + NewUnits(eff) /\ keep' = keep + KeepDeltaIn(eff, obs) /\ must' = FALSE /\ UNCHANGED up
CallFail(eff) == up /\ ~must /\ must' = TRUE /\ UNCHANGED <<up, obs, created, keep>>
\* the follow-up workload runs every queued unit exactly once
Settle == up /\ ~must
          /\ obs' = [obs EXCEPT !.s0 = 0, !.s1 = 0, !.s2 = 0, !.su = 0, !.ran = @ + created, !.pre = 0, !.pk = 0,
                                !.ul = keep]
          /\ created' = 0 /\ UNCHANGED <<up, must, keep>>
\* releasing the object a successful call created (only a new stream is visible)
Undo(eff) == up /\ ~must /\ obs' = (IF eff = "nx" THEN [obs EXCEPT !.nx = @ - 1] ELSE obs) /\ UNCHANGED <<up, created, must, keep>>
Finalize == up /\ ~must /\ created = 0 /\ up' = FALSE /\ obs' = Zero /\ keep' = 0 /\ UNCHANGED <<created, must>>

HNext == InitOk \/ InitFail \/ Settle \/ Finalize \/ \E e \in Effs : CallOk(e) \/ CallFail(e) \/ (obs.nx > 1 /\ Undo(e))
HSpec == HInit /\ [][HNext]_hvars
\* no unit is lost or duplicated, whatever fails
Conservation == created = Queued(obs)
\* a failing step changes nothing observable
FailAtomic == [][must' /\ ~must => obs' = obs /\ created' = created /\ up' = up /\ keep' = keep]_hvars
\* two failures in a row are impossible: the retry succeeds
=============================================================================
