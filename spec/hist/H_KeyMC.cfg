SPECIFICATION HSpec
CONSTANTS Units = {1,2}
  Keys = {0,1}
  Actors = {1,2}
INVARIANTS DueIsJustified GetSeesMap
CHECK_DEADLOCK FALSE
