SPECIFICATION HSpec
CONSTANTS Threads = {1,2,3}
INVARIANTS OneHolder DepthOK
CHECK_DEADLOCK FALSE
CONSTRAINT DepthBound
