SPECIFICATION TSpec
CONSTANTS Pools = {0,1,2,3}
  WUnits = {0,1,2,3,4,5,6,7,8,9,10,11,12}
INVARIANT NotAccepted
CONSTRAINT TrackMax
POSTCONDITION Post
CHECK_DEADLOCK FALSE
