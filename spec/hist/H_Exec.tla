------------------------------- MODULE H_Exec -------------------------------
(* Level A: what an observable history of work-unit execution may look like
   (C01 exactly-once execution, C03 join/free, C06 stream join / finalize and
   the blocked counter, C11 suspend/resume, C12 life cycle, C13 migration).

   status of a work unit (one incarnation at a time):
     none -> created -> running -> (blocked -> resumable -> running)* -> done -> freed
                                                                      done -> created   (revive)
   Every record is an observation made either by the unit itself (it must be
   running), or by a caller `by` (0 = primary ULT, -1 = external thread,
   k > 0 = unit k, which must be running).                                   *)
EXTENDS Naturals, Integers, FiniteSets, Sequences
CONSTANTS Units

VARIABLES st,     \* status
          arg,    \* argument given at creation / revival
          tok,    \* value the unit published before terminating (0 if it never finished normally)
          cst,    \* cancellation: 0 none, 1 requested, 2 request returned, 3 honoured
          starts, \* number of Start observations of the current incarnation
          inYield,\* the unit announced a scheduling point and has not reported back
          mg,     \* migration (C13), per unit: [pool, old, pend, armed, must, ncb, able]
          inpool, \* directed switches (C11): the unit is in its pool
          expect, \* who must run next on the calling stream and what it must observe
          rin     \* units whose ABT_thread_resume by another thread is in progress
hvars == <<st, arg, tok, cst, starts, inYield, mg, inpool, expect, rin>>
NoExpect == [next |-> 0, of |-> 0, ost |-> 0]

NoPool == -2      \* no pending target
AnyPool == -1     \* target chosen by the runtime (ABT_thread_migrate) / not yet observed
Mg0 == [pool |-> NoPool, old |-> NoPool, pend |-> NoPool, armed |-> FALSE, must |-> FALSE, ncb |-> 0, able |-> TRUE, cands |-> {}, cred |-> 0, exp |-> 9, infl |-> 0]

HInit == /\ st = [u \in Units |-> "none"] /\ arg = [u \in Units |-> 0] /\ tok = [u \in Units |-> 0]
         /\ cst = [u \in Units |-> 0] /\ starts = [u \in Units |-> 0] /\ inYield = [u \in Units |-> FALSE]
         /\ mg = [u \in Units |-> Mg0] /\ inpool = [u \in Units |-> FALSE] /\ expect = NoExpect /\ rin = {}

ByOK(by) == IF by <= 0 THEN TRUE ELSE st[by] = "running"
Terminated(u) == st[u] \in {"done", "freed"}

Create(by, u, a, pool, able) ==
    /\ ByOK(by) /\ st[u] = "none"
    /\ st' = [st EXCEPT ![u] = "created"] /\ arg' = [arg EXCEPT ![u] = a]
    /\ mg' = [mg EXCEPT ![u] = [Mg0 EXCEPT !.pool = pool, !.able = able]]
    /\ inpool' = [inpool EXCEPT ![u] = TRUE]
    /\ UNCHANGED <<tok, cst, starts, inYield, expect, rin>>
\* the function is invoked exactly once, with the argument it was given
\* C02: a ULT that performed a context-switching primitive comes back with the callee-saved
\* registers, the MXCSR control bits and the x87 control word it had when it called it; a ULT
\* function is entered on a 16-byte aligned stack
CtxKept(u, regs, mxcsr, x87) == regs = 1 /\ mxcsr = 1 /\ x87 = 1
Aligned(sp16) == sp16 = 0
Start(u, a, n) == /\ st[u] = "created" /\ a = arg[u] /\ n = 1
                  /\ st' = [st EXCEPT ![u] = "running"] /\ starts' = [starts EXCEPT ![u] = @ + 1]
                  /\ inpool' = [inpool EXCEPT ![u] = FALSE]
                  /\ UNCHANGED <<arg, tok, cst, inYield, mg, expect, rin>>
Finish(u) == /\ st[u] = "running"
             /\ st' = [st EXCEPT ![u] = "done"] /\ tok' = [tok EXCEPT ![u] = arg[u]]
             /\ UNCHANGED <<arg, cst, starts, inYield, mg, inpool, expect, rin>>
\* a scheduling point: a unit whose cancellation request has returned stops
\* here; a unit with an accepted migration request must move before it runs again
Yield(u) == /\ st[u] = "running"
            /\ IF cst[u] = 2 THEN st' = [st EXCEPT ![u] = "done"] /\ cst' = [cst EXCEPT ![u] = 3]
                             ELSE UNCHANGED <<st, cst>>
            /\ inYield' = [inYield EXCEPT ![u] = TRUE]
            /\ mg' = [mg EXCEPT ![u].must = mg[u].armed]
            /\ UNCHANGED <<arg, tok, starts, inpool, expect, rin>>
\* the unit runs again; p = the pool it was taken from (NoPool when not reported)
Back(u, p) ==
    /\ st[u] = "running" /\ inYield' = [inYield EXCEPT ![u] = FALSE]
    /\ ~mg[u].must
    /\ IF p = NoPool THEN UNCHANGED mg
       ELSE IF mg[u].pool = AnyPool
            THEN p # mg[u].old /\ mg' = [mg EXCEPT ![u].pool = p]      \* some *other* stream's pool
            ELSE p = mg[u].pool /\ UNCHANGED mg
    /\ UNCHANGED <<st, arg, tok, cst, starts, inpool, expect, rin>>
\* unobserved: a unit waiting at a scheduling point whose cancellation has been
\* requested is terminated instead of being run again
Honour(u) == /\ \/ (st[u] = "running" /\ inYield[u])
                \/ st[u] = "created"                 \* cancelled before its first run: it never starts
             /\ cst[u] \in {1, 2}
             /\ st' = [st EXCEPT ![u] = "done"] /\ cst' = [cst EXCEPT ![u] = 3]
             /\ UNCHANGED <<arg, tok, starts, inYield, mg, inpool, expect, rin>>
Suspend(u) == /\ st[u] = "running" /\ st' = [st EXCEPT ![u] = "blocked"]
              /\ mg' = [mg EXCEPT ![u].must = mg[u].armed]
              /\ UNCHANGED <<arg, tok, cst, starts, inYield, inpool, expect, rin>>
\* a suspended unit runs again only after it is resumed, and once per resume;
\* if it was cancelled meanwhile it terminates instead of running
Resume(by, u) == /\ ByOK(by) /\ st[u] = "blocked"
                 /\ IF cst[u] = 2 THEN st' = [st EXCEPT ![u] = "done"] /\ cst' = [cst EXCEPT ![u] = 3]
                                  ELSE st' = [st EXCEPT ![u] = "resumable"] /\ UNCHANGED cst
                 /\ inpool' = [inpool EXCEPT ![u] = TRUE]          \* pushed back to its pool
                 /\ rin' = rin \cup {u}
                 /\ UNCHANGED <<arg, tok, starts, inYield, mg, expect>>
ResumeRet(by, u) == /\ ByOK(by) /\ rin' = rin \ {u}
                    /\ UNCHANGED <<st, arg, tok, cst, starts, inYield, mg, inpool, expect>>
Resumed(u) == /\ st[u] = "resumable" /\ st' = [st EXCEPT ![u] = "running"]
              /\ UNCHANGED <<arg, tok, cst, starts, inYield, mg, inpool, expect, rin>>
Cancel(by, u) == /\ ByOK(by) /\ cst[u] = 0 /\ ~Terminated(u) /\ st[u] # "none"
                 /\ cst' = [cst EXCEPT ![u] = 1] /\ UNCHANGED <<st, arg, tok, starts, inYield, mg, inpool, expect, rin>>
CancelRet(by, u) == /\ cst[u] = 1 /\ cst' = [cst EXCEPT ![u] = 2] /\ UNCHANGED <<st, arg, tok, starts, inYield, mg, inpool, expect, rin>>
\* join returns only after termination, sees TERMINATED and the target's writes
JoinRet(by, u, state, t) == /\ ByOK(by) /\ st[u] = "done" /\ state = 3 /\ t = tok[u]
                            /\ UNCHANGED hvars
FreeRet(by, u, isnull, t) == /\ ByOK(by) /\ st[u] = "done" /\ isnull = 1 /\ t = tok[u]
                             /\ st' = [st EXCEPT ![u] = "freed"] /\ UNCHANGED <<arg, tok, cst, starts, inYield, mg, inpool, expect, rin>>
Revive(by, u, a, pool) ==
    /\ ByOK(by) /\ st[u] = "done"
    /\ st' = [st EXCEPT ![u] = "created"] /\ arg' = [arg EXCEPT ![u] = a]
    /\ tok' = [tok EXCEPT ![u] = 0] /\ cst' = [cst EXCEPT ![u] = 0]
    /\ starts' = [starts EXCEPT ![u] = 0] /\ inYield' = [inYield EXCEPT ![u] = FALSE]
    /\ mg' = [mg EXCEPT ![u] = [Mg0 EXCEPT !.pool = pool, !.able = mg[u].able]]
    /\ inpool' = [inpool EXCEPT ![u] = TRUE] /\ UNCHANGED <<expect, rin>>

\* ---------------------------------------------------------------- migration
\* A request names a target pool (or AnyPool).  It is accepted iff the unit is
\* migratable and the target differs from the pool it is associated with.
\* Requests may overlap: a later request overwrites the target of an earlier one that has not been
\* performed yet (pend = the target of the latest accepted request, cands = the targets of all
\* requests since the last callback: the callback may still perform an older one, after which the
\* latest one stays pending).
\* (a requester may find out only after logging its call that the unit has just finished: such a
\*  late request has no effect)
\* `has`: the pools of the scheduler the request names (to_sched / to_xstream: the request is
\* rejected when the unit is associated with any of them, and otherwise aims at the first one);
\* for a request that names a pool, that pool; empty for ABT_thread_migrate.
\* exp: the outcome the call must report -- 0 accepted, 1 rejected: already there, 2 rejected:
\* not migratable, 9 anything (the unit had finished when the call was made)
MigReq(by, u, tgt, has) ==
    /\ ByOK(by) /\ st[u] \in {"created", "running", "blocked", "resumable", "done"}
    /\ LET same == mg[u].pool = tgt \/ mg[u].pool \in has
           ok == st[u] # "done" /\ mg[u].able /\ ~same IN
       mg' = [mg EXCEPT ![u].pend = IF ok THEN tgt ELSE @, ![u].cands = IF ok THEN @ \cup {tgt} ELSE @,
                        ![u].cred = IF ok THEN @ + 1 ELSE @,
                        ![u].exp = IF st[u] = "done" THEN 9 ELSE IF ~mg[u].able THEN 2 ELSE IF same THEN 1 ELSE 0,
                        ![u].infl = @ + 1]
    /\ UNCHANGED <<st, arg, tok, cst, starts, inYield, inpool, expect, rin>>
\* ret: 0 accepted, 1 rejected: same pool, 2 rejected: not migratable, 3 "no target stream"
MigRet(by, u, ret) ==
    /\ mg[u].infl > 0                            \* a return belongs to a call
    /\ IF mg[u].exp = 9
       THEN CASE ret = 0 -> mg[u].able
              [] ret = 1 -> mg[u].able /\ mg[u].pend = NoPool
              [] ret = 2 -> ~mg[u].able
              [] OTHER -> FALSE                    \* ABT_thread_migrate must find another running stream
       ELSE ret = mg[u].exp \/ (ret = 2 /\ st[u] = "done")   \* (it finished while the call was being made)
    \* armed unless the migration has already been performed meanwhile
    /\ mg' = [mg EXCEPT ![u].armed = IF ret = 0 THEN mg[u].pend # NoPool ELSE @, ![u].exp = 9,
                         ![u].infl = IF @ > 0 THEN @ - 1 ELSE 0]
    /\ UNCHANGED <<st, arg, tok, cst, starts, inYield, inpool, expect, rin>>
\* the migration callback: the migration is performed here
\* Each accepted request raises the request flag once, and the handler runs only when it finds the
\* flag raised (lowering it): there are never more callbacks than accepted requests (cred).  A
\* callback that finds no target pending (the flag was raised again after the handler had
\* lowered it and already read the newest target) leaves the unit where it is.
MigCb(u) ==
    /\ mg[u].cred > 0
    /\ IF mg[u].pend # NoPool
       THEN \E p \in mg[u].cands :
              mg' = [mg EXCEPT ![u] = [@ EXCEPT !.old = mg[u].pool, !.pool = p, !.ncb = @ + 1, !.must = FALSE, !.cred = @ - 1,
                                              !.pend = IF p = mg[u].pend THEN NoPool ELSE @,
                                              \* (an older target was performed: the newest request is binding only once its call has returned)
                                              !.armed = IF p = mg[u].pend THEN FALSE ELSE (mg[u].infl = 0),
                                              !.cands = IF p = mg[u].pend THEN {} ELSE @ \ {p}]]
       ELSE mg' = [mg EXCEPT ![u].ncb = @ + 1, ![u].cred = @ - 1]
    /\ UNCHANGED <<st, arg, tok, cst, starts, inYield, inpool, expect, rin>>
MigCount(u, n) == n = mg[u].ncb /\ UNCHANGED hvars

\* ---------------------------------------------------------------- directed switches (C11)
\* observed thread states: 0 READY, 1 RUNNING, 2 BLOCKED, 3 TERMINATED
Ready(t) == st[t] \in {"created", "ready", "resumable"}
\* (pool: 0 if the primary ULT lives in the observed pool, anything else if the observed pool is one
\*  that a nested scheduler serves)
Primary(u, pool) == /\ st[u] = "none" /\ st' = [st EXCEPT ![u] = "running"]
              /\ mg' = [mg EXCEPT ![u].pool = pool]
              /\ UNCHANGED <<arg, tok, cst, starts, inYield, inpool, expect, rin>>
PrimaryDone(u) == /\ st[u] = "running" /\ st' = [st EXCEPT ![u] = "freed"]
              /\ UNCHANGED <<arg, tok, cst, starts, inYield, mg, inpool, expect, rin>>
\* the caller takes a ready unit out of the pool
Pop(by, t) == /\ ByOK(by) /\ Ready(t) /\ inpool[t]
              /\ inpool' = [inpool EXCEPT ![t] = FALSE]
              /\ UNCHANGED <<st, arg, tok, cst, starts, inYield, mg, expect, rin>>
\* what a primitive does to the caller u and the target t, and what t must see
Prim(u, op, t, a, pl) ==
    /\ st[u] = "running" /\ expect = NoExpect
    /\ CASE op \in {"yield_to", "thread_yield_to"} ->
               /\ Ready(t) /\ inpool[t] = (op = "thread_yield_to")
               /\ st' = [st EXCEPT ![u] = "ready"]
               /\ inpool' = [inpool EXCEPT ![u] = TRUE, ![t] = FALSE]
               /\ expect' = [next |-> t, of |-> u, ost |-> 0]
               /\ UNCHANGED <<arg, tok, starts>>
         [] op = "suspend_to" ->
               /\ Ready(t) /\ ~inpool[t]
               /\ st' = [st EXCEPT ![u] = "blocked"]
               /\ expect' = [next |-> t, of |-> u, ost |-> 2]
               /\ UNCHANGED <<arg, tok, starts, inpool>>
         [] op = "exit_to" ->
               /\ Ready(t) /\ ~inpool[t]
               /\ st' = [st EXCEPT ![u] = "done"] /\ tok' = [tok EXCEPT ![u] = arg[u]]
               /\ expect' = [next |-> t, of |-> u, ost |-> 3]
               /\ UNCHANGED <<arg, starts, inpool>>
         [] op = "resume_yield_to" ->
               /\ st[t] = "blocked"
               /\ st' = [st EXCEPT ![u] = "ready", ![t] = "resumable"]
               /\ inpool' = [inpool EXCEPT ![u] = TRUE]
               /\ expect' = [next |-> t, of |-> u, ost |-> 0]
               /\ UNCHANGED <<arg, tok, starts>>
         [] op = "resume_suspend_to" ->
               /\ st[t] = "blocked"
               /\ st' = [st EXCEPT ![u] = "blocked", ![t] = "resumable"]
               /\ expect' = [next |-> t, of |-> u, ost |-> 2]
               /\ UNCHANGED <<arg, tok, starts, inpool>>
         [] op = "resume_exit_to" ->
               /\ st[t] = "blocked"
               /\ st' = [st EXCEPT ![u] = "done", ![t] = "resumable"] /\ tok' = [tok EXCEPT ![u] = arg[u]]
               /\ expect' = [next |-> t, of |-> u, ost |-> 3]
               /\ UNCHANGED <<arg, starts, inpool>>
         [] op = "create_to" ->
               /\ st[t] = "none"
               /\ st' = [st EXCEPT ![u] = "ready", ![t] = "created"] /\ arg' = [arg EXCEPT ![t] = a]
               /\ inpool' = [inpool EXCEPT ![u] = TRUE]
               /\ expect' = [next |-> t, of |-> u, ost |-> 0]
               /\ UNCHANGED <<tok, starts>>
         [] op = "revive_to" ->
               /\ st[t] = "done"
               /\ st' = [st EXCEPT ![u] = "ready", ![t] = "created"] /\ arg' = [arg EXCEPT ![t] = a]
               /\ tok' = [tok EXCEPT ![t] = 0] /\ starts' = [starts EXCEPT ![t] = 0]
               /\ inpool' = [inpool EXCEPT ![u] = TRUE]
               /\ expect' = [next |-> t, of |-> u, ost |-> 0]
         [] op = "resume" ->
               /\ st[t] = "blocked"
               /\ st' = [st EXCEPT ![t] = "ready"] /\ inpool' = [inpool EXCEPT ![t] = TRUE]
               /\ UNCHANGED <<arg, tok, starts, expect>>
         [] op = "yield" ->
               /\ st' = [st EXCEPT ![u] = "ready"] /\ inpool' = [inpool EXCEPT ![u] = TRUE]
               /\ UNCHANGED <<arg, tok, starts, expect>>
         [] op = "suspend" ->
               /\ st' = [st EXCEPT ![u] = "blocked"]
               /\ UNCHANGED <<arg, tok, starts, inpool, expect, rin>>
    /\ (op \notin {"create_to", "revive_to"} => arg' = arg)
    /\ (op \notin {"exit_to", "resume_exit_to", "revive_to"} => tok' = tok)
    /\ (op # "revive_to" => starts' = starts)
    /\ mg' = IF op \in {"create_to", "revive_to"} THEN [mg EXCEPT ![t].pool = pl] ELSE mg
    /\ UNCHANGED <<cst, inYield, rin>>
\* u has control.  If a directed switch is pending, u must be the named target
\* and must see the caller in the documented state.  The pool's size and total
\* size it reads must match: size = units in the pool, total - size = blocked units.
Run(u, of, ost, size, total) ==
    /\ st[u] \in {"ready", "resumable", "running"}
    /\ IF expect # NoExpect THEN u = expect.next /\ of = expect.of /\ ost = expect.ost
                            ELSE of = -1
    /\ st' = [st EXCEPT ![u] = "running"] /\ inpool' = [inpool EXCEPT ![u] = FALSE]
    \* (a resume in progress on another stream may or may not have pushed / uncounted its unit yet)
    \* (the observed pool is pool 0, the one the stream's scheduler serves)
    /\ LET bs == Cardinality({v \in Units : inpool'[v] /\ v \notin rin /\ mg[v].pool = 0})
           bb == Cardinality({v \in Units : st'[v] = "blocked" /\ mg[v].pool = 0})
           k == Cardinality(rin)
       IN /\ size \in bs..(bs + k)
          /\ (total - size) \in bb..(bb + k)
    /\ expect' = NoExpect
    /\ UNCHANGED <<arg, tok, cst, starts, inYield, mg, rin>>

\* stream join / finalize return only after every covered unit has terminated
AllTerminated(us) == \A u \in us : Terminated(u)
NoOp == UNCHANGED hvars
=============================================================================
