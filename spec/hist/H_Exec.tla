------------------------------- MODULE H_Exec -------------------------------
(* Level A: what an observable history of work-unit execution may look like
   (C01 exactly-once execution, C03 join/free, C06 stream join / finalize and
   the blocked counter, C12 life cycle).

   status of a work unit (one incarnation at a time):
     none -> created -> running -> (blocked -> resumable -> running)* -> done -> freed
                                                                      done -> created   (revive)
   Every record is an observation made either by the unit itself (it must be
   running), or by a caller `by` (0 = primary ULT, -1 = external thread,
   k > 0 = unit k, which must be running).                                   *)
EXTENDS Naturals, Integers, FiniteSets, Sequences
CONSTANTS Units

VARIABLES st,     \* status
          arg,    \* argument given at creation / revival
          tok,    \* value the unit published before terminating (0 if it never finished normally)
          cst,    \* cancellation: 0 none, 1 requested, 2 request returned, 3 honoured
          starts, \* number of Start observations of the current incarnation
          inYield \* the unit announced a scheduling point and has not reported back
hvars == <<st, arg, tok, cst, starts, inYield>>

HInit == /\ st = [u \in Units |-> "none"] /\ arg = [u \in Units |-> 0] /\ tok = [u \in Units |-> 0]
         /\ cst = [u \in Units |-> 0] /\ starts = [u \in Units |-> 0] /\ inYield = [u \in Units |-> FALSE]

ByOK(by) == IF by <= 0 THEN TRUE ELSE st[by] = "running"
Terminated(u) == st[u] \in {"done", "freed"}

Create(by, u, a) == /\ ByOK(by) /\ st[u] = "none"
                    /\ st' = [st EXCEPT ![u] = "created"] /\ arg' = [arg EXCEPT ![u] = a]
                    /\ UNCHANGED <<tok, cst, starts, inYield>>
\* the function is invoked exactly once, with the argument it was given
Start(u, a, n) == /\ st[u] = "created" /\ a = arg[u] /\ n = 1
                  /\ st' = [st EXCEPT ![u] = "running"] /\ starts' = [starts EXCEPT ![u] = @ + 1]
                  /\ UNCHANGED <<arg, tok, cst, inYield>>
Finish(u) == /\ st[u] = "running"
             /\ st' = [st EXCEPT ![u] = "done"] /\ tok' = [tok EXCEPT ![u] = arg[u]]
             /\ UNCHANGED <<arg, cst, starts, inYield>>
\* a scheduling point: a unit whose cancellation request has returned stops here
Yield(u) == /\ st[u] = "running"
            /\ IF cst[u] = 2 THEN st' = [st EXCEPT ![u] = "done"] /\ cst' = [cst EXCEPT ![u] = 3]
                             ELSE UNCHANGED <<st, cst>>
            /\ inYield' = [inYield EXCEPT ![u] = TRUE]
            /\ UNCHANGED <<arg, tok, starts>>
Back(u) == /\ st[u] = "running" /\ inYield' = [inYield EXCEPT ![u] = FALSE]
           /\ UNCHANGED <<st, arg, tok, cst, starts>>
\* unobserved: a unit waiting at a scheduling point whose cancellation has been
\* requested is terminated instead of being run again
Honour(u) == /\ st[u] = "running" /\ inYield[u] /\ cst[u] \in {1, 2}
             /\ st' = [st EXCEPT ![u] = "done"] /\ cst' = [cst EXCEPT ![u] = 3]
             /\ UNCHANGED <<arg, tok, starts, inYield>>
Suspend(u) == /\ st[u] = "running" /\ st' = [st EXCEPT ![u] = "blocked"] /\ UNCHANGED <<arg, tok, cst, starts, inYield>>
\* a suspended unit runs again only after it is resumed, and once per resume;
\* if it was cancelled meanwhile it terminates instead of running
Resume(by, u) == /\ ByOK(by) /\ st[u] = "blocked"
                 /\ IF cst[u] = 2 THEN st' = [st EXCEPT ![u] = "done"] /\ cst' = [cst EXCEPT ![u] = 3]
                                  ELSE st' = [st EXCEPT ![u] = "resumable"] /\ UNCHANGED cst
                 /\ UNCHANGED <<arg, tok, starts, inYield>>
Resumed(u) == /\ st[u] = "resumable" /\ st' = [st EXCEPT ![u] = "running"] /\ UNCHANGED <<arg, tok, cst, starts, inYield>>
Cancel(by, u) == /\ ByOK(by) /\ cst[u] = 0 /\ ~Terminated(u) /\ st[u] # "none"
                 /\ cst' = [cst EXCEPT ![u] = 1] /\ UNCHANGED <<st, arg, tok, starts, inYield>>
CancelRet(by, u) == /\ cst[u] = 1 /\ cst' = [cst EXCEPT ![u] = 2] /\ UNCHANGED <<st, arg, tok, starts, inYield>>
\* join returns only after termination, sees TERMINATED and the target's writes
JoinRet(by, u, state, t) == /\ ByOK(by) /\ Terminated(u) /\ st[u] = "done" /\ state = 3 /\ t = tok[u]
                            /\ UNCHANGED hvars
FreeRet(by, u, isnull, t) == /\ ByOK(by) /\ st[u] = "done" /\ isnull = 1 /\ t = tok[u]
                             /\ st' = [st EXCEPT ![u] = "freed"] /\ UNCHANGED <<arg, tok, cst, starts, inYield>>
Revive(by, u, a) == /\ ByOK(by) /\ st[u] = "done"
                    /\ st' = [st EXCEPT ![u] = "created"] /\ arg' = [arg EXCEPT ![u] = a]
                    /\ tok' = [tok EXCEPT ![u] = 0] /\ cst' = [cst EXCEPT ![u] = 0]
                    /\ starts' = [starts EXCEPT ![u] = 0] /\ inYield' = [inYield EXCEPT ![u] = FALSE]
\* stream join / finalize return only after every covered unit has terminated
AllTerminated(us) == \A u \in us : Terminated(u)
NoOp == UNCHANGED hvars
=============================================================================
