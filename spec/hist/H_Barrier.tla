----------------------------- MODULE H_Barrier -----------------------------
(* Level A: ABT_barrier (C08).  Rounds are numbered by the callers.  A caller
   may return from round k only when N callers have entered round k, where N
   is the barrier's number of waiters at that time: the arrival of the N-th
   caller releases everybody who is inside the round.  The barrier may be
   reinitialised (and re-entered) while released callers are still leaving.  *)
EXTENDS Naturals, Integers, FiniteSets
CONSTANTS Threads, Rounds
VARIABLES n,         \* number of waiters of the barrier
          entered,   \* entered[k]: callers that have entered round k
          inside,    \* inside[t]: the round t is blocked in, or -1
          released   \* callers whose round is complete and who have not returned yet
hvars == <<n, entered, inside, released>>
HInit == n \in 1..Cardinality(Threads) /\ entered = [k \in Rounds |-> {}] /\ inside = [t \in Threads |-> -1] /\ released = {}
\* nobody may be BLOCKED on the barrier; callers that are already released may still be on their way out
Reinit(m) == /\ \A t \in Threads : inside[t] = -1 \/ t \in released
             /\ n' = m /\ UNCHANGED <<entered, inside, released>>
BarCall(t, k) == /\ inside[t] = -1 /\ t \notin entered[k]
                 /\ Cardinality(entered[k]) < n                  \* discipline: at most n callers per round
                 /\ entered' = [entered EXCEPT ![k] = @ \cup {t}]
                 /\ inside' = [inside EXCEPT ![t] = k]
                 /\ released' = (IF Cardinality(entered[k]) + 1 = n
                                 THEN released \cup {t} \cup {x \in Threads : inside[x] = k} ELSE released)
                 /\ UNCHANGED n
BarRet(t, k) == /\ inside[t] = k
                /\ t \in released                               \* nobody is released early
                /\ inside' = [inside EXCEPT ![t] = -1] /\ released' = released \ {t}
                /\ UNCHANGED <<n, entered>>
HNext == \/ \E t \in Threads, k \in Rounds : BarCall(t, k) \/ BarRet(t, k)
         \/ \E m \in 1..Cardinality(Threads) : Reinit(m)
HSpec == HInit /\ [][HNext]_hvars
\* once the last caller of a round has entered, every caller of that round may leave
ReleaseEnabled == \A t \in Threads : t \in released => ENABLED BarRet(t, inside[t])
\* released callers are inside a round; a complete round (under the current n) has released everybody in it
ReleasedOK == \A t \in released : inside[t] # -1
\* a caller blocked in a complete round is evidence of a lost release
StuckInCompleteRound == released # {}
=============================================================================
