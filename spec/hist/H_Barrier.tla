----------------------------- MODULE H_Barrier -----------------------------
(* Level A: ABT_barrier (C08).  Rounds are numbered by the callers.  A caller
   may return from round k only when N callers have entered round k, where N
   is the barrier's current number of waiters.                               *)
EXTENDS Naturals, Integers, FiniteSets
CONSTANTS Threads, Rounds
VARIABLES n,         \* number of waiters of the barrier
          entered,   \* entered[k]: callers that have entered round k
          inside     \* inside[t]: the round t is blocked in, or -1
hvars == <<n, entered, inside>>
HInit == n \in 1..Cardinality(Threads) /\ entered = [k \in Rounds |-> {}] /\ inside = [t \in Threads |-> -1]
Reinit(m) == /\ \A t \in Threads : inside[t] = -1
             /\ n' = m /\ UNCHANGED <<entered, inside>>
BarCall(t, k) == /\ inside[t] = -1 /\ t \notin entered[k]
                 /\ Cardinality(entered[k]) < n                  \* discipline: at most n callers per round
                 /\ entered' = [entered EXCEPT ![k] = @ \cup {t}]
                 /\ inside' = [inside EXCEPT ![t] = k]
                 /\ UNCHANGED n
BarRet(t, k) == /\ inside[t] = k
                /\ Cardinality(entered[k]) = n                   \* nobody is released early
                /\ inside' = [inside EXCEPT ![t] = -1]
                /\ UNCHANGED <<n, entered>>
HNext == \/ \E t \in Threads, k \in Rounds : BarCall(t, k) \/ BarRet(t, k)
         \/ \E m \in 1..Cardinality(Threads) : Reinit(m)
HSpec == HInit /\ [][HNext]_hvars
\* once the last caller of a round has entered, every caller of that round may leave
ReleaseEnabled == \A t \in Threads : inside[t] # -1 /\ Cardinality(entered[inside[t]]) = n => ENABLED BarRet(t, inside[t])
\* a caller blocked in a complete round is evidence of a lost release
StuckInCompleteRound == \E t \in Threads : inside[t] # -1 /\ Cardinality(entered[inside[t]]) = n
=============================================================================
