SPECIFICATION HSpec
CONSTANTS Units = {1}
  Args = {1,2}
  MigUnits = {1}
INVARIANTS OneStart Moved
PROPERTY FreedIsFinal
CHECK_DEADLOCK FALSE
