SPECIFICATION HSpec
CONSTANTS Threads = {1,2,3}
  Rounds = {0,1}
INVARIANT ReleaseEnabled
INVARIANT ReleasedOK
CHECK_DEADLOCK FALSE
