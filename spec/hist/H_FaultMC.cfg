SPECIFICATION HSpec
CONSTANTS Effs = {"p1","p0","up","upr","ran","nx","k2","pk","none"}
  KeptUL = 1
INVARIANT Conservation
PROPERTY FailAtomic
CONSTRAINT Bound
CHECK_DEADLOCK FALSE
