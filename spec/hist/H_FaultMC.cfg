SPECIFICATION HSpec
CONSTANTS Effs = {"p1","p0","up","upr","upk","p1f","ran","nx","k2","pk","upm","none"}
INVARIANT Conservation
PROPERTY FailAtomic
CONSTRAINT Bound
CHECK_DEADLOCK FALSE
