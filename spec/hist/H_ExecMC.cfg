SPECIFICATION HSpec
CONSTANTS Units = {1,2}
INVARIANT OneStart
PROPERTY FreedIsFinal
CHECK_DEADLOCK FALSE
