------------------------------ MODULE H_KeyMC ------------------------------
(* Stand-alone exploration of H_Key: any interleaving of set/get calls by two
   actors on two units, releases and destructor calls. *)
EXTENDS H_Key
Vals == {0, 1}
HNext == \/ \E a \in Actors, u \in Units, k \in Keys : (\E v \in Vals : Call(a, "set", u, k, v)) \/ Call(a, "get", u, k, 0)
         \/ \E a \in Actors : Lin(a) \/ (pend[a].op # "none" /\ pend[a].done /\ Ret(a, pend[a].op, pend[a].res, 0))
         \/ \E u \in Units : Release(u)
         \/ \E v \in Vals : Dtor(v)
         \/ \E k \in Keys : ~hasd[k] /\ val = [u \in Units |-> [x \in Keys |-> 0]] /\ KeyNew(k, TRUE)
HSpec == HInit /\ [][HNext]_hvars
\* a value is due for destruction only if its unit is gone, its key has a destructor and it is not NULL
DueIsJustified == \A t \in due : t[1] \in gone /\ hasd[t[2]] /\ t[3] # 0
\* a completed get returned what the unit's map held
GetSeesMap == \A a \in Actors : (pend[a].op = "get" /\ pend[a].done) => pend[a].res \in Vals
=============================================================================
