------------------------------ MODULE H_Mutex ------------------------------
(* Level A: ABT_mutex as a linearizable lock object (C04).
   Each call takes effect at one instant between Call and Ret:
     lock     acquires when the mutex is free (or re-entrantly when the caller
              owns a recursive mutex)
     try      succeeds iff the mutex is free at that instant (or the caller
              owns a recursive mutex); otherwise fails and changes nothing
     unlock   by the owner: depth-1; the mutex becomes free at depth 0
   Enter/Leave are observations made by the caller while it believes it holds
   the mutex: they are legal only if it abstractly does.                    *)
EXTENDS Naturals, Integers, FiniteSets
CONSTANTS Threads
VARIABLES holder,   \* 0 = free, else the owning caller
          depth,    \* recursion depth (1 when held once)
          rec,      \* TRUE for a recursive mutex
          pend      \* pend[t]: [op, done, res] or Idle
hvars == <<holder, depth, rec, pend>>
Idle == [op |-> "none"]
IsIdle(t) == pend[t].op = "none"
HInit == holder = 0 /\ depth = 0 /\ rec \in BOOLEAN /\ pend = [t \in Threads |-> Idle]

Call(t, op) == /\ IsIdle(t)
               /\ op \in {"lock", "try", "unlock"}
               /\ (op = "unlock" => holder = t)          \* discipline of the callers
               /\ (op = "lock" /\ ~rec => holder # t)
               /\ pend' = [pend EXCEPT ![t] = [op |-> op, done |-> FALSE, res |-> 0]]
               /\ UNCHANGED <<holder, depth, rec>>
Lin(t) == /\ ~IsIdle(t) /\ ~pend[t].done
          /\ CASE pend[t].op = "lock" ->
                    /\ (holder = 0 \/ (rec /\ holder = t))
                    /\ holder' = t /\ depth' = depth + 1
                    /\ pend' = [pend EXCEPT ![t].done = TRUE, ![t].res = 1]
               [] pend[t].op = "try" ->
                    IF holder = 0 \/ (rec /\ holder = t)
                    THEN /\ holder' = t /\ depth' = depth + 1
                         /\ pend' = [pend EXCEPT ![t].done = TRUE, ![t].res = 1]
                    ELSE /\ UNCHANGED <<holder, depth>>
                         /\ pend' = [pend EXCEPT ![t].done = TRUE, ![t].res = 0]
               [] pend[t].op = "unlock" ->
                    /\ holder = t
                    /\ depth' = depth - 1
                    /\ holder' = IF depth = 1 THEN 0 ELSE t
                    /\ pend' = [pend EXCEPT ![t].done = TRUE, ![t].res = 1]
          /\ UNCHANGED rec
Ret(t, r) == /\ ~IsIdle(t) /\ pend[t].done /\ pend[t].res = r
             /\ pend' = [pend EXCEPT ![t] = Idle]
             /\ UNCHANGED <<holder, depth, rec>>
\* n further acquisitions (n > 0) or releases (n < 0) by the owner of a recursive mutex
Nest(t, n) == /\ rec /\ holder = t /\ IsIdle(t) /\ depth + n >= 1
              /\ depth' = depth + n /\ UNCHANGED <<holder, rec, pend>>
\* an observation "I am inside" by t
Inside(t) == holder = t /\ IsIdle(t)

HNext == \E t \in Threads : (\E op \in {"lock", "try", "unlock"} : Call(t, op)) \/ Lin(t)
                            \/ (~IsIdle(t) /\ pend[t].done /\ Ret(t, pend[t].res))
HSpec == HInit /\ [][HNext]_hvars
\* the safety property of the abstract object itself
OneHolder == (holder = 0) <=> (depth = 0)
DepthOK == ~rec => depth <= 1
DepthBound == depth <= 3
\* a pending lock whose mutex is free can take effect (used for the progress verdict)
EnabledPending == \E t \in Threads : ~IsIdle(t) /\ ~pend[t].done /\ pend[t].op = "lock" /\ holder = 0
=============================================================================
