------------------------------ MODULE H_RWLock ------------------------------
(* Level A: ABT_rwlock as a linearizable object (C10).
     rd   takes effect only when no writer holds the lock
     wr   takes effect only when nobody holds the lock
     un   by a holder: gives up its hold                                  *)
EXTENDS Naturals, FiniteSets
CONSTANTS Threads
VARIABLES readers, writer, pend
hvars == <<readers, writer, pend>>
Idle == [op |-> "none"]
IsIdle(t) == pend[t].op = "none"
HInit == readers = {} /\ writer = 0 /\ pend = [t \in Threads |-> Idle]
Holds(t) == t \in readers \/ writer = t
Call(t, op) == /\ IsIdle(t) /\ op \in {"rd", "wr", "un"}
               /\ (op = "un" <=> Holds(t))                        \* discipline of the callers
               /\ pend' = [pend EXCEPT ![t] = [op |-> op, done |-> FALSE]]
               /\ UNCHANGED <<readers, writer>>
Lin(t) == /\ ~IsIdle(t) /\ ~pend[t].done
          /\ CASE pend[t].op = "rd" -> writer = 0 /\ readers' = readers \cup {t} /\ UNCHANGED writer
               [] pend[t].op = "wr" -> writer = 0 /\ readers = {} /\ writer' = t /\ UNCHANGED readers
               [] pend[t].op = "un" -> IF writer = t THEN writer' = 0 /\ UNCHANGED readers
                                       ELSE readers' = readers \ {t} /\ UNCHANGED writer
          /\ pend' = [pend EXCEPT ![t].done = TRUE]
Ret(t) == /\ ~IsIdle(t) /\ pend[t].done
          /\ pend' = [pend EXCEPT ![t] = Idle] /\ UNCHANGED <<readers, writer>>
HNext == \E t \in Threads : (\E op \in {"rd", "wr", "un"} : Call(t, op)) \/ Lin(t) \/ Ret(t)
HSpec == HInit /\ [][HNext]_hvars
WriterExclusive == writer # 0 => readers = {}
\* progress verdict: a pending request that the abstract lock would grant
EnabledPending == \E t \in Threads : ~IsIdle(t) /\ ~pend[t].done /\
                     (pend[t].op = "rd" => writer = 0) /\ (pend[t].op = "wr" => writer = 0 /\ readers = {})
=============================================================================
