------------------------------ MODULE H_Queue ------------------------------
(* Level A: the observable behaviour of one built-in pool (C07).
   A pool is an atomic queue (FIFO / FIFO_WAIT) or a double-ended queue
   (RANDWS: the push end is chosen by the "hd" flag of the push, the pop end
   by the "tl" flag of the pop).  Every API call takes effect atomically at
   one instant (Lin) between its Call and its Ret:
     push us      appends (or prepends, one by one) the units
     pop k        removes min(k, Len(q)) units from the chosen end; it may
                  return nothing only if the queue is empty at that instant
     remove u     succeeds iff u is in the queue at that instant
   This module is written over an abstract event alphabet so that it is both
   model-checkable on its own (Next, below) and usable as the acceptor of
   recorded histories (H_QueueTrace).                                        *)
EXTENDS Naturals, Sequences, FiniteSets, SequencesExt

CONSTANTS Threads, Units

VARIABLES q,      \* the abstract queue, head first
          pend,   \* pend[t]: the call thread t is executing, or Idle
          deque   \* TRUE for RANDWS

hvars == <<q, pend, deque>>

Idle == [op |-> "none"]
IsIdle(t) == pend[t].op = "none"

HInit == q = <<>> /\ pend = [t \in Threads |-> Idle] /\ deque \in BOOLEAN

RECURSIVE PushAll(_, _, _)
PushAll(s, us, hd) ==
    IF us = <<>> THEN s
    ELSE PushAll(IF hd THEN <<Head(us)>> \o s ELSE Append(s, Head(us)), Tail(us), hd)

\* result of popping up to k units from the chosen end: <<units popped in order, rest>>
RECURSIVE PopK(_, _, _, _)
PopK(s, k, tl, acc) ==
    IF k = 0 \/ s = <<>> THEN <<acc, s>>
    ELSE IF tl THEN PopK(SubSeq(s, 1, Len(s) - 1), k - 1, tl, Append(acc, s[Len(s)]))
         ELSE PopK(Tail(s), k - 1, tl, Append(acc, Head(s)))

InQ(u) == \E i \in 1..Len(q) : q[i] = u
RemoveU(s, u) == SelectSeq(s, LAMBDA x : x # u)

CallPush(t, us, hd) ==
    /\ IsIdle(t)
    /\ \A i \in 1..Len(us) : ~InQ(us[i])            \* a unit is pushed only by its owner
    /\ pend' = [pend EXCEPT ![t] = [op |-> "push", us |-> us, hd |-> hd /\ deque, done |-> FALSE, res |-> <<>>]]
    /\ UNCHANGED <<q, deque>>
\* long = a blocking pop whose time-out is far beyond the end of the scenario
CallPopL(t, k, tl, long) ==
    /\ IsIdle(t)
    /\ pend' = [pend EXCEPT ![t] = [op |-> "pop", k |-> k, tl |-> tl /\ deque, long |-> long, done |-> FALSE, res |-> <<>>]]
    /\ UNCHANGED <<q, deque>>
CallPop(t, k, tl) ==
    /\ IsIdle(t)
    /\ pend' = [pend EXCEPT ![t] = [op |-> "pop", k |-> k, tl |-> tl /\ deque, long |-> FALSE, done |-> FALSE, res |-> <<>>]]
    /\ UNCHANGED <<q, deque>>
CallRemove(t, u) ==
    /\ IsIdle(t)
    /\ pend' = [pend EXCEPT ![t] = [op |-> "remove", u |-> u, done |-> FALSE, res |-> <<>>]]
    /\ UNCHANGED <<q, deque>>

Lin(t) ==
    /\ ~IsIdle(t) /\ ~pend[t].done
    /\ CASE pend[t].op = "push" ->
              /\ q' = PushAll(q, pend[t].us, pend[t].hd)
              /\ pend' = [pend EXCEPT ![t].done = TRUE]
         [] pend[t].op = "pop" ->
              LET r == PopK(q, pend[t].k, pend[t].tl, <<>>) IN
              /\ (pend[t].long => q # <<>>)       \* a blocking pop waits for a unit (C19)
              /\ q' = r[2]
              /\ pend' = [pend EXCEPT ![t].done = TRUE, ![t].res = r[1]]
         [] pend[t].op = "remove" ->
              IF InQ(pend[t].u)
              THEN /\ q' = RemoveU(q, pend[t].u)
                   /\ pend' = [pend EXCEPT ![t].done = TRUE, ![t].res = <<1>>]
              ELSE /\ q' = q
                   /\ pend' = [pend EXCEPT ![t].done = TRUE, ![t].res = <<0>>]
    /\ UNCHANGED deque

Ret(t, res) ==
    /\ ~IsIdle(t) /\ pend[t].done
    /\ pend[t].res = res
    /\ pend' = [pend EXCEPT ![t] = Idle]
    /\ UNCHANGED <<q, deque>>

\* ---- stand-alone model (used by TLC to check the abstract object itself)
SeqsUpTo(S, n) == UNION {[1..m -> S] : m \in 1..n}
Distinct(s) == \A i, j \in 1..Len(s) : i # j => s[i] # s[j]
HNext ==
    \E t \in Threads :
       \/ \E us \in SeqsUpTo(Units, 2), hd \in BOOLEAN : Distinct(us) /\ CallPush(t, us, hd)
                 /\ \A t2 \in Threads : pend[t2].op = "push" =>
                        \A i \in 1..Len(us), j \in 1..Len(pend[t2].us) : us[i] # pend[t2].us[j]
       \/ \E k \in 1..2, tl \in BOOLEAN : CallPop(t, k, tl)
       \/ Lin(t)
       \/ (~IsIdle(t) /\ pend[t].done /\ Ret(t, pend[t].res))
HSpec == HInit /\ [][HNext]_hvars

\* ---- the most general client: any call with any argument (refinement target of PoolQueue)
HNextAny ==
    \E t \in Threads :
       \/ \E us \in SeqsUpTo(Units, 2), hd \in BOOLEAN : Distinct(us) /\ CallPush(t, us, hd)
       \/ \E k \in 1..3, tl \in BOOLEAN : CallPop(t, k, tl)
       \/ \E u \in Units : CallRemove(t, u)
       \/ Lin(t)
       \/ (~IsIdle(t) /\ pend[t].done /\ Ret(t, pend[t].res))
HSpecAny == HInit /\ [][HNextAny]_hvars

\* ---- properties of the abstract object
NoDuplicates == Distinct(q)
Quiescent == \A t \in Threads : IsIdle(t)
=============================================================================
