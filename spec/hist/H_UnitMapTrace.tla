--------------------------- MODULE H_UnitMapTrace ---------------------------
EXTENDS H_UnitMap, TLC, Json, IOUtils, Sequences
TraceLog == ndJsonDeserialize(IOEnv.TRACE)
VARIABLES l, made
tvars == <<live, queued, begun, finished, l, made>>
Ev == TraceLog[l]
More == l <= Len(TraceLog)
Is(e) == More /\ Ev.e = e /\ l' = l + 1
TInit == HInit /\ l = 1 /\ made = {}
TNext ==
    \/ (Is("Reset") /\ live' = <<>> /\ queued' = {} /\ begun' = {} /\ finished' = {} /\ made' = {})
    \/ (Is("UPools") /\ UNCHANGED <<hvars, made>>)
    \/ (Is("UCreate") /\ Ev.u > 0 /\ Create(Ev.p, Ev.u, Ev.t) /\ UNCHANGED made)
    \/ (Is("UCreateFail") /\ UNCHANGED <<hvars, made>>)
    \/ (Is("UFree") /\ Ev.okpool = 1 /\ Ev.queued = 0 /\ Free(Ev.p, Ev.u) /\ UNCHANGED made)
    \/ (Is("UPush") /\ Push(Ev.p, Ev.u) /\ UNCHANGED made)
    \/ (Is("UPop") /\ Pop(Ev.p, Ev.u) /\ UNCHANGED made)
    \* creation of a work unit: on success it exists (with a unit iff its pool is user-defined), on failure no handle and no unit
    \/ (Is("UNew") /\ Ev.ret = 0 /\ Ev.hnull = 0 /\ Ev.t \notin made /\ made' = made \cup {Ev.t} /\ UNCHANGED hvars)
    \/ (Is("UNew") /\ Ev.ret = 1 /\ Ev.hnull = 1 /\ Ev.t \notin made /\ UnitsOf(Ev.t) = {} /\ UNCHANGED <<hvars, made>>)
    \/ (Is("Look") /\ Look(Ev.t, Ev.u, Ev.back) /\ UNCHANGED made)
    \/ (Is("Assoc") /\ Ev.ret = 0 /\ Assoc(Ev.t, Ev.p, Ev.user = 1) /\ UNCHANGED made)
    \/ (Is("Assoc") /\ Ev.ret = 1 /\ AssocFail(Ev.t) /\ UNCHANGED made)
    \/ (Is("UMigReq") /\ UNCHANGED <<hvars, made>>)
    \* the migration callback runs after the association changed: the unit it sees is the work unit's only unit
    \/ (Is("MigCb") /\ Ev.u >= 0 /\ (IF Ev.u = 0 THEN UnitsOf(Ev.t) = {} ELSE UnitsOf(Ev.t) = {Ev.u} /\ live[Ev.u].p = Ev.p) /\ UNCHANGED <<hvars, made>>)
    \/ (Is("SMove") /\ UNCHANGED <<hvars, made>>)
    \/ (Is("Begin") /\ Begin(Ev.t) /\ UNCHANGED made)
    \/ (Is("Finish") /\ Finish(Ev.t) /\ UNCHANGED made)
    \/ (Is("UFreed") /\ Freed(Ev.t) /\ UNCHANGED made)
    \* after ABT_finalize: the units of unnamed owners (primary ULT) are gone too
    \/ (Is("UEnd") /\ AllReleased /\ made = begun /\ UNCHANGED <<hvars, made>>)
    \/ (Is("End") /\ UNCHANGED <<hvars, made>>)
TSpec == TInit /\ [][TNext]_tvars
NotAccepted == l <= Len(TraceLog)
TrackMax == TLCSet(1, IF TLCGet(1) < l THEN l ELSE TLCGet(1))
ASSUME TLCSet(1, 0)
Post == PrintT(<<"MAXL", TLCGet(1)>>)
=============================================================================
