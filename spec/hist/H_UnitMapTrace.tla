--------------------------- MODULE H_UnitMapTrace ---------------------------
EXTENDS H_UnitMap, TLC, Json, IOUtils, Sequences
TraceLog == ndJsonDeserialize(IOEnv.TRACE)
VARIABLES l, made, migtgt
tvars == <<live, queued, begun, finished, l, made, migtgt>>
Ev == TraceLog[l]
More == l <= Len(TraceLog)
Is(e) == More /\ Ev.e = e /\ l' = l + 1
NoTgt == 99
TInit == HInit /\ l = 1 /\ made = {} /\ migtgt = [t \in WUnits |-> NoTgt]
TNext ==
    \/ (Is("Reset") /\ live' = <<>> /\ queued' = {} /\ begun' = {} /\ finished' = {} /\ made' = {} /\ migtgt' = [t \in WUnits |-> NoTgt])
    \/ (Is("UPools") /\ UNCHANGED <<hvars, made>> /\ UNCHANGED migtgt)
    \/ (Is("UCreate") /\ Ev.u > 0 /\ Create(Ev.p, Ev.u, Ev.t) /\ UNCHANGED made /\ UNCHANGED migtgt)
    \/ (Is("UCreateFail") /\ UNCHANGED <<hvars, made>> /\ UNCHANGED migtgt)
    \/ (Is("UFree") /\ Ev.okpool = 1 /\ Ev.queued = 0 /\ Free(Ev.p, Ev.u) /\ UNCHANGED made /\ UNCHANGED migtgt)
    \/ (Is("UPush") /\ Push(Ev.p, Ev.u) /\ UNCHANGED made /\ UNCHANGED migtgt)
    \/ (Is("UPop") /\ Pop(Ev.p, Ev.u) /\ UNCHANGED made /\ UNCHANGED migtgt)
    \* remove(): the unit must be one of this pool and inside it
    \/ (Is("URemove") /\ Ev.found = 1 /\ Pop(Ev.p, Ev.u) /\ UNCHANGED made /\ UNCHANGED migtgt)
    \* creation of a work unit: on success it exists (with a unit iff its pool is user-defined), on failure no handle and no unit
    \/ (Is("UNew") /\ Ev.ret = 0 /\ Ev.hnull = 0 /\ Ev.t \notin made /\ made' = made \cup {Ev.t} /\ UNCHANGED hvars /\ UNCHANGED migtgt)
    \/ (Is("UNew") /\ Ev.ret = 1 /\ Ev.hnull = 1 /\ Ev.t \notin made /\ UnitsOf(Ev.t) = {} /\ UNCHANGED <<hvars, made>> /\ UNCHANGED migtgt)
    \/ (Is("Look") /\ Look(Ev.t, Ev.u, Ev.back) /\ UNCHANGED made /\ UNCHANGED migtgt)
    \/ (Is("Assoc") /\ Ev.ret = 0 /\ Assoc(Ev.t, Ev.p, Ev.user = 1) /\ UNCHANGED made /\ UNCHANGED migtgt)
    \/ (Is("Assoc") /\ Ev.ret = 1 /\ AssocFail(Ev.t) /\ UNCHANGED made /\ UNCHANGED migtgt)
    \* an accepted request names the pool the unit must be moved to; one request at a time per unit
    \/ (Is("UMigReq") /\ (IF Ev.ret = 0 THEN migtgt[Ev.t] = NoTgt /\ migtgt' = [migtgt EXCEPT ![Ev.t] = Ev.p] ELSE UNCHANGED migtgt)
        /\ UNCHANGED <<hvars, made>>)
    \* the migration callback runs after the association changed: the unit it sees is the work unit's only unit
    \*  -- and it is in the requested pool; the callback runs once per accepted request
    \/ (Is("MigCb") /\ Ev.u >= 0 /\ migtgt[Ev.t] # NoTgt
        /\ (IF Ev.u = 0 THEN UnitsOf(Ev.t) = {} /\ Ev.tgtuser = 0
                        ELSE UnitsOf(Ev.t) = {Ev.u} /\ live[Ev.u].p = Ev.p /\ Ev.p = migtgt[Ev.t])
        /\ migtgt' = [migtgt EXCEPT ![Ev.t] = NoTgt] /\ UNCHANGED <<hvars, made>>)
    \/ (Is("SMove") /\ UNCHANGED <<hvars, made>> /\ UNCHANGED migtgt)
    \* migration requests for the ULT of a main scheduler are rejected (invalid work unit)
    \/ (Is("SchedMig") /\ Ev.r1 = 1 /\ Ev.r2 = 1 /\ UNCHANGED <<hvars, made>> /\ UNCHANGED migtgt)
    \/ (Is("UReviveCall") /\ ReviveCall(Ev.t) /\ UNCHANGED made /\ UNCHANGED migtgt)
    \/ (Is("URevive") /\ ReviveRet(Ev.t, Ev.ret = 0) /\ UNCHANGED made /\ UNCHANGED migtgt)
    \/ (Is("Begin") /\ Begin(Ev.t) /\ UNCHANGED made /\ UNCHANGED migtgt)
    \/ (Is("Finish") /\ Finish(Ev.t) /\ UNCHANGED made /\ UNCHANGED migtgt)
    \/ (Is("UFreed") /\ Freed(Ev.t) /\ UNCHANGED made /\ UNCHANGED migtgt)
    \* after ABT_finalize: the units of unnamed owners (primary ULT) are gone too
    \/ (Is("UEnd") /\ AllReleased /\ made = begun /\ UNCHANGED <<hvars, made>> /\ UNCHANGED migtgt)
    \/ (Is("End") /\ UNCHANGED <<hvars, made>> /\ UNCHANGED migtgt)
TSpec == TInit /\ [][TNext]_tvars
NotAccepted == l <= Len(TraceLog)
TrackMax == TLCSet(1, IF TLCGet(1) < l THEN l ELSE TLCGet(1))
ASSUME TLCSet(1, 0)
Post == PrintT(<<"MAXL", TLCGet(1)>>)
=============================================================================
