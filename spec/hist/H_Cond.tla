------------------------------- MODULE H_Cond -------------------------------
(* Level A: ABT_cond with its mutex (C05, C19).  Observations are made by the
   callers while they hold the mutex, so they are totally ordered:
     Acq(t) / Rel(t)        t holds / gives up the mutex (lock returned / about to unlock)
     WaitCall(t, timed, dl) t, holding the mutex, enters wait: atomically
                            releases the mutex and joins the waiters
     Signal(t) / Bcast(t)   issued by t, normally while holding the mutex
     WaitRet(t, ok, now)    t returned from wait: holds the mutex again
   Internal steps: a signal picks one current waiter (any: the property does
   not fix the order), a broadcast all; a timed waiter whose deadline passed
   may leave by time-out.  A waiter returns SUCCESS only if it was picked, and
   TIMEDOUT only if it left by time-out (never after having been picked).   *)
EXTENDS Naturals, Integers, FiniteSets
CONSTANTS Threads
VARIABLES holder,    \* 0 or the caller holding the mutex
          waiting,   \* callers inside wait that have been neither picked nor timed out
          woken,     \* picked by a signal/broadcast, not yet returned
          expired,   \* left by time-out, not yet returned
          dl         \* dl[t]: deadline of a timed waiter (relative microseconds), -1 if untimed
hvars == <<holder, waiting, woken, expired, dl>>
NoDl == -999999
HInit == holder = 0 /\ waiting = {} /\ woken = {} /\ expired = {} /\ dl = [t \in Threads |-> NoDl]
InWait(t) == t \in waiting \cup woken \cup expired

Acq(t) == holder = 0 /\ ~InWait(t) /\ holder' = t /\ UNCHANGED <<waiting, woken, expired, dl>>
Rel(t) == holder = t /\ holder' = 0 /\ UNCHANGED <<waiting, woken, expired, dl>>
WaitCall(t, timed, d) ==
    /\ holder = t /\ holder' = 0
    /\ waiting' = waiting \cup {t}
    /\ dl' = [dl EXCEPT ![t] = IF timed THEN d ELSE NoDl]
    /\ UNCHANGED <<woken, expired>>
\* locked = the caller holds the mutex (the usual discipline); a signal may also be sent without it
Signal(t, locked) ==
    /\ (locked => holder = t)
    /\ IF waiting = {} THEN UNCHANGED <<waiting, woken>>
       ELSE \E w \in waiting : waiting' = waiting \ {w} /\ woken' = woken \cup {w}
    /\ UNCHANGED <<holder, expired, dl>>
Bcast(t, locked) ==
    /\ (locked => holder = t)
    /\ woken' = woken \cup waiting /\ waiting' = {}
    /\ UNCHANGED <<holder, expired, dl>>
\* internal: time-out of a timed waiter; "now" is only known at its return, so
\* the deadline test is made there
Expire(t) == /\ t \in waiting /\ dl[t] # NoDl
             /\ waiting' = waiting \ {t} /\ expired' = expired \cup {t}
             /\ UNCHANGED <<holder, woken, dl>>
WaitRet(t, ok, now) ==
    /\ holder = 0 /\ holder' = t                       \* returns holding the mutex
    /\ IF ok THEN t \in woken /\ woken' = woken \ {t} /\ UNCHANGED expired
             ELSE t \in expired /\ now >= dl[t] /\ expired' = expired \ {t} /\ UNCHANGED woken
    /\ UNCHANGED <<waiting, dl>>

HNext == \E t \in Threads :
           \/ Acq(t) \/ Rel(t) \/ (\E lk \in BOOLEAN : Signal(t, lk) \/ Bcast(t, lk)) \/ Expire(t)
           \/ \E timed \in BOOLEAN, d \in 0..2 : WaitCall(t, timed, d)
           \/ \E ok \in BOOLEAN, now \in 0..3 : WaitRet(t, ok, now)
HSpec == HInit /\ [][HNext]_hvars
Disjoint == waiting \cap woken = {} /\ waiting \cap expired = {} /\ woken \cap expired = {}
HolderNotWaiting == holder # 0 => ~InWait(holder)
=============================================================================
