--------------------------- MODULE H_RWLockTrace ---------------------------
EXTENDS H_RWLock, Sequences, TLC, Json, IOUtils
TraceLog == ndJsonDeserialize(IOEnv.TRACE)
VARIABLE l
tvars == <<readers, writer, pend, l>>
Ev == TraceLog[l]
More == l <= Len(TraceLog)
Consume == l' = l + 1
TInit == HInit /\ l = 1
TReset == More /\ Ev.e = "Reset" /\ Consume /\ readers' = {} /\ writer' = 0 /\ pend' = [t \in Threads |-> Idle]
TSkip == More /\ Ev.e \in {"RWLock", "RWNest"} /\ Consume /\ UNCHANGED hvars
\* a rejected call (tasklet caller) reports the documented error and has no effect
TReject == More /\ Ev.e = "RWReject" /\ Consume /\ Ev.ret = 1 /\ UNCHANGED hvars
TCall == More /\ Ev.e = "RWCall" /\ Consume /\ Call(Ev.t, Ev.op)
TRet == More /\ Ev.e = "RWRet" /\ Consume /\ pend[Ev.t].op = Ev.op /\ Ret(Ev.t)
TEnd == More /\ Ev.e = "End" /\ Consume
        /\ (Ev.why = "done" => readers = {} /\ writer = 0 /\ \A t \in Threads : IsIdle(t))
        /\ UNCHANGED hvars
TLin == More /\ Ev.e = "RWRet" /\ ~pend[Ev.t].done /\ UNCHANGED l /\ \E t \in Threads : Lin(t)
TNext == TReset \/ TSkip \/ TReject \/ TCall \/ TRet \/ TEnd \/ TLin
TSpec == TInit /\ [][TNext]_tvars
NotAccepted == l <= Len(TraceLog)
TrackMax == TLCSet(1, IF TLCGet(1) < l THEN l ELSE TLCGet(1))
ASSUME TLCSet(1, 0)
Post == PrintT(<<"MAXL", TLCGet(1)>>)
=============================================================================
