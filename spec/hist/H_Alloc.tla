------------------------------- MODULE H_Alloc -------------------------------
(* Level A: stacks and allocation balance (C15).  Observations of one run:
     Stack(u, ...)   where unit u's stack is (addresses as ranks in the sorted
                     set of all range end points), what was requested, what the
                     unit sees
     StackEnd(u,...) the unit touched all of its stack and found it intact; the
                     guard words around a user-supplied stack are intact
     Ledger          allocation ledger after ABT_finalize
   Rules: every live unit has its own stack (ranges pairwise disjoint), at
   least as large as requested, entered with a 16-byte aligned stack pointer,
   a user-supplied stack is used exactly where it was given; every block
   obtained from the system allocator is returned exactly once (nothing live
   after finalize, no free of an unknown pointer).                            *)
EXTENDS Naturals, Integers, FiniteSets
CONSTANTS Units
VARIABLES rng,       \* rng[u] = <<rlo, rhi>> of the live units, <<-1, -1>> if unknown
          held       \* memory-pool blocks currently handed out: held[h] = owner
hvars == <<rng, held>>
None == <<-1, -1>>
HInit == rng = [u \in Units |-> None] /\ held = <<>>
Disjoint(a, b) == a[2] <= b[1] \/ b[2] <= a[1]
Stack(u, req, size, rep, rlo, rhi, sp16, inr, userlo) ==
    /\ rng[u] = None
    /\ size >= req /\ rep >= req          \* at least the requested size, and reported as such
    /\ rlo < rhi
    /\ sp16 = 0                           \* ABI: 16-byte aligned stack at entry
    /\ inr = 1                            \* the unit really runs on that stack
    /\ userlo = 1                         \* a user-supplied stack is used where it was given
    /\ \A v \in Units : rng[v] # None => Disjoint(<<rlo, rhi>>, rng[v])
    /\ rng' = [rng EXCEPT ![u] = <<rlo, rhi>>] /\ UNCHANGED held
StackEnd(u, touched, guard, done) ==
    /\ rng[u] # None /\ touched = 1 /\ guard = 1 /\ done = 1
    /\ rng' = [rng EXCEPT ![u] = None] /\ UNCHANGED held
\* the descriptor of an allocated tasklet: a block of its own, 8-byte aligned, disjoint from every live stack and descriptor
Desc(u, rlo, rhi, al) ==
    /\ rng[u] = None /\ rlo < rhi /\ al = 0
    /\ \A v \in Units : rng[v] # None => Disjoint(<<rlo, rhi>>, rng[v])
    /\ rng' = [rng EXCEPT ![u] = <<rlo, rhi>>] /\ UNCHANGED held
DescEnd(u, ran) == rng[u] # None /\ ran = 1 /\ rng' = [rng EXCEPT ![u] = None] /\ UNCHANGED held
\* summary of a burst of create/free pairs: no descriptor was handed out while it was still in use
Churn(dup) == dup = 0 /\ UNCHANGED hvars
Ledger(live, errors) == live = 0 /\ errors = 0 /\ UNCHANGED hvars
\* a block is handed out to one owner at a time, cache-line aligned, and comes back intact from its owner
PAlloc(t, h, al) == /\ h \notin DOMAIN held /\ al = 0
                    /\ held' = [x \in DOMAIN held \cup {h} |-> IF x = h THEN t ELSE held[x]] /\ UNCHANGED rng
\* a block in use changes hands (it will be given back by somebody else)
PMove(t, h, to) == /\ h \in DOMAIN held /\ held[h] = t /\ held' = [held EXCEPT ![h] = to] /\ UNCHANGED rng
PFree(t, h, intact) == /\ h \in DOMAIN held /\ held[h] = t /\ intact = 1
                       /\ held' = [x \in DOMAIN held \ {h} |-> held[x]] /\ UNCHANGED rng
=============================================================================
