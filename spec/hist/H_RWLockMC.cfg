SPECIFICATION HSpec
CONSTANTS Threads = {1,2,3}
INVARIANT WriterExclusive
CHECK_DEADLOCK FALSE
