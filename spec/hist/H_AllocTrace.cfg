SPECIFICATION TSpec
CONSTANTS Units = {1,2,3,4,5,6,7,8,9,10}
INVARIANT NotAccepted
CONSTRAINT TrackMax
POSTCONDITION Post
CHECK_DEADLOCK FALSE
