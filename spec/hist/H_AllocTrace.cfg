SPECIFICATION TSpec
CONSTANTS Units = {1,2,3,4,5,6,7,8,9,10,101,102,103,104,105,106,107,108,109,110,111,112}
INVARIANT NotAccepted
CONSTRAINT TrackMax
POSTCONDITION Post
CHECK_DEADLOCK FALSE
