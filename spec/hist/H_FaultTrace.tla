---------------------------- MODULE H_FaultTrace ----------------------------
EXTENDS H_Fault, TLC, Json, IOUtils, Sequences
TraceLog == ndJsonDeserialize(IOEnv.TRACE)
VARIABLES l, ph, want
\* ph: "down" | "up" (initialised, base snapshot pending) | "base" | "called" (snapshot pending) | "idle" | "settled"
tvars == <<up, obs, created, must, keep, l, ph, want>>
Ev == TraceLog[l]
More == l <= Len(TraceLog)
Is(e) == More /\ Ev.e = e /\ l' = l + 1
SnapOf(r) == [nx |-> r.nx, s0 |-> r.s0, s1 |-> r.s1, s2 |-> r.s2, su |-> r.su, ul |-> r.ul, ran |-> r.ran, kv |-> r.kv, k2 |-> r.k2,
              pk |-> r.pk, pre |-> r.pre, mx |-> r.mx, prim |-> r.prim]
TInit == HInit /\ l = 1 /\ ph = "down" /\ want = Zero
TNext ==
    \/ (Is("Reset") /\ up' = FALSE /\ obs' = Zero /\ created' = 0 /\ must' = FALSE /\ keep' = 0 /\ ph' = "down" /\ want' = Zero)
    \/ (Is("FaultRun") /\ UNCHANGED <<hvars, ph, want>>)
    \* ABT_init: succeeds, or fails only because a request failed, leaving nothing behind and the runtime uninitialised
    \/ (Is("Init") /\ ph = "down" /\ Ev.ret = 0 /\ Ev.inited = 1 /\ InitOk /\ ph' = "up" /\ UNCHANGED want)
    \/ (Is("Init") /\ ph = "down" /\ Ev.ret = 1 /\ Ev.fired = 1 /\ Ev.k > 0 /\ Ev.leak = 0 /\ Ev.inited = 0 /\ InitFail /\ UNCHANGED <<ph, want>>)
    \* the pre-existing objects as the API shows them
    \/ (Is("Snap") /\ Ev.tag = "base" /\ ph = "up" /\ Ev.kv = 77 /\ Ev.mx = 1 /\ Ev.prim = 1 /\ Ev.pre = 2 /\ Ev.ran = 0
        /\ Setup(SnapOf(Ev)) /\ ph' = "base" /\ UNCHANGED want)
    \* the routine under fault
    \/ (Is("Op") /\ ph \in {"base", "idle"} /\ Ev.ret = 0 /\ Ev.h \in {"new", "na"} /\ CallOk(Ev.eff)
        /\ want' = Effect(Ev.eff, obs) /\ ph' = "called")
    \/ (Is("Op") /\ ph = "base" /\ Ev.ret = 1 /\ Ev.fired = 1 /\ Ev.k > 0 /\ Ev.h \in {"null", "same", "na"}
        /\ (Ev.warm = 1 => Ev.leak = 0) /\ Ev.leak >= 0
        \* a pool the caller passed in reports as many schedulers as before (the reference taken was given back)
        /\ ("nsb" \in DOMAIN Ev => Ev.nsa = Ev.nsb)
        /\ CallFail(Ev.eff) /\ want' = obs /\ ph' = "called")
    \* what the API shows after the call is what the specification predicts
    \/ (Is("Snap") /\ Ev.tag \in {"after", "retry"} /\ ph = "called" /\ SnapOf(Ev) = want /\ UNCHANGED <<hvars, want>> /\ ph' = "idle")
    \/ (Is("Undo") /\ ph = "idle" /\ Undo(Ev.eff) /\ UNCHANGED <<ph, want>>)
    \* follow-up workload
    \/ (Is("Snap") /\ Ev.tag = "settled" /\ ph \in {"base", "idle"} /\ Settle /\ SnapOf(Ev) = obs' /\ ph' = "settled" /\ UNCHANGED want)
    \/ (Is("Final") /\ ph = "settled" /\ Ev.live = 0 /\ Ev.errors = 0 /\ Ev.ul = 0 /\ Finalize /\ ph' = "down" /\ UNCHANGED want)
    \/ (Is("End") /\ (Ev.why = "done" => ph = "down" /\ ~must) /\ UNCHANGED <<hvars, ph, want>>)
TSpec == TInit /\ [][TNext]_tvars
NotAccepted == l <= Len(TraceLog)
TrackMax == TLCSet(1, IF TLCGet(1) < l THEN l ELSE TLCGet(1))
ASSUME TLCSet(1, 0)
Post == PrintT(<<"MAXL", TLCGet(1)>>)
=============================================================================
