------------------------------- MODULE H_Key -------------------------------
(* Level A: work-unit-local storage (C16).  Each work unit owns a map from
   keys to values (0 = NULL).  set/get are atomic operations on that map (one
   writer per (unit, key), so every completed get returns the value of the
   last set of that key on that unit, or NULL).  When a unit is freed (named:
   ABT_thread_free; unnamed: at termination; primary: ABT_finalize) the
   destructor of every key that has one is called exactly once for each
   non-NULL value still stored -- and never otherwise.                       *)
EXTENDS Naturals, Integers, FiniteSets, Sequences
CONSTANTS Units, Keys, Actors
VARIABLES val,    \* val[u][k]
          hasd,   \* hasd[k]: the key has a destructor
          pend,   \* pend[a]: call in progress
          due,    \* values whose destructor must still be called: <<u, k, v>>
          gone    \* units whose storage has been released
hvars == <<val, hasd, pend, due, gone>>
Idle == [op |-> "none"]
HInit == /\ val = [u \in Units |-> [k \in Keys |-> 0]] /\ hasd = [k \in Keys |-> FALSE]
         /\ pend = [a \in Actors |-> Idle] /\ due = {} /\ gone = {}
KeyNew(k, d) == hasd' = [hasd EXCEPT ![k] = d] /\ UNCHANGED <<val, pend, due, gone>>
Call(a, op, u, k, v) == /\ pend[a].op = "none" /\ u \notin gone
                        /\ pend' = [pend EXCEPT ![a] = [op |-> op, u |-> u, k |-> k, v |-> v, done |-> FALSE, res |-> 0]]
                        /\ UNCHANGED <<val, hasd, due, gone>>
Lin(a) == /\ pend[a].op # "none" /\ ~pend[a].done
          /\ IF pend[a].op = "set"
             THEN /\ val' = [val EXCEPT ![pend[a].u][pend[a].k] = pend[a].v]
                  /\ pend' = [pend EXCEPT ![a].done = TRUE]
             ELSE /\ UNCHANGED val
                  /\ pend' = [pend EXCEPT ![a].done = TRUE, ![a].res = val[pend[a].u][pend[a].k]]
          /\ UNCHANGED <<hasd, due, gone>>
Ret(a, op, res, ret) == /\ pend[a].op = op /\ pend[a].done /\ ret = 0 /\ (op = "get" => res = pend[a].res)
                        /\ pend' = [pend EXCEPT ![a] = Idle] /\ UNCHANGED <<val, hasd, due, gone>>
\* the unit's storage is released: destructors become due
Release(u) == /\ u \notin gone
              /\ due' = due \cup {<<u, k, val[u][k]>> : k \in {x \in Keys : hasd[x] /\ val[u][x] # 0}}
              /\ gone' = gone \cup {u} /\ UNCHANGED <<val, hasd, pend>>
\* a destructor call must be due, and is then not due any more (exactly once)
Dtor(v) == /\ \E t \in due : t[3] = v
           /\ due' = {t \in due : t[3] # v} /\ UNCHANGED <<val, hasd, pend, gone>>
NoneDueFor(u) == ~\E t \in due : t[1] = u
=============================================================================
