SPECIFICATION TSpec
CONSTANTS Units = {1,2,3,4,9}
  Keys = {0,1,2,3,4,5,6,7,8,9,10,11}
  Actors = {1,2,3,4,9}
INVARIANT NotAccepted
CONSTRAINT TrackMax
POSTCONDITION Post
CHECK_DEADLOCK FALSE
