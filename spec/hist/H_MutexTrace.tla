--------------------------- MODULE H_MutexTrace ---------------------------
EXTENDS H_Mutex, Sequences, TLC, Json, IOUtils
TraceLog == ndJsonDeserialize(IOEnv.TRACE)
VARIABLE l
tvars == <<holder, depth, rec, pend, l>>
Ev == TraceLog[l]
More == l <= Len(TraceLog)
Consume == l' = l + 1
TInit == holder = 0 /\ depth = 0 /\ rec = FALSE /\ pend = [t \in Threads |-> Idle] /\ l = 1
TReset == More /\ Ev.e = "Reset" /\ Consume /\ holder' = 0 /\ depth' = 0 /\ rec' = FALSE
          /\ pend' = [t \in Threads |-> Idle]
TMutex == More /\ Ev.e = "Mutex" /\ Consume /\ rec' = (Ev.recursive = 1) /\ UNCHANGED <<holder, depth, pend>>
TCall == More /\ Ev.e = "MCall" /\ Consume /\ Call(Ev.t, Ev.op)
TRet == More /\ Ev.e = "MRet" /\ Consume /\ Ret(Ev.t, Ev.r)
\* the harness-side holder counter must agree: exactly one caller inside
TEnter == More /\ Ev.e = "Enter" /\ Consume /\ Inside(Ev.t) /\ Ev.h = 1 /\ UNCHANGED <<holder, depth, rec, pend>>
TLeave == More /\ Ev.e = "Leave" /\ Consume /\ Inside(Ev.t) /\ Ev.h = 0 /\ UNCHANGED <<holder, depth, rec, pend>>
\* a completed run: nobody is left inside a call and the mutex is free
TEnd == More /\ Ev.e = "End" /\ Consume
        /\ (Ev.why = "done" => (holder = 0 /\ \A t \in Threads : IsIdle(t)))
        /\ UNCHANGED <<holder, depth, rec, pend>>
NeedLin == More /\ Ev.e \in {"MRet", "Enter"} /\
           (IF Ev.e = "MRet" THEN ~pend[Ev.t].done ELSE TRUE)
TLin == More /\ Ev.e = "MRet" /\ ~pend[Ev.t].done /\ UNCHANGED l /\ \E t \in Threads : Lin(t)
TNest == More /\ Ev.e = "MNest" /\ Consume /\ Nest(Ev.t, Ev.n)
TNext == TNest \/ TReset \/ TMutex \/ TCall \/ TRet \/ TEnter \/ TLeave \/ TEnd \/ TLin
TSpec == TInit /\ [][TNext]_tvars
NotAccepted == l <= Len(TraceLog)
TrackMax == TLCSet(1, IF TLCGet(1) < l THEN l ELSE TLCGet(1))
ASSUME TLCSet(1, 0)
Post == PrintT(<<"MAXL", TLCGet(1)>>)
=============================================================================
