----------------------------- MODULE H_ExecMC -----------------------------
(* Stand-alone exploration of the abstract life cycle H_Exec: every order of
   the observable events for a few units, with the sanity properties that
   make the acceptor meaningful (exactly one start per incarnation, a
   terminated unit never runs again). *)
EXTENDS H_Exec
Args == {1, 2}
HNext ==
    \E u \in Units :
       \/ \E a \in Args : Create(0, u, a) \/ Revive(0, u, a)
       \/ \E a \in Args : Start(u, a, 1)
       \/ Finish(u) \/ Yield(u) \/ Back(u) \/ Suspend(u) \/ Resume(0, u) \/ Resumed(u)
       \/ Cancel(0, u) \/ CancelRet(0, u) \/ Honour(u)
       \/ FreeRet(0, u, 1, tok[u])
HSpec == HInit /\ [][HNext]_hvars
OneStart == \A u \in Units : starts[u] <= 1
DoneHasNoCancelPending == \A u \in Units : cst[u] = 3 => st[u] \in {"done", "freed", "created", "running", "blocked", "resumable"}
FreedIsFinal == [][\A u \in Units : st[u] = "freed" => st'[u] = "freed"]_hvars
=============================================================================
