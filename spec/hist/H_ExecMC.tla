----------------------------- MODULE H_ExecMC -----------------------------
(* Stand-alone exploration of the abstract life cycle H_Exec: every order of
   the observable events for a few units, with the sanity properties that
   make the acceptor meaningful (exactly one start per incarnation, a
   terminated unit never runs again). *)
EXTENDS H_Exec
CONSTANTS Args, MigUnits
HNext ==
    \E u \in Units :
       \/ \E a \in Args, p \in {0, 1} : Create(0, u, a, p, TRUE) \/ Revive(0, u, a, p)
       \/ \E a \in Args : Start(u, a, 1)
       \/ Finish(u) \/ Yield(u) \/ (\E p \in {NoPool, 0, 1} : Back(u, p)) \/ Suspend(u) \/ Resume(0, u) \/ Resumed(u)
       \/ Cancel(0, u) \/ CancelRet(0, u) \/ Honour(u)
       \/ FreeRet(0, u, 1, tok[u])
       \/ (u \in MigUnits /\ ((mg[u].cred < 2 /\ mg[u].infl < 2 /\ \E t \in {AnyPool, 0, 1} : MigReq(0, u, t, {})) \/ (\E r \in 0..2 : MigRet(0, u, r)) \/ (mg[u].ncb < 2 /\ MigCb(u))))
HSpec == HInit /\ [][HNext]_hvars
OneStart == \A u \in Units : starts[u] <= 1
DoneHasNoCancelPending == \A u \in Units : cst[u] = 3 => st[u] \in {"done", "freed", "created", "running", "blocked", "resumable"}
\* a unit that had to move never reports back from its old pool
Moved == \A u \in Units : mg[u].must => mg[u].armed
FreedIsFinal == [][\A u \in Units : st[u] = "freed" => st'[u] = "freed"]_hvars
=============================================================================
