----------------------------- MODULE H_Eventual -----------------------------
(* Level A: ABT_eventual as a linearizable object (C09).
     set v    first set after creation/reset: ready := TRUE, value := v, ok;
              any later set: error, nothing changes
     wait     takes effect only when ready; returns the value
     test     returns (ready, value if ready)
     reset    ready := FALSE                                               *)
EXTENDS Naturals, FiniteSets
CONSTANTS Threads, Values
VARIABLES ready, value, pend, hasval
hvars == <<ready, value, pend, hasval>>
Idle == [op |-> "none"]
IsIdle(t) == pend[t].op = "none"
HInit == ready = FALSE /\ value = 0 /\ hasval \in BOOLEAN /\ pend = [t \in Threads |-> Idle]
Call(t, op, v) == /\ IsIdle(t) /\ op \in {"set", "wait", "test", "reset"}
                  /\ pend' = [pend EXCEPT ![t] = [op |-> op, v |-> v, done |-> FALSE, ok |-> 0, rv |-> 0]]
                  /\ UNCHANGED <<ready, value, hasval>>
Lin(t) == /\ ~IsIdle(t) /\ ~pend[t].done
          /\ CASE pend[t].op = "set" ->
                    IF ~ready
                    THEN /\ ready' = TRUE /\ value' = (IF hasval THEN pend[t].v ELSE 0)
                         /\ pend' = [pend EXCEPT ![t].done = TRUE, ![t].ok = 1]
                    ELSE /\ UNCHANGED <<ready, value>>
                         /\ pend' = [pend EXCEPT ![t].done = TRUE, ![t].ok = 0]
               [] pend[t].op = "wait" ->
                    /\ ready /\ UNCHANGED <<ready, value>>
                    /\ pend' = [pend EXCEPT ![t].done = TRUE, ![t].ok = 1, ![t].rv = value]
               [] pend[t].op = "test" ->
                    /\ UNCHANGED <<ready, value>>
                    /\ pend' = [pend EXCEPT ![t].done = TRUE, ![t].ok = IF ready THEN 1 ELSE 0,
                                                          ![t].rv = IF ready THEN value ELSE 0]
               [] pend[t].op = "reset" ->
                    /\ ready' = FALSE /\ UNCHANGED value
                    /\ pend' = [pend EXCEPT ![t].done = TRUE, ![t].ok = 1]
          /\ UNCHANGED hasval
Ret(t, ok, rv) == /\ ~IsIdle(t) /\ pend[t].done /\ pend[t].ok = ok /\ pend[t].rv = rv
                  /\ pend' = [pend EXCEPT ![t] = Idle]
                  /\ UNCHANGED <<ready, value, hasval>>
HNext == \E t \in Threads :
            \/ \E op \in {"set", "wait", "test"}, v \in Values : Call(t, op, v)
            \/ Lin(t) \/ (~IsIdle(t) /\ pend[t].done /\ Ret(t, pend[t].ok, pend[t].rv))
HSpec == HInit /\ [][HNext]_hvars
\* a returned wait always carries the value of the (unique) successful set
WaitSeesSet == \A t \in Threads : (pend[t].op = "wait" /\ pend[t].done) => ready /\ pend[t].rv = value
EnabledPending == \E t \in Threads : ~IsIdle(t) /\ ~pend[t].done /\ (pend[t].op = "wait" => ready)
=============================================================================
