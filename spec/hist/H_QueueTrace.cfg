SPECIFICATION TSpec
CONSTANTS
  Threads = {0,1,2,3,4}
  Units = {1,2,3,4,5,6}
INVARIANT NotAccepted
CONSTRAINT TrackMax
POSTCONDITION Post
CHECK_DEADLOCK FALSE
