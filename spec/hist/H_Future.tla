------------------------------ MODULE H_Future ------------------------------
(* Level A: ABT_future as a linearizable object (C09).
     set v   if fewer than N values are stored: stores v; the N-th set runs
             the callback (exactly once, with all N values in set order)
             before the future becomes ready; otherwise error
     wait    takes effect only when N values are stored (immediately if N = 0)
     test    ready iff N values are stored (and the callback, if any, has run) *)
EXTENDS Naturals, Sequences, FiniteSets
CONSTANTS Threads, Values, MaxN
VARIABLES n, vals, cbRuns, cbSeen, hasCb, pend
hvars == <<n, vals, cbRuns, cbSeen, hasCb, pend>>
Idle == [op |-> "none"]
IsIdle(t) == pend[t].op = "none"
HInit == n \in 0..MaxN /\ vals = <<>> /\ cbRuns = 0 /\ cbSeen = <<>> /\ hasCb \in BOOLEAN
         /\ pend = [t \in Threads |-> Idle]
Ready == Len(vals) = n
Call(t, op, v) == /\ IsIdle(t) /\ op \in {"set", "wait", "test"}
                  /\ pend' = [pend EXCEPT ![t] = [op |-> op, v |-> v, done |-> FALSE, ok |-> 0]]
                  /\ UNCHANGED <<n, vals, cbRuns, cbSeen, hasCb>>
\* The callback runs inside the set that completes the future, after the last
\* value is known and before the future becomes ready (Lin of that set).
Callback(t, seen) ==
    /\ hasCb /\ cbRuns = 0
    /\ ~IsIdle(t) /\ ~pend[t].done /\ pend[t].op = "set"
    /\ Len(vals) + 1 = n
    /\ seen = Append(vals, pend[t].v)              \* all values, in set order
    /\ cbRuns' = 1 /\ cbSeen' = seen
    /\ UNCHANGED <<n, vals, hasCb, pend>>
Lin(t) ==
    /\ ~IsIdle(t) /\ ~pend[t].done
    /\ CASE pend[t].op = "set" ->
              IF Len(vals) < n
              THEN /\ vals' = Append(vals, pend[t].v)
                   /\ (Len(vals) + 1 = n /\ hasCb) => (cbRuns = 1 /\ cbSeen = Append(vals, pend[t].v))
                   /\ pend' = [pend EXCEPT ![t].done = TRUE, ![t].ok = 1]
              ELSE /\ UNCHANGED vals
                   /\ pend' = [pend EXCEPT ![t].done = TRUE, ![t].ok = 0]
         [] pend[t].op = "wait" ->
              /\ Ready /\ UNCHANGED vals
              /\ pend' = [pend EXCEPT ![t].done = TRUE, ![t].ok = 1]
         [] pend[t].op = "test" ->
              /\ UNCHANGED vals
              /\ pend' = [pend EXCEPT ![t].done = TRUE, ![t].ok = IF Ready THEN 1 ELSE 0]
    /\ UNCHANGED <<n, hasCb, cbRuns, cbSeen>>
Ret(t, ok) == /\ ~IsIdle(t) /\ pend[t].done /\ pend[t].ok = ok
              /\ pend' = [pend EXCEPT ![t] = Idle]
              /\ UNCHANGED <<n, vals, cbRuns, cbSeen, hasCb>>
HNext == \E t \in Threads :
            \/ \E op \in {"set", "wait", "test"}, v \in Values : Call(t, op, v)
            \/ Lin(t) \/ Callback(t, Append(vals, pend[t].v))
            \/ (~IsIdle(t) /\ pend[t].done /\ Ret(t, pend[t].ok))
HSpec == HInit /\ [][HNext]_hvars
Bounded == Len(vals) <= MaxN
CallbackOnce == cbRuns <= 1 /\ (cbRuns = 1 /\ Ready => cbSeen = vals) /\ (hasCb /\ n > 0 /\ Ready => cbRuns = 1)
CallbackBeforeWaiters == \A t \in Threads : (pend[t].op = "wait" /\ pend[t].done /\ hasCb /\ n > 0) => cbRuns = 1
=============================================================================
