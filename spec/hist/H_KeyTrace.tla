---------------------------- MODULE H_KeyTrace ----------------------------
EXTENDS H_Key, TLC, Json, IOUtils
TraceLog == ndJsonDeserialize(IOEnv.TRACE)
VARIABLES l, named, ended, fcalled
tvars == <<val, hasd, pend, due, gone, l, named, ended, fcalled>>
Ev == TraceLog[l]
More == l <= Len(TraceLog)
Is(e) == More /\ Ev.e = e /\ l' = l + 1
Keep == UNCHANGED <<named, ended, fcalled>>
TInit == HInit /\ l = 1 /\ named = [u \in Units |-> TRUE] /\ ended = {} /\ fcalled = {}
TNext ==
    \/ (Is("Reset") /\ val' = [u \in Units |-> [k \in Keys |-> 0]] /\ hasd' = [k \in Keys |-> FALSE]
        /\ pend' = [a \in Actors |-> Idle] /\ due' = {} /\ gone' = {} /\ named' = [u \in Units |-> TRUE] /\ ended' = {} /\ fcalled' = {})
    \/ (Is("KeyNew") /\ KeyNew(Ev.k, Ev.d = 1) /\ Keep)
    \/ (Is("UnitNew") /\ named' = [named EXCEPT ![Ev.u] = (Ev.named = 1)] /\ UNCHANGED <<val, hasd, pend, due, gone, ended, fcalled>>)
    \/ (Is("KCall") /\ Call(Ev.w, Ev.op, Ev.u, Ev.k, Ev.v) /\ Keep)
    \/ (Is("KRet") /\ Ret(Ev.w, Ev.op, Ev.v, Ev.ret) /\ Keep)
    \/ (More /\ Ev.e = "KRet" /\ ~pend[Ev.w].done /\ UNCHANGED l /\ Keep /\ \E a \in Actors : Lin(a))
    \* an unnamed unit is freed automatically when it terminates; a named one by ABT_thread_free
    \* (ABT_thread_free first joins the unit: the storage is released once the unit has
    \*  ended and the free has been called)
    \/ (Is("UnitEnd") /\ ended' = ended \cup {Ev.u} /\ UNCHANGED <<named, fcalled>>
        /\ IF named[Ev.u] /\ Ev.u \notin fcalled THEN UNCHANGED hvars ELSE Release(Ev.u))
    \/ (Is("KFreeCall") /\ fcalled' = fcalled \cup {Ev.u} /\ UNCHANGED <<named, ended>>
        /\ IF Ev.u \in ended THEN Release(Ev.u) ELSE UNCHANGED hvars)
    \/ (Is("KFreeRet") /\ NoneDueFor(Ev.u) /\ UNCHANGED hvars /\ Keep)
    \/ (Is("Dtor") /\ Dtor(Ev.v) /\ Keep)
    \/ (Is("KFinalizeCall") /\ Release(Ev.u) /\ Keep)
    \/ (Is("KFinalizeRet") /\ due = {} /\ UNCHANGED hvars /\ Keep)
    \/ (Is("End") /\ (Ev.why = "done" => due = {}) /\ UNCHANGED hvars /\ Keep)
TSpec == TInit /\ [][TNext]_tvars
NotAccepted == l <= Len(TraceLog)
TrackMax == TLCSet(1, IF TLCGet(1) < l THEN l ELSE TLCGet(1))
ASSUME TLCSet(1, 0)
Post == PrintT(<<"MAXL", TLCGet(1)>>)
=============================================================================
