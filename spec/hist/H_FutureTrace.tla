--------------------------- MODULE H_FutureTrace ---------------------------
EXTENDS H_Future, TLC, Json, IOUtils
TraceLog == ndJsonDeserialize(IOEnv.TRACE)
VARIABLE l
tvars == <<n, vals, cbRuns, cbSeen, hasCb, pend, l>>
Ev == TraceLog[l]
More == l <= Len(TraceLog)
Consume == l' = l + 1
TInit == n = 0 /\ vals = <<>> /\ cbRuns = 0 /\ cbSeen = <<>> /\ hasCb = FALSE /\ pend = [t \in Threads |-> Idle] /\ l = 1
TReset == More /\ Ev.e = "Reset" /\ Consume /\ n' = 0 /\ vals' = <<>> /\ cbRuns' = 0 /\ cbSeen' = <<>>
          /\ hasCb' = FALSE /\ pend' = [t \in Threads |-> Idle]
TObj == More /\ Ev.e = "Future" /\ Consume /\ n' = Ev.n /\ hasCb' = (Ev.cb = 1)
        /\ UNCHANGED <<vals, cbRuns, cbSeen, pend>>
TCall == More /\ Ev.e = "FCall" /\ Consume /\ Call(Ev.t, Ev.op, Ev.v)
TRet == More /\ Ev.e = "FRet" /\ Consume /\ Ret(Ev.t, Ev.ok)
\* the callback record is produced inside the completing set: it is the
\* linearization point of that set and must carry all values in set order
TCb == More /\ Ev.e = "FCb" /\ Consume
       /\ \E t \in Threads : Callback(t, Ev.vals)
TEnd == More /\ Ev.e = "End" /\ Consume
        /\ (Ev.why = "done" => (\A t \in Threads : IsIdle(t)) /\ (hasCb /\ n > 0 /\ Ready => cbRuns = 1))
        /\ UNCHANGED hvars
TLin == More /\ ((Ev.e = "FRet" /\ ~pend[Ev.t].done) \/ Ev.e = "FCb") /\ UNCHANGED l /\ \E t \in Threads : Lin(t)
TNext == TReset \/ TObj \/ TCall \/ TRet \/ TCb \/ TEnd \/ TLin
TSpec == TInit /\ [][TNext]_tvars
NotAccepted == l <= Len(TraceLog)
TrackMax == TLCSet(1, IF TLCGet(1) < l THEN l ELSE TLCGet(1))
ASSUME TLCSet(1, 0)
Post == PrintT(<<"MAXL", TLCGet(1)>>)
=============================================================================
