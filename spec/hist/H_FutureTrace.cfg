SPECIFICATION TSpec
CONSTANTS Threads = {0,1,2,3,4,5,6,7,8}
  Values = {0}
  MaxN = 3
INVARIANT NotAccepted
CONSTRAINT TrackMax
POSTCONDITION Post
CHECK_DEADLOCK FALSE
