SPECIFICATION TSpec
CONSTANTS Threads = {1,2,3,4,5,6,7,8}
INVARIANT NotAccepted
CONSTRAINT TrackMax
POSTCONDITION Post
CHECK_DEADLOCK FALSE
