-------------------------- MODULE H_EventualTrace --------------------------
EXTENDS H_Eventual, Sequences, TLC, Json, IOUtils
TraceLog == ndJsonDeserialize(IOEnv.TRACE)
VARIABLE l
tvars == <<ready, value, pend, hasval, l>>
Ev == TraceLog[l]
More == l <= Len(TraceLog)
Consume == l' = l + 1
TInit == ready = FALSE /\ value = 0 /\ hasval = FALSE /\ pend = [t \in Threads |-> Idle] /\ l = 1
TReset == More /\ Ev.e = "Reset" /\ Consume /\ ready' = FALSE /\ value' = 0 /\ hasval' = FALSE
          /\ pend' = [t \in Threads |-> Idle]
TObj == More /\ Ev.e = "Eventual" /\ Consume /\ hasval' = (Ev.nbytes > 0) /\ UNCHANGED <<ready, value, pend>>
TCall == More /\ Ev.e = "ECall" /\ Consume /\ Call(Ev.t, Ev.op, Ev.v)
TRet == More /\ Ev.e = "ERet" /\ Consume /\ Ret(Ev.t, Ev.ok, Ev.v)
TEnd == More /\ Ev.e = "End" /\ Consume /\ (Ev.why = "done" => \A t \in Threads : IsIdle(t)) /\ UNCHANGED hvars
TLin == More /\ Ev.e = "ERet" /\ ~pend[Ev.t].done /\ UNCHANGED l /\ \E t \in Threads : Lin(t)
TNext == TReset \/ TObj \/ TCall \/ TRet \/ TEnd \/ TLin
TSpec == TInit /\ [][TNext]_tvars
NotAccepted == l <= Len(TraceLog)
TrackMax == TLCSet(1, IF TLCGet(1) < l THEN l ELSE TLCGet(1))
ASSUME TLCSet(1, 0)
Post == PrintT(<<"MAXL", TLCGet(1)>>)
=============================================================================
