SPECIFICATION HSpec
CONSTANTS Threads = {1,2,3}
  Values = {1,2}
  MaxN = 2
INVARIANTS CallbackOnce CallbackBeforeWaiters
CHECK_DEADLOCK FALSE
CONSTRAINT Bounded
