SPECIFICATION TSpec
CONSTANTS Effs = {"p1","p0","up","upr","ran","nx","k2","pk","none"}
  KeptUL = 1
INVARIANT NotAccepted
CONSTRAINT TrackMax
POSTCONDITION Post
CHECK_DEADLOCK FALSE
