SPECIFICATION TSpec
CONSTANTS Effs = {"p1","p0","up","upr","upk","p1f","ran","nx","k2","pk","upm","none"}
INVARIANT NotAccepted
CONSTRAINT TrackMax
POSTCONDITION Post
CHECK_DEADLOCK FALSE
