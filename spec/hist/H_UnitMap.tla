------------------------------ MODULE H_UnitMap ------------------------------
(* Level A: the unit <-> work-unit map of user-defined pools (C14).

   A user-defined pool hands out a "unit" for each work unit associated with
   it (create_unit) and gets it back when the association ends (free_unit).
   The specification tracks, from the pool's own call log,
     live     the units that exist: u -> [p: pool, t: owner work unit]
     queued   the units that are inside their pool (pushed, not popped)
   and requires
     - create_unit(p, t) only while t has no unit in p, and never a third unit
       for t (a second one exists only while t moves from one user-defined
       pool to another: the new unit is created before the old one is freed);
     - free_unit(p, u) only for a live unit of p that is not inside the pool;
     - push / pop only of live units of that pool, push of a unit that is not
       inside, pop of one that is (a unit is never used after it was freed,
       never pushed twice);
     - lookups (thread -> unit, unit -> thread) of a work unit whose association
       is not changing return its single live unit, or the built-in unit if it
       has none, and map back to the same work unit;
     - once an association change has returned, the work unit has exactly one
       unit, in the new pool, if that pool is user-defined, and none otherwise;
     - every work unit begins once and finishes once; when everything has been
       freed no unit is live.                                                  *)
EXTENDS Naturals, FiniteSets
CONSTANTS Pools, WUnits   \* WUnits includes 0 = "a work unit the scenario does not name" (primary ULT, schedulers)
VARIABLES live, queued, begun, finished
hvars == <<live, queued, begun, finished>>
HInit == live = <<>> /\ queued = {} /\ begun = {} /\ finished = {}
UnitsOf(t) == {u \in DOMAIN live : live[u].t = t}
UnitsIn(t, p) == {u \in UnitsOf(t) : live[u].p = p}
Ext(f, k, v) == [x \in DOMAIN f \cup {k} |-> IF x = k THEN v ELSE f[x]]
Del(f, k) == [x \in DOMAIN f \ {k} |-> f[x]]

Create(p, u, t) == /\ u \notin DOMAIN live
                   /\ (t # 0 => UnitsIn(t, p) = {} /\ Cardinality(UnitsOf(t)) <= 1)
                   /\ live' = Ext(live, u, [p |-> p, t |-> t])
                   /\ UNCHANGED <<queued, begun, finished>>
Free(p, u) == /\ u \in DOMAIN live /\ live[u].p = p /\ u \notin queued
              /\ live' = Del(live, u) /\ UNCHANGED <<queued, begun, finished>>
Push(p, u) == /\ u \in DOMAIN live /\ live[u].p = p /\ u \notin queued
              \* the unit that is pushed is the work unit's only unit
              /\ (live[u].t # 0 => UnitsOf(live[u].t) = {u})
              /\ queued' = queued \cup {u} /\ UNCHANGED <<live, begun, finished>>
Pop(p, u) == /\ u \in queued /\ u \in DOMAIN live /\ live[u].p = p
             /\ queued' = queued \ {u} /\ UNCHANGED <<live, begun, finished>>
\* lookup of work unit t gave unit u (0: the built-in unit) and mapped back (back = 1)
Look(t, u, back) == /\ IF u = 0 THEN UnitsOf(t) = {} ELSE UnitsOf(t) = {u}
                    /\ back = 1 /\ UNCHANGED hvars
\* an association change of t to pool p returned successfully
Assoc(t, p, user) == /\ IF user THEN Cardinality(UnitsOf(t)) = 1 /\ UnitsIn(t, p) = UnitsOf(t) ELSE UnitsOf(t) = {}
                     /\ UNCHANGED hvars
\* ... or failed: nothing changed, t still has at most one unit
AssocFail(t) == Cardinality(UnitsOf(t)) <= 1 /\ UNCHANGED hvars
Begin(t) == t \notin begun /\ begun' = begun \cup {t} /\ (\A u \in UnitsOf(t) : u \notin queued) /\ UNCHANGED <<live, queued, finished>>
Finish(t) == t \in begun /\ t \notin finished /\ finished' = finished \cup {t} /\ UNCHANGED <<live, queued, begun>>
\* a terminated work unit is revived: from the call on it may begin (and finish) once more; if the
\* call fails because the target pool refused to create a unit, nothing has changed: the unit has
\* not begun again and is terminated as before
ReviveCall(t) == /\ t \in finished /\ Cardinality(UnitsOf(t)) <= 1
                 /\ begun' = begun \ {t} /\ finished' = finished \ {t} /\ UNCHANGED <<live, queued>>
\* (by the time a successful call is logged the unit may already run and be on its way to another pool)
ReviveRet(t, ok) == /\ IF ok THEN UNCHANGED <<begun, finished>>
                       ELSE /\ Cardinality(UnitsOf(t)) <= 1 /\ t \notin begun
                            /\ begun' = begun \cup {t} /\ finished' = finished \cup {t}
                    /\ UNCHANGED <<live, queued>>
\* a named work unit has been freed: it has no unit any more
Freed(t) == t \in finished /\ UnitsOf(t) = {} /\ UNCHANGED hvars
AllReleased == live = <<>> /\ begun = finished
=============================================================================
