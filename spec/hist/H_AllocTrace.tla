---------------------------- MODULE H_AllocTrace ----------------------------
EXTENDS H_Alloc, Sequences, TLC, Json, IOUtils
TraceLog == ndJsonDeserialize(IOEnv.TRACE)
VARIABLE l
tvars == <<rng, held, l>>
Ev == TraceLog[l]
More == l <= Len(TraceLog)
Is(e) == More /\ Ev.e = e /\ l' = l + 1
TInit == HInit /\ l = 1
TNext == \/ (Is("Reset") /\ rng' = [u \in Units |-> None] /\ held' = <<>>)
         \/ (Is("Stack") /\ Stack(Ev.u, Ev.req, Ev.size, Ev.rep, Ev.rlo, Ev.rhi, Ev.sp16, Ev.inr, Ev.userlo))
         \/ (Is("StackEnd") /\ StackEnd(Ev.u, Ev.touched, Ev.guard, Ev.done))
         \/ (Is("Desc") /\ Desc(Ev.u, Ev.rlo, Ev.rhi, Ev.al))
         \/ (Is("DescEnd") /\ DescEnd(Ev.u, Ev.ran))
         \/ (Is("Churn") /\ Churn(Ev.dup))
         \/ (Is("Ledger") /\ Ledger(Ev.live, Ev.errors))
         \/ (Is("PAlloc") /\ PAlloc(Ev.t, Ev.h, Ev.al))
         \/ (Is("PFree") /\ PFree(Ev.t, Ev.h, Ev.intact))
         \/ (Is("PMove") /\ PMove(Ev.t, Ev.h, Ev.to))
         \* conservation: once every block has been returned, later users are served from the pool (no new page)
         \/ (Is("PConserve") /\ Ev.live1 <= Ev.live0 /\ UNCHANGED hvars)
         \/ (Is("End") /\ (Ev.why = "done" => held = <<>>) /\ UNCHANGED hvars)
TSpec == TInit /\ [][TNext]_tvars
NotAccepted == l <= Len(TraceLog)
TrackMax == TLCSet(1, IF TLCGet(1) < l THEN l ELSE TLCGet(1))
ASSUME TLCSet(1, 0)
Post == PrintT(<<"MAXL", TLCGet(1)>>)
=============================================================================
