-------------------------- MODULE H_BarrierTrace --------------------------
EXTENDS H_Barrier, Sequences, TLC, Json, IOUtils
TraceLog == ndJsonDeserialize(IOEnv.TRACE)
VARIABLE l
tvars == <<n, entered, inside, released, l>>
Ev == TraceLog[l]
More == l <= Len(TraceLog)
Consume == l' = l + 1
TInit == n = 1 /\ entered = [k \in Rounds |-> {}] /\ inside = [t \in Threads |-> -1] /\ released = {} /\ l = 1
TReset == More /\ Ev.e = "Reset" /\ Consume /\ n' = 1 /\ entered' = [k \in Rounds |-> {}]
          /\ inside' = [t \in Threads |-> -1] /\ released' = {}
TBarrier == More /\ Ev.e = "Barrier" /\ Consume /\ Reinit(Ev.n)
TCall == More /\ Ev.e = "BarCall" /\ Consume /\ BarCall(Ev.t, Ev.k)
TRet == More /\ Ev.e = "BarRet" /\ Consume /\ BarRet(Ev.t, Ev.k)
\* a rejected call (tasklet caller) reports the documented error and is not an arrival
TReject == More /\ Ev.e = "BarReject" /\ Consume /\ Ev.ret = 1 /\ UNCHANGED hvars
\* a rejected re-initialisation (no waiters) reports the documented error and leaves the number of waiters as it was
TRejReinit == More /\ Ev.e = "BarRejReinit" /\ Consume /\ Ev.ret = 1 /\ Ev.n = n /\ UNCHANGED hvars
TEnd == More /\ Ev.e = "End" /\ Consume
        /\ (Ev.why = "done" => \A t \in Threads : inside[t] = -1)
        /\ UNCHANGED hvars
TNext == TReject \/ TRejReinit \/ TReset \/ TBarrier \/ TCall \/ TRet \/ TEnd
TSpec == TInit /\ [][TNext]_tvars
NotAccepted == l <= Len(TraceLog)
TrackMax == TLCSet(1, IF TLCGet(1) < l THEN l ELSE TLCGet(1))
ASSUME TLCSet(1, 0)
Post == PrintT(<<"MAXL", TLCGet(1)>>)
=============================================================================
