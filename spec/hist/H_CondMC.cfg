SPECIFICATION HSpec
CONSTANTS Threads = {1,2,3}
INVARIANTS Disjoint HolderNotWaiting
CHECK_DEADLOCK FALSE
