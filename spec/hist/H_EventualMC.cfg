SPECIFICATION HSpec
CONSTANTS Threads = {1,2,3}
  Values = {1,2}
INVARIANT WaitSeesSet
CHECK_DEADLOCK FALSE
