SPECIFICATION Spec
CONSTANTS Streams = {1,2,3,4}
  MaxRank = 5
  Primary = 1
INVARIANTS Distinct ListRepresentsLive HeadIsPrimary
CHECK_DEADLOCK FALSE
