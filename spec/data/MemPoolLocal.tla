---------------------------- MODULE MemPoolLocal ----------------------------
(* Level B: the local / global memory pools of descriptors and stacks (C15) as
   coded in abti_mem_pool.h (ABTI_mem_pool_alloc / _free) with the global pool
   of full buckets abstracted to an atomic take / return (its lock-free LIFO is
   SyncLifo.tla).

   A local pool keeps up to MAXB buckets; buckets[0..idx-1] are full (H
   headers), buckets[idx] is the current one and always holds at least one
   header.  alloc takes the first header of the current bucket; when that was
   its last header it moves to the previous bucket or, if there is none, takes
   a full bucket from the global pool (which creates a page of fresh headers
   when it is empty).  free pushes onto the current bucket; when that is full
   it opens the next bucket, first handing buckets[0] to the global pool and
   shifting the others down if all MAXB buckets are full.

   Checked: every header is in exactly one place (a local bucket, a global
   bucket, or handed out), no header is handed out twice, the structural
   invariant of the local pools holds, buckets in the global pool are full.

   BadShift = TRUE shifts the buckets from the wrong index after returning one
   (a bucket is duplicated and another one lost).  Non-vacuity witness.     *)
EXTENDS Naturals, Sequences, FiniteSets
CONSTANTS Locals, H, MAXB, MaxPages, MaxHeld, BadShift
VARIABLES bk, idx, glob, held, npages
vars == <<bk, idx, glob, held, npages>>
\* bk[l]: sequence (length MAXB) of buckets, a bucket is a sequence of header ids; glob: set of full buckets
SeqSet(s) == {s[i] : i \in 1..Len(s)}
PageHeaders(p) == {p * 100 + i : i \in 1..(2 * H)}          \* a page yields two buckets
PageBucket(p, b) == [i \in 1..H |-> p * 100 + (b - 1) * H + i]
Init == /\ npages = Cardinality(Locals)
        /\ \E f \in [Locals -> 1..Cardinality(Locals)] :
             /\ \A a, b \in Locals : a # b => f[a] # f[b]
             /\ bk = [l \in Locals |-> [i \in 1..MAXB |-> IF i = 1 THEN PageBucket(f[l], 1) ELSE <<>>]]
             /\ glob = {PageBucket(f[l], 2) : l \in Locals}
        /\ idx = [l \in Locals |-> 1] /\ held = [l \in Locals |-> {}]
\* take a full bucket from the global pool (a new page if it is empty)
Alloc(l) ==
    /\ Cardinality(held[l]) < MaxHeld
    /\ LET cur == bk[l][idx[l]] IN
       IF Len(cur) = 1
       THEN IF idx[l] = 1
            THEN IF glob # {}
                 THEN \E b \in glob : /\ glob' = glob \ {b} /\ bk' = [bk EXCEPT ![l][1] = b]
                                      /\ idx' = idx /\ npages' = npages
                 ELSE /\ npages < MaxPages /\ npages' = npages + 1
                      /\ bk' = [bk EXCEPT ![l][1] = PageBucket(npages + 1, 1)]
                      /\ glob' = {PageBucket(npages + 1, 2)} /\ idx' = idx
            ELSE /\ idx' = [idx EXCEPT ![l] = @ - 1] /\ bk' = [bk EXCEPT ![l][idx[l]] = <<>>]
                 /\ UNCHANGED <<glob, npages>>
       ELSE /\ bk' = [bk EXCEPT ![l][idx[l]] = Tail(cur)] /\ UNCHANGED <<idx, glob, npages>>
    /\ held' = [held EXCEPT ![l] = @ \cup {bk[l][idx[l]][1]}]
\* a header may be freed into any local pool (the stream the work unit ends on)
Free(l, owner, h) ==
    /\ h \in held[owner]
    /\ held' = [held EXCEPT ![owner] = @ \ {h}]
    /\ LET cur == bk[l][idx[l]] IN
       IF Len(cur) = H
       THEN IF idx[l] = MAXB
            THEN \* all buckets full: return buckets[1] to the global pool, shift the rest down, open a new last bucket
                 /\ glob' = glob \cup {bk[l][1]}
                 /\ bk' = [bk EXCEPT ![l] = [i \in 1..MAXB |->
                                IF i = MAXB THEN <<h>>
                                ELSE IF BadShift THEN bk[l][i] ELSE bk[l][i + 1]]]
                 /\ idx' = idx
            ELSE /\ idx' = [idx EXCEPT ![l] = @ + 1] /\ bk' = [bk EXCEPT ![l][idx[l] + 1] = <<h>>] /\ glob' = glob
       ELSE /\ bk' = [bk EXCEPT ![l][idx[l]] = <<h>> \o cur] /\ UNCHANGED <<idx, glob>>
    /\ UNCHANGED npages
Next == \E l \in Locals : Alloc(l) \/ \E o \in Locals : \E h \in held[o] : Free(l, o, h)
Spec == Init /\ [][Next]_vars
\* ---- invariants
AllHeaders == UNION {PageHeaders(p) : p \in 1..npages}
LocalHeaders(l) == UNION {SeqSet(bk[l][i]) : i \in 1..MAXB}
GlobHeaders == UNION {SeqSet(b) : b \in glob}
Places == [l \in Locals |-> LocalHeaders(l)]
Conservation ==
    /\ (UNION {LocalHeaders(l) : l \in Locals}) \cup GlobHeaders \cup (UNION {held[l] : l \in Locals}) = AllHeaders
    /\ \A l \in Locals : LocalHeaders(l) \cap GlobHeaders = {} /\ \A m \in Locals : LocalHeaders(l) \cap held[m] = {}
    /\ \A l, m \in Locals : l # m => LocalHeaders(l) \cap LocalHeaders(m) = {} /\ held[l] \cap held[m] = {}
    /\ \A l \in Locals : GlobHeaders \cap held[l] = {}
NoDuplicates == /\ \A l \in Locals : \A i \in 1..MAXB : Cardinality(SeqSet(bk[l][i])) = Len(bk[l][i])
                /\ \A l \in Locals : \A i, j \in 1..MAXB : i # j => SeqSet(bk[l][i]) \cap SeqSet(bk[l][j]) = {}
                /\ \A a, b \in glob : a # b => SeqSet(a) \cap SeqSet(b) = {}
Shape == \A l \in Locals : /\ idx[l] \in 1..MAXB /\ Len(bk[l][idx[l]]) \in 1..H
                           /\ \A i \in 1..MAXB : (i < idx[l] => Len(bk[l][i]) = H) /\ (i > idx[l] => bk[l][i] = <<>>)
GlobalFull == \A b \in glob : Len(b) = H
=============================================================================
