SPECIFICATION Spec
CONSTANTS
  Threads = {1,2,3}
  Units = {1,2,3}
  MaxOps = 2
  Deque = TRUE
INVARIANTS TypeOK FlagExact MutualExclusion NoDup InPoolExact Conserved
PROPERTY Refines
CHECK_DEADLOCK FALSE
