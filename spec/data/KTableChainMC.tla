---------------------------- MODULE KTableChainMC ----------------------------
EXTENDS KTableChain
\* writer 1 sets keys 1, 2 and 1 again; writer 2 sets keys 3 and 4: all in one chain
PlanC == [w \in {1, 2} |-> IF w = 1 THEN << <<1, 11>>, <<2, 12>>, <<1, 13>> >> ELSE << <<3, 21>>, <<4, 22>> >>]
=============================================================================
