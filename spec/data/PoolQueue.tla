------------------------------ MODULE PoolQueue ------------------------------
(* Level B: the shared FIFO / RANDWS pool of src/pool/{fifo,randws}.c +
   thread_queue.h, one action per atomic access or lock-protected section.

     push        ABTD_spinlock_acquire; thread_queue_push_{tail,head}:
                   link + num_threads++            (plain, under the lock)
                   is_empty := 0                   (release store, only 0 -> 1 transition)
                   is_in_pool[u] := 1              (release store)
                 ABTD_spinlock_release
     pop         thread_queue_acquire_spinlock_if_not_empty:
                   load is_empty  -> 1: return NULL      (lock-free fast path)
                   try_acquire; on failure spin: load is_empty -> 1: return NULL,
                                                  lock seems free: try again
                 thread_queue_pop_{head,tail}: unlink, num_threads--,
                   is_empty := 1 when it becomes empty, is_in_pool[u] := 0
                 release
   The module refines H_Queue (PROPERTY Refines): the abstract queue is the
   linked list, except that an element linked into an empty list is not yet
   abstractly present until is_empty := 0 makes it observable.            *)
EXTENDS Naturals, Sequences, FiniteSets, SequencesExt, TLC

CONSTANTS Threads, Units, MaxOps, Deque

VARIABLES items,    \* the linked list, head first (plain memory, protected by lock)
          num,      \* num_threads
          isEmpty,  \* atomic flag
          inPool,   \* is_in_pool[u]
          lock,     \* spinlock: FALSE free, TRUE held
          pc, cur,  \* per-thread control state and current call
          owner,    \* owner[u] \in Threads \cup {0}: who may push u (ghost, = the driver's bookkeeping)
          nops      \* calls issued per thread

vars == <<items, num, isEmpty, inPool, lock, pc, cur, owner, nops>>

NoCall == [op |-> "none"]

Init == /\ items = <<>> /\ num = 0 /\ isEmpty = TRUE /\ lock = FALSE
        /\ inPool = [u \in Units |-> FALSE]
        /\ pc = [t \in Threads |-> "idle"] /\ cur = [t \in Threads |-> NoCall]
        /\ owner \in [Units -> Threads]
        /\ nops = [t \in Threads |-> 0]

Owned(t) == {u \in Units : owner[u] = t}

\* ------------------------------------------------------------------ calls
BeginPush(t) == /\ pc[t] = "idle" /\ nops[t] < MaxOps
                /\ \E u \in Owned(t), hd \in (IF Deque THEN BOOLEAN ELSE {FALSE}) :
                      /\ cur' = [cur EXCEPT ![t] = [op |-> "push", u |-> u, hd |-> hd, res |-> 0]]
                      /\ owner' = [owner EXCEPT ![u] = 0]
                /\ pc' = [pc EXCEPT ![t] = "push_acq"]
                /\ nops' = [nops EXCEPT ![t] = @ + 1]
                /\ UNCHANGED <<items, num, isEmpty, inPool, lock>>
BeginPop(t) == /\ pc[t] = "idle" /\ nops[t] < MaxOps
               /\ \E tl \in (IF Deque THEN BOOLEAN ELSE {FALSE}) :
                      cur' = [cur EXCEPT ![t] = [op |-> "pop", tl |-> tl, res |-> 0, u |-> 0]]
               /\ pc' = [pc EXCEPT ![t] = "pop_chk"]
               /\ nops' = [nops EXCEPT ![t] = @ + 1]
               /\ UNCHANGED <<items, num, isEmpty, inPool, lock, owner>>

\* ------------------------------------------------------------------ push
PushAcq(t) == /\ pc[t] = "push_acq" /\ lock = FALSE
              /\ lock' = TRUE /\ pc' = [pc EXCEPT ![t] = "push_link"]
              /\ UNCHANGED <<items, num, isEmpty, inPool, cur, owner, nops>>
PushLink(t) == /\ pc[t] = "push_link"
               /\ items' = IF cur[t].hd THEN <<cur[t].u>> \o items ELSE Append(items, cur[t].u)
               /\ num' = num + 1
               /\ pc' = [pc EXCEPT ![t] = IF num = 0 THEN "push_flag" ELSE "push_inpool"]
               /\ UNCHANGED <<isEmpty, inPool, lock, cur, owner, nops>>
PushFlag(t) == /\ pc[t] = "push_flag"
               /\ isEmpty' = FALSE
               /\ pc' = [pc EXCEPT ![t] = "push_inpool"]
               /\ UNCHANGED <<items, num, inPool, lock, cur, owner, nops>>
PushInPool(t) == /\ pc[t] = "push_inpool"
                 /\ inPool' = [inPool EXCEPT ![cur[t].u] = TRUE]
                 /\ pc' = [pc EXCEPT ![t] = "push_rel"]
                 /\ UNCHANGED <<items, num, isEmpty, lock, cur, owner, nops>>
PushRel(t) == /\ pc[t] = "push_rel"
              /\ lock' = FALSE /\ pc' = [pc EXCEPT ![t] = "ret"]
              /\ UNCHANGED <<items, num, isEmpty, inPool, cur, owner, nops>>

\* ------------------------------------------------------------------ pop
PopChk(t) == /\ pc[t] = "pop_chk"
             /\ pc' = [pc EXCEPT ![t] = IF isEmpty THEN "ret" ELSE "pop_try"]
             /\ UNCHANGED <<items, num, isEmpty, inPool, lock, cur, owner, nops>>
PopTry(t) == /\ pc[t] = "pop_try"
             /\ IF lock = FALSE
                THEN lock' = TRUE /\ pc' = [pc EXCEPT ![t] = "pop_unlink"]
                ELSE lock' = lock /\ pc' = [pc EXCEPT ![t] = "pop_spin"]
             /\ UNCHANGED <<items, num, isEmpty, inPool, cur, owner, nops>>
PopSpin(t) == /\ pc[t] = "pop_spin"
              /\ \/ (isEmpty /\ pc' = [pc EXCEPT ![t] = "ret"])
                 \/ (~isEmpty /\ lock = FALSE /\ pc' = [pc EXCEPT ![t] = "pop_try"])
              /\ UNCHANGED <<items, num, isEmpty, inPool, lock, cur, owner, nops>>
PopUnlink(t) == /\ pc[t] = "pop_unlink"
                /\ IF num = 0
                   THEN /\ pc' = [pc EXCEPT ![t] = "pop_rel"]
                        /\ UNCHANGED <<items, num, cur>>
                   ELSE LET u == IF cur[t].tl THEN items[Len(items)] ELSE Head(items) IN
                        /\ items' = IF cur[t].tl THEN SubSeq(items, 1, Len(items) - 1) ELSE Tail(items)
                        /\ num' = num - 1
                        /\ cur' = [cur EXCEPT ![t].res = u, ![t].u = u]
                        /\ pc' = [pc EXCEPT ![t] = IF num = 1 THEN "pop_flag" ELSE "pop_inpool"]
                /\ UNCHANGED <<isEmpty, inPool, lock, owner, nops>>
PopFlag(t) == /\ pc[t] = "pop_flag"
              /\ isEmpty' = TRUE /\ pc' = [pc EXCEPT ![t] = "pop_inpool"]
              /\ UNCHANGED <<items, num, inPool, lock, cur, owner, nops>>
PopInPool(t) == /\ pc[t] = "pop_inpool"
                /\ inPool' = [inPool EXCEPT ![cur[t].u] = FALSE]
                /\ pc' = [pc EXCEPT ![t] = "pop_rel"]
                /\ UNCHANGED <<items, num, isEmpty, lock, cur, owner, nops>>
PopRel(t) == /\ pc[t] = "pop_rel"
             /\ lock' = FALSE /\ pc' = [pc EXCEPT ![t] = "ret"]
             /\ UNCHANGED <<items, num, isEmpty, inPool, cur, owner, nops>>

Return(t) == /\ pc[t] = "ret"
             /\ pc' = [pc EXCEPT ![t] = "idle"]
             /\ owner' = IF cur[t].op = "pop" /\ cur[t].res # 0
                         THEN [owner EXCEPT ![cur[t].res] = t] ELSE owner
             /\ cur' = [cur EXCEPT ![t] = NoCall]
             /\ UNCHANGED <<items, num, isEmpty, inPool, lock, nops>>

Step(t) == \/ BeginPush(t) \/ BeginPop(t)
           \/ PushAcq(t) \/ PushLink(t) \/ PushFlag(t) \/ PushInPool(t) \/ PushRel(t)
           \/ PopChk(t) \/ PopTry(t) \/ PopSpin(t) \/ PopUnlink(t) \/ PopFlag(t) \/ PopInPool(t) \/ PopRel(t)
           \/ Return(t)
Next == \E t \in Threads : Step(t)
Spec == Init /\ [][Next]_vars
FairSpec == Spec /\ \A t \in Threads : WF_vars(Step(t))

\* ------------------------------------------------------------------ invariants
TypeOK == /\ num = Len(items) /\ lock \in BOOLEAN /\ isEmpty \in BOOLEAN
LockFree == ~\E t \in Threads : pc[t] \in {"push_link", "push_flag", "push_inpool", "push_rel",
                                           "pop_unlink", "pop_flag", "pop_inpool", "pop_rel"}
\* the flag is exact whenever nobody is inside a critical section
FlagExact == LockFree => (isEmpty <=> items = <<>>)
\* the lock is held by exactly the thread inside
MutualExclusion == Cardinality({t \in Threads : pc[t] \in {"push_link", "push_flag", "push_inpool", "push_rel",
                                           "pop_unlink", "pop_flag", "pop_inpool", "pop_rel"}}) <= 1
NoDup == \A i, j \in 1..Len(items) : i # j => items[i] # items[j]
InPoolExact == LockFree => \A u \in Units : inPool[u] <=> (\E i \in 1..Len(items) : items[i] = u)
\* conservation: every unit is owned by a thread, or is in the list, or is in flight in exactly one call
Conserved == \A u \in Units :
    Cardinality({t \in Threads : owner[u] = t}) +
    (IF \E i \in 1..Len(items) : items[i] = u THEN 1 ELSE 0) +
    Cardinality({t \in Threads : cur[t].op = "push" /\ cur[t].u = u /\ pc[t] \in {"push_acq", "push_link"}}) +
    Cardinality({t \in Threads : cur[t].op = "pop" /\ cur[t].res = u}) = 1

\* ------------------------------------------------------------------ refinement of H_Queue
\* an element linked into an empty list is abstractly absent until the flag says so
qbar == IF \E t \in Threads : pc[t] = "push_flag" THEN <<>> ELSE items
PushDone(t) == pc[t] \in {"push_inpool", "push_rel", "ret"}
PopDone(t) == \/ pc[t] \in {"pop_flag", "pop_inpool", "pop_rel", "ret"}
pendbar == [t \in Threads |->
    IF cur[t].op = "push"
    THEN [op |-> "push", us |-> <<cur[t].u>>, hd |-> cur[t].hd, done |-> PushDone(t), res |-> <<>>]
    ELSE IF cur[t].op = "pop"
    THEN [op |-> "pop", k |-> 1, tl |-> cur[t].tl, long |-> FALSE, done |-> PopDone(t),
          res |-> IF PopDone(t) /\ cur[t].res # 0 THEN <<cur[t].res>> ELSE <<>>]
    ELSE [op |-> "none"]]
H == INSTANCE H_Queue WITH q <- qbar, pend <- pendbar, deque <- Deque
Refines == H!HSpecAny

\* liveness: every call returns
Progress == \A t \in Threads : (pc[t] # "idle") ~> (pc[t] = "idle")
=============================================================================
