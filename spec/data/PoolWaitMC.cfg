SPECIFICATION Spec
CONSTANTS Consumers = {1,2,3}
  NPush = 3
  SignalOnlyWhenEmpty = FALSE
INVARIANT NoLostWakeup
PROPERTY AllServed
CHECK_DEADLOCK FALSE
