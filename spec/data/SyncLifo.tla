------------------------------ MODULE SyncLifo ------------------------------
(* Level B: the lock-free LIFO of src/include/abti_sync_lifo.h (used by the
   memory pools for buckets and pages) with a tagged top pointer.
     push(e):  loop { (cur, tag) := non-atomic two-word load of top;
                      e.next := cur;  CAS(top: (cur, tag) -> (e, tag + 1)) }
     pop():    loop { (cur, tag) := load;  if cur = NULL return NULL;
                      nxt := cur.next;   CAS(top: (cur, tag) -> (nxt, tag + 1)) }
   The two words of `top` are loaded separately (the load may be torn); the
   CAS compares both.  Threads repeatedly pop an element, own it for a while
   and push it back.  Checked: every element is either in the list (exactly
   once) or owned by exactly one thread -- which fails (ABA) as soon as the
   tag is ignored (constant UseTag = FALSE, kept as a non-vacuity witness). *)
EXTENDS Naturals, Sequences, FiniteSets, TLC
CONSTANTS Threads, Elems, MaxOps, UseTag
VARIABLES top, tag, nxt, pc, cur, ctag, cnext, own, mine, nops
vars == <<top, tag, nxt, pc, cur, ctag, cnext, own, mine, nops>>
NULL == 0
Init == /\ top = NULL /\ tag = 0 /\ nxt = [e \in Elems |-> NULL]
        /\ pc = [t \in Threads |-> "idle"] /\ cur = [t \in Threads |-> NULL] /\ ctag = [t \in Threads |-> 0]
        /\ cnext = [t \in Threads |-> NULL]
        /\ own \in [Elems -> Threads]          \* initially every element is owned by some thread
        /\ mine = [t \in Threads |-> NULL]     \* the element a push is pushing
        /\ nops = [t \in Threads |-> 0]
Owned(t) == {e \in Elems : own[e] = t}
\* ---- push
BeginPush(t) == /\ pc[t] = "idle" /\ nops[t] < MaxOps /\ Owned(t) # {}
                /\ \E e \in Owned(t) : mine' = [mine EXCEPT ![t] = e] /\ own' = [own EXCEPT ![e] = NULL]
                /\ pc' = [pc EXCEPT ![t] = "push_ldp"] /\ nops' = [nops EXCEPT ![t] = @ + 1]
                /\ UNCHANGED <<top, tag, nxt, cur, ctag, cnext>>
LoadPtr(t, from, to) == /\ pc[t] = from /\ cur' = [cur EXCEPT ![t] = top] /\ pc' = [pc EXCEPT ![t] = to]
                        /\ UNCHANGED <<top, tag, nxt, ctag, cnext, own, mine, nops>>
LoadTag(t, from, to) == /\ pc[t] = from /\ ctag' = [ctag EXCEPT ![t] = tag] /\ pc' = [pc EXCEPT ![t] = to]
                        /\ UNCHANGED <<top, tag, nxt, cur, cnext, own, mine, nops>>
PushLink(t) == /\ pc[t] = "push_link" /\ nxt' = [nxt EXCEPT ![mine[t]] = cur[t]] /\ pc' = [pc EXCEPT ![t] = "push_cas"]
               /\ UNCHANGED <<top, tag, cur, ctag, cnext, own, mine, nops>>
Match(t) == top = cur[t] /\ (UseTag => tag = ctag[t])
PushCas(t) == /\ pc[t] = "push_cas"
              /\ IF Match(t) THEN /\ top' = mine[t] /\ tag' = tag + 1 /\ pc' = [pc EXCEPT ![t] = "idle"]
                                  /\ mine' = [mine EXCEPT ![t] = NULL]
                             ELSE /\ pc' = [pc EXCEPT ![t] = "push_ldp"] /\ UNCHANGED <<top, tag, mine>>
              /\ UNCHANGED <<nxt, cur, ctag, cnext, own, nops>>
\* ---- pop
BeginPop(t) == /\ pc[t] = "idle" /\ nops[t] < MaxOps
               /\ pc' = [pc EXCEPT ![t] = "pop_ldp"] /\ nops' = [nops EXCEPT ![t] = @ + 1]
               /\ UNCHANGED <<top, tag, nxt, cur, ctag, cnext, own, mine>>
PopNull(t) == /\ pc[t] = "pop_chk"
              /\ IF cur[t] = NULL THEN pc' = [pc EXCEPT ![t] = "idle"] ELSE pc' = [pc EXCEPT ![t] = "pop_next"]
              /\ UNCHANGED <<top, tag, nxt, cur, ctag, cnext, own, mine, nops>>
PopNext(t) == /\ pc[t] = "pop_next" /\ cnext' = [cnext EXCEPT ![t] = nxt[cur[t]]] /\ pc' = [pc EXCEPT ![t] = "pop_cas"]
              /\ UNCHANGED <<top, tag, nxt, cur, ctag, own, mine, nops>>
PopCas(t) == /\ pc[t] = "pop_cas"
             /\ IF Match(t) THEN /\ top' = cnext[t] /\ tag' = tag + 1 /\ own' = [own EXCEPT ![cur[t]] = t]
                                 /\ pc' = [pc EXCEPT ![t] = "idle"]
                            ELSE /\ pc' = [pc EXCEPT ![t] = "pop_ldp"] /\ UNCHANGED <<top, tag, own>>
             /\ UNCHANGED <<nxt, cur, ctag, cnext, mine, nops>>
Step(t) == \/ BeginPush(t) \/ LoadPtr(t, "push_ldp", "push_ldt") \/ LoadTag(t, "push_ldt", "push_link") \/ PushLink(t) \/ PushCas(t)
           \/ BeginPop(t) \/ LoadPtr(t, "pop_ldp", "pop_ldt") \/ LoadTag(t, "pop_ldt", "pop_chk") \/ PopNull(t) \/ PopNext(t) \/ PopCas(t)
Next == \E t \in Threads : Step(t)
Spec == Init /\ [][Next]_vars
\* ---- properties
RECURSIVE Chain(_, _)
Chain(p, acc) == IF p = NULL \/ Len(acc) > Cardinality(Elems) THEN acc ELSE Chain(nxt[p], Append(acc, p))
InList == Chain(top, <<>>)
ListSet == {InList[i] : i \in 1..Len(InList)}
\* every element is in exactly one place: the list (once), a thread's hands, or an in-flight push
Conserved == /\ Len(InList) = Cardinality(ListSet)                                   \* no cycle / duplicate
             /\ \A e \in Elems : (IF e \in ListSet THEN 1 ELSE 0) + (IF own[e] # NULL THEN 1 ELSE 0)
                                  + Cardinality({t \in Threads : mine[t] = e}) = 1
=============================================================================
