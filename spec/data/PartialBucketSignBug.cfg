SPECIFICATION Spec
CONSTANTS N = 5
  MaxOps = 7
  SignBug = TRUE
INVARIANT CountExact Conserved
CHECK_DEADLOCK FALSE
