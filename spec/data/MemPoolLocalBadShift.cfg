SPECIFICATION Spec
CONSTANTS Locals = {1,2}
  H = 2
  MAXB = 2
  MaxPages = 2
  MaxHeld = 2
  BadShift = TRUE
INVARIANT Conservation
INVARIANT NoDuplicates
INVARIANT Shape
INVARIANT GlobalFull
CHECK_DEADLOCK FALSE
