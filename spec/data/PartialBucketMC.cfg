SPECIFICATION Spec
CONSTANTS N = 5
  MaxOps = 7
  SignBug = FALSE
INVARIANT CountExact Conserved
CHECK_DEADLOCK FALSE
