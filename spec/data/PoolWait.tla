------------------------------ MODULE PoolWait ------------------------------
(* Level B: the blocking pop of the FIFO_WAIT pool (src/pool/fifo_wait.c): a
   pthread mutex + condition variable around the unit queue, one action per
   step that another thread can observe.

   push:      lock; enqueue; pthread_cond_signal; unlock
   pop_wait:  lock; if (queue empty) pthread_cond_timedwait (releases the mutex,
              sleeps, re-acquires it when signalled or when the time is up);
              pop the head if there is one; unlock
              (no loop: a consumer that was woken for a unit which somebody else
               took in the meantime comes back empty-handed -- the callers retry)

   Checked: no lost wake-up -- whenever a consumer is asleep and has not been
   signalled, every unit in the queue is already "spoken for" by a consumer that
   has been signalled and not yet run (NoLostWakeup); consequently, with as
   many (retried) pops as pushes, every consumer ends with a unit (AllServed,
   under fairness; time limits are never reached).

   SignalOnlyWhenEmpty = TRUE is the seeded change C19-m5 ("a consumer sleeps
   only if it found the queue empty, so wake one only on the transition from
   empty to non-empty"): correct for one consumer, loses a wake-up for two.
   Non-vacuity witness.                                                      *)
EXTENDS Naturals, FiniteSets
CONSTANTS Consumers, NPush, SignalOnlyWhenEmpty
VARIABLES mtx, n, asleep, woken, cpc, got, pushed, ppc
vars == <<mtx, n, asleep, woken, cpc, got, pushed, ppc>>
None == 0
P == 99
Init == /\ mtx = None /\ n = 0 /\ asleep = {} /\ woken = {} /\ cpc = [c \in Consumers |-> "lock"]
        /\ got = [c \in Consumers |-> 0] /\ pushed = 0 /\ ppc = "lock"
\* ---- the producer: NPush single pushes
PLock == ppc = "lock" /\ pushed < NPush /\ mtx = None /\ mtx' = P /\ ppc' = "push" /\ UNCHANGED <<n, asleep, woken, cpc, got, pushed>>
PPush == /\ ppc = "push" /\ n' = n + 1 /\ pushed' = pushed + 1
         /\ IF (SignalOnlyWhenEmpty => n = 0) /\ asleep # {}
               THEN \E c \in asleep : asleep' = asleep \ {c} /\ woken' = woken \cup {c}
               ELSE UNCHANGED <<asleep, woken>>
         /\ ppc' = "unlock" /\ UNCHANGED <<mtx, cpc, got>>
PUnlock == ppc = "unlock" /\ mtx' = None /\ ppc' = "lock" /\ UNCHANGED <<n, asleep, woken, cpc, got, pushed>>
\* ---- a consumer: one blocking pop, retried until it has a unit
CLock(c) == /\ cpc[c] = "lock" /\ got[c] = 0 /\ mtx = None /\ mtx' = c /\ cpc' = [cpc EXCEPT ![c] = "test"]
            /\ UNCHANGED <<n, asleep, woken, got, pushed, ppc>>
CTest(c) == /\ cpc[c] = "test"
            /\ IF n = 0 THEN /\ asleep' = asleep \cup {c} /\ mtx' = None /\ cpc' = [cpc EXCEPT ![c] = "sleep"]
                        ELSE /\ cpc' = [cpc EXCEPT ![c] = "pop"] /\ UNCHANGED <<asleep, mtx>>
            /\ UNCHANGED <<n, woken, got, pushed, ppc>>
\* signalled: re-acquire the mutex
CWake(c) == /\ cpc[c] = "sleep" /\ c \in woken /\ mtx = None /\ mtx' = c /\ woken' = woken \ {c}
            /\ cpc' = [cpc EXCEPT ![c] = "pop"] /\ UNCHANGED <<n, asleep, got, pushed, ppc>>
CPop(c) == /\ cpc[c] = "pop"
           /\ IF n > 0 THEN n' = n - 1 /\ got' = [got EXCEPT ![c] = 1] ELSE UNCHANGED <<n, got>>
           /\ mtx' = None /\ cpc' = [cpc EXCEPT ![c] = "lock"]     \* (retry if empty-handed)
           /\ UNCHANGED <<asleep, woken, pushed, ppc>>
Next == PLock \/ PPush \/ PUnlock \/ \E c \in Consumers : CLock(c) \/ CTest(c) \/ CWake(c) \/ CPop(c)
Spec == Init /\ [][Next]_vars /\ WF_vars(Next)
\* (consumers that were signalled, or that are about to pop under the mutex, will take a unit each)
NoLostWakeup == asleep # {} => n <= Cardinality(woken \cup {c \in Consumers : cpc[c] = "pop"})
AllServed == <>(\A c \in Consumers : got[c] = 1)
=============================================================================
