SPECIFICATION Spec
CONSTANTS
  Threads = {1,2}
  Units = {1,2}
  MaxOps = 2
  Deque = FALSE
INVARIANTS TypeOK FlagExact MutualExclusion NoDup InPoolExact Conserved
PROPERTY Refines
CHECK_DEADLOCK FALSE
