SPECIFICATION Spec
CONSTANTS Threads = {1,2}
  Elems = {1,2}
  MaxOps = 3
  UseTag = FALSE
INVARIANT Conserved
CHECK_DEADLOCK FALSE
