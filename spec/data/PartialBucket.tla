---------------------------- MODULE PartialBucket ----------------------------
(* Level B: how the global memory pool merges the incomplete buckets that local
   pools hand back when they are destroyed (src/mem/mem_pool.c,
   mem_pool_return_partial_bucket), as coded.

   The global pool keeps at most one partial bucket: a chain of free headers
   whose first header stores the chain's length.  Returning a bucket with B
   headers (0 < B < N):
     - no partial bucket yet: the returned one becomes it;
     - stored + B < N: walk (stored - 1) links from the head, append the returned
       chain there, stored := stored + B;
     - otherwise: walk (N - B - 1) links, cut behind that header; head .. cut
       plus the returned chain form a complete bucket (pushed to the bucket
       list); what is behind the cut becomes the new partial bucket with
       stored := (stored + B) - N.
   The model tracks the stored length and the real length of the chain.

   Checked: the stored length is the real one (CountExact), and no header is
   ever dropped (Conserved): lost = 0 and full * N + real = everything returned.

   SignBug = TRUE is the code before fix e8a2b62 (defect D6): the remainder was
   stored as N - (stored + B), a negative number; the next append then walked no
   link at all, linked the incoming chain behind the first header and dropped
   the rest.  Non-vacuity witness.                                           *)
EXTENDS Integers
CONSTANTS N, MaxOps, SignBug
VARIABLES stored, real, full, lost, given, ops
vars == <<stored, real, full, lost, given, ops>>
Init == stored = 0 /\ real = 0 /\ full = 0 /\ lost = 0 /\ given = 0 /\ ops = 0
\* number of headers from the head up to and including the header reached by `steps` links (never beyond the chain)
Reach(steps) == IF steps < 0 THEN 1 ELSE IF steps + 1 > real THEN real ELSE steps + 1
Return(b) ==
    /\ ops < MaxOps /\ ops' = ops + 1 /\ given' = given + b
    /\ IF real = 0
          THEN stored' = b /\ real' = b /\ UNCHANGED <<full, lost>>
          ELSE IF stored + b < N
                  THEN LET keep == Reach(stored - 1) IN
                       /\ real' = keep + b /\ lost' = lost + (real - keep)
                       /\ stored' = stored + b /\ UNCHANGED full
                  ELSE LET keep == Reach(N - b - 1) IN
                       /\ full' = full + 1
                       \* (the complete bucket is taken to hold N headers, whatever was linked)
                       /\ lost' = lost + (N - (keep + b))
                       /\ real' = real - keep
                       /\ stored' = (IF real - keep = 0 THEN 0
                                     ELSE IF SignBug THEN N - (stored + b) ELSE (stored + b) - N)
Next == \E b \in 1..(N - 1) : Return(b)
Spec == Init /\ [][Next]_vars
CountExact == stored = real
Conserved == lost = 0 /\ full * N + real = given
=============================================================================
