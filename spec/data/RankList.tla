------------------------------ MODULE RankList ------------------------------
(* C17.  Two levels in one module.

   Level A (variables live, xst): ranks of live execution streams.
     create(s, r)   r = -1: the smallest unused rank is assigned; otherwise r is
                    granted iff no live stream has it
     setrank(s, r)  granted iff r is s's own rank or unused
     free(s)        the rank becomes reusable
     num            = number of live streams
     join / revive  RUNNING -> TERMINATED -> RUNNING, any number of times

   Level B (variables head, nxt, prv): the rank-sorted doubly linked list of
   src/stream.c exactly as coded (xstream_add_xstream_list /
   xstream_remove_xstream_list), updated by the same actions.  TLC checks that
   the list always represents `live` (sorted, doubly consistent), i.e. that the
   pointer code implements the abstract rank set.                           *)
EXTENDS Naturals, Integers, FiniteSets, Sequences, TLC
CONSTANTS Streams, MaxRank, Primary   \* Primary: the primary stream, created by ABT_init with rank 0
VARIABLES live,   \* live[s] = rank, for s in DOMAIN live
          xst,    \* xst[s] \in {"none", "running", "terminated"}
          head, nxt, prv   \* the linked list (0 = NULL)
vars == <<live, xst, head, nxt, prv>>
Ranks == 0..MaxRank
Used == {live[s] : s \in DOMAIN live}
SmallestUnused == CHOOSE r \in 0..(MaxRank + 1) : r \notin Used /\ \A q \in 0..(MaxRank + 1) : q < r => q \in Used
Put(f, k, e) == [x \in DOMAIN f \cup {k} |-> IF x = k THEN e ELSE f[x]]
Del(f, k) == [x \in DOMAIN f \ {k} |-> f[x]]

Init == /\ live = (Primary :> 0) /\ xst = [s \in Streams |-> IF s = Primary THEN "running" ELSE "none"]
        /\ head = Primary /\ nxt = [s \in Streams |-> 0] /\ prv = [s \in Streams |-> 0]

\* ---- Level B: pointer manipulation as coded
RECURSIVE FindPos(_, _, _, _, _)
\* walk from p (with predecessor q) to the first node whose rank is > r: returns <<prev, node>>
FindPos(q, p, r, rk, n) == IF p = 0 THEN <<q, 0>>
                           ELSE IF rk[p] > r THEN <<q, p>>
                           ELSE FindPos(p, n[p], r, rk, n)
ListAdd(s, r, rk, h, n, p) ==
    \* h, n, p: current head / next / prev; result <<head', nxt', prv'>>
    LET pos == FindPos(h, h, r, rk, n)
        pr == pos[1]
        x == pos[2]
    IN IF x = 0
       THEN IF pr # 0 THEN <<h, [n EXCEPT ![pr] = s, ![s] = 0], [p EXCEPT ![s] = pr]>>
                      ELSE <<s, [n EXCEPT ![s] = 0], [p EXCEPT ![s] = 0]>>
       ELSE IF p[x] # 0
            THEN <<h, [n EXCEPT ![p[x]] = s, ![s] = x], [p EXCEPT ![s] = p[x], ![x] = s]>>
            \* inserting before the first element: the code does not reset s's stale p_prev.
            \* Unreachable: the primary stream owns rank 0 for the whole life of the runtime
            \* (checked: HeadIsPrimary), so no other stream is ever inserted at the head.
            ELSE <<s, [n EXCEPT ![s] = x], [p EXCEPT ![x] = s]>>
ListRemove(s, h, n, p) ==
    LET h2 == IF p[s] = 0 THEN n[s] ELSE h
        n2 == IF p[s] = 0 THEN n ELSE [n EXCEPT ![p[s]] = n[s]]
        p2 == IF n[s] # 0 THEN [p EXCEPT ![n[s]] = p[s]] ELSE p
    IN <<h2, n2, p2>>

\* ---- actions (abstract effect + list effect)
Create(s, req) ==
    /\ xst[s] = "none"
    /\ (req # -1 => req \notin Used)
    /\ LET r == IF req = -1 THEN SmallestUnused ELSE req
           rk == [x \in Streams |-> IF x \in DOMAIN live THEN live[x] ELSE IF x = s THEN r ELSE -1]
           \* the new descriptor comes from malloc: p_prev/p_next are set to NULL by xstream_create
           l == ListAdd(s, r, rk, head, [nxt EXCEPT ![s] = 0], [prv EXCEPT ![s] = 0])
       IN /\ r <= MaxRank
          /\ live' = Put(live, s, r) /\ xst' = [xst EXCEPT ![s] = "running"]
          /\ head' = l[1] /\ nxt' = l[2] /\ prv' = l[3]
CreateRefused(s, req) == xst[s] = "none" /\ req \in Used /\ UNCHANGED vars
SetRank(s, r) ==
    /\ s # Primary                                  \* ABT_ERR_INV_XSTREAM for the primary stream
    /\ s \in DOMAIN live /\ (r = live[s] \/ r \notin Used)
    /\ IF r = live[s] THEN UNCHANGED vars
       ELSE LET rm == ListRemove(s, head, nxt, prv)
                rk == [x \in Streams |-> IF x = s THEN r ELSE IF x \in DOMAIN live THEN live[x] ELSE -1]
                \* (the removed node keeps its stale p_prev / p_next)
                l == ListAdd(s, r, rk, rm[1], rm[2], rm[3])
            IN /\ live' = [live EXCEPT ![s] = r] /\ UNCHANGED xst
               /\ head' = l[1] /\ nxt' = l[2] /\ prv' = l[3]
SetRankRefused(s, r) == s \in DOMAIN live /\ r # live[s] /\ r \in Used /\ UNCHANGED vars
Join(s) == s # Primary /\ xst[s] = "running" /\ xst' = [xst EXCEPT ![s] = "terminated"] /\ UNCHANGED <<live, head, nxt, prv>>
Revive(s) == xst[s] = "terminated" /\ xst' = [xst EXCEPT ![s] = "running"] /\ UNCHANGED <<live, head, nxt, prv>>
Free(s) == /\ s # Primary /\ xst[s] \in {"running", "terminated"}
           /\ LET rm == ListRemove(s, head, nxt, prv) IN head' = rm[1] /\ nxt' = rm[2] /\ prv' = rm[3]
           /\ live' = Del(live, s) /\ xst' = [xst EXCEPT ![s] = "none"]
Next == \E s \in Streams : \/ (\E r \in Ranks \cup {-1} : Create(s, r) \/ CreateRefused(s, r))
                           \/ (\E r \in Ranks : SetRank(s, r) \/ SetRankRefused(s, r))
                           \/ Join(s) \/ Revive(s) \/ Free(s)
Spec == Init /\ [][Next]_vars

\* ---- properties
HeadIsPrimary == head = Primary /\ live[Primary] = 0
Distinct == \A a, b \in DOMAIN live : a # b => live[a] # live[b]
RECURSIVE Walk(_, _)
Walk(p, acc) == IF p = 0 \/ Len(acc) > Cardinality(Streams) THEN acc ELSE Walk(nxt[p], Append(acc, p))
ListSeq == Walk(head, <<>>)
\* the list holds exactly the live streams, sorted by rank, and p_prev of every
\* non-head element points to its predecessor (the head's p_prev may be stale: it is never read)
ListRepresentsLive ==
    /\ {ListSeq[i] : i \in 1..Len(ListSeq)} = DOMAIN live
    /\ Len(ListSeq) = Cardinality(DOMAIN live)
    /\ \A i \in 1..(Len(ListSeq) - 1) : live[ListSeq[i]] < live[ListSeq[i + 1]]
    /\ \A i \in 2..Len(ListSeq) : prv[ListSeq[i]] = ListSeq[i - 1]
=============================================================================
