----------------------------- MODULE KTableChain -----------------------------
(* Level B: one hash chain of a work unit's key table (C16) as coded in
   abti_key.h (ABTI_ktable_set_impl with is_safe, ABTI_ktable_get), one action
   per shared-memory access.

   set(k, v):  walk the chain WITHOUT the lock (acquire loads); if an element
               with key k exists, store the value into it; otherwise take the
               table lock, RELOAD the link where the walk ended (the chain may
               have been extended meanwhile) and walk on; append a new element
               with a release store to the last link; unlock.
   get(k):     walk the chain without the lock.

   Every key has a single writer (the owner of the work unit for its keys,
   another work unit through ABT_thread_set_specific for others), so the
   value of a key is a register; different keys collide in the chain.

   Checked: once set(k, v) has returned, the chain reachable from the head
   holds exactly one element for k and it carries the last value written; no
   element is ever unlinked; a get that starts after the set returned finds
   it.

   NoRescan = TRUE skips the reload after taking the lock (a writer that holds
   a stale end of the chain overwrites the link and unlinks what the other
   writer appended).  Non-vacuity witness: TLC must reject it.             *)
EXTENDS Naturals, Sequences, FiniteSets
CONSTANTS Writers, Plan, MaxElems, NoRescan
\* Plan[w]: the sequence of <<key, value>> pairs writer w sets (keys of different writers are disjoint)
VARIABLES head, elem, nel, lock, pc, loc, todo, last, gk, gpc, gcur, gbad
vars == <<head, elem, nel, lock, pc, loc, todo, last, gk, gpc, gcur, gbad>>
Keys == UNION {{Plan[w][i][1] : i \in 1..Len(Plan[w])} : w \in Writers}
NoElem == [key |-> 0, val |-> 0, nxt |-> 0]
Init == /\ head = 0 /\ elem = [i \in 1..MaxElems |-> NoElem] /\ nel = 0 /\ lock = 0
        /\ pc = [w \in Writers |-> "idle"] /\ loc = [w \in Writers |-> 0] /\ todo = Plan
        /\ last = [k \in Keys |-> 0] /\ gk = 0 /\ gpc = "idle" /\ gcur = 0 /\ gbad = FALSE
Deref(l) == IF l = 0 THEN head ELSE elem[l].nxt          \* l = 0: the bucket head; l = i: the p_next field of element i
Key(w) == todo[w][1][1]
Val(w) == todo[w][1][2]
Finish(w) == /\ todo' = [todo EXCEPT ![w] = Tail(@)] /\ last' = [last EXCEPT ![Key(w)] = Val(w)]
             /\ pc' = [pc EXCEPT ![w] = "idle"] /\ loc' = [loc EXCEPT ![w] = 0]
Begin(w) == /\ pc[w] = "idle" /\ todo[w] # <<>> /\ pc' = [pc EXCEPT ![w] = "walk"] /\ loc' = [loc EXCEPT ![w] = 0]
            /\ UNCHANGED <<head, elem, nel, lock, todo, last, gk, gpc, gcur, gbad>>
\* one step of the unlocked walk
Walk(w) == /\ pc[w] = "walk"
           /\ LET p == Deref(loc[w]) IN
              IF p = 0 THEN /\ pc' = [pc EXCEPT ![w] = "lock"] /\ UNCHANGED <<elem, loc, todo, last>>
              ELSE IF elem[p].key = Key(w) THEN elem' = [elem EXCEPT ![p].val = Val(w)] /\ Finish(w)
              ELSE loc' = [loc EXCEPT ![w] = p] /\ UNCHANGED <<elem, pc, todo, last>>
           /\ UNCHANGED <<head, nel, lock, gk, gpc, gcur, gbad>>
Lock(w) == /\ pc[w] = "lock" /\ lock = 0 /\ lock' = w /\ pc' = [pc EXCEPT ![w] = IF NoRescan THEN "append" ELSE "rescan"]
           /\ UNCHANGED <<head, elem, nel, loc, todo, last, gk, gpc, gcur, gbad>>
\* under the lock: reload the link where the walk ended and walk on
Rescan(w) == /\ pc[w] = "rescan"
             /\ LET p == Deref(loc[w]) IN
                IF p = 0 THEN pc' = [pc EXCEPT ![w] = "append"] /\ UNCHANGED <<elem, loc, todo, last, lock>>
                ELSE IF elem[p].key = Key(w) THEN elem' = [elem EXCEPT ![p].val = Val(w)] /\ lock' = 0 /\ Finish(w)
                ELSE loc' = [loc EXCEPT ![w] = p] /\ UNCHANGED <<elem, pc, todo, last, lock>>
             /\ UNCHANGED <<head, nel, gk, gpc, gcur, gbad>>
AppendNew(w) == /\ pc[w] = "append" /\ nel < MaxElems
             /\ LET n == nel + 1 IN
                /\ nel' = n
                /\ IF loc[w] = 0 THEN head' = n /\ elem' = [elem EXCEPT ![n] = [key |-> Key(w), val |-> Val(w), nxt |-> 0]]
                   ELSE head' = head /\ elem' = [elem EXCEPT ![n] = [key |-> Key(w), val |-> Val(w), nxt |-> 0], ![loc[w]].nxt = n]
             /\ lock' = 0 /\ Finish(w)
             /\ UNCHANGED <<gk, gpc, gcur, gbad>>
\* a reader looks up a key whose set has returned
GBegin(k) == /\ gpc = "idle" /\ last[k] # 0 /\ (\A w \in Writers : IF pc[w] = "idle" THEN TRUE ELSE Key(w) # k)
             /\ gk' = k /\ gpc' = "walk" /\ gcur' = head
             /\ UNCHANGED <<head, elem, nel, lock, pc, loc, todo, last, gbad>>
GWalk == /\ gpc = "walk"
         /\ IF gcur = 0 THEN gbad' = TRUE /\ gpc' = "idle" /\ UNCHANGED gcur       \* not found although it was set
            ELSE IF elem[gcur].key = gk THEN gpc' = "idle" /\ UNCHANGED <<gcur, gbad>>
            ELSE gcur' = elem[gcur].nxt /\ UNCHANGED <<gpc, gbad>>
         /\ UNCHANGED <<head, elem, nel, lock, pc, loc, todo, last, gk>>
Next == \/ \E w \in Writers : Begin(w) \/ Walk(w) \/ Lock(w) \/ Rescan(w) \/ AppendNew(w)
        \/ \E k \in Keys : GBegin(k)
        \/ GWalk
Spec == Init /\ [][Next]_vars
RECURSIVE Reach(_, _)
Reach(p, fuel) == IF p = 0 \/ fuel = 0 THEN {} ELSE {p} \cup Reach(elem[p].nxt, fuel - 1)
Chain == Reach(head, MaxElems + 1)
Busy(k) == \E w \in Writers : IF pc[w] = "idle" THEN FALSE ELSE Key(w) = k
\* every key whose set has returned is in the chain exactly once with its last value
SetIsKept == \A k \in Keys : last[k] # 0 /\ ~Busy(k) =>
                 /\ Cardinality({p \in Chain : elem[p].key = k}) = 1
                 /\ \A p \in Chain : elem[p].key = k => elem[p].val = last[k]
\* nothing that was linked is ever lost
NothingUnlinked == Chain = 1..nel \/ \E w \in Writers : pc[w] = "append"   \* (an element being built is not counted)
NoMissedGet == ~gbad
=============================================================================
