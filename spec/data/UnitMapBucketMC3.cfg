SPECIFICATION Spec
CONSTANTS Writers = {1,2,3}
  Addrs = {11,12}
  MaxEntries = 4
  Rounds = 2
  FreeBeforeUnmap = FALSE
INVARIANT LookupsRight
INVARIANT OneEntryPerUnit
INVARIANT MutexOK
CHECK_DEADLOCK FALSE
