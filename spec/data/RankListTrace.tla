--------------------------- MODULE RankListTrace ---------------------------
(* Validates recorded stream life-cycle histories (driver d_stream) against
   RankList: sequential scenarios record each call with its result; the
   concurrent scenario records Call/Ret of create/free issued by several
   threads and is accepted iff some linearization explains it. *)
EXTENDS RankList, Json, IOUtils
TraceLog == ndJsonDeserialize(IOEnv.TRACE)
VARIABLES l, pend
tvars == <<live, xst, head, nxt, prv, l, pend>>
Ev == TraceLog[l]
More == l <= Len(TraceLog)
Is(e) == More /\ Ev.e = e /\ l' = l + 1
Idle == [op |-> "none"]
TInit == Init /\ l = 1 /\ pend = [t \in 0..4 |-> Idle]
Keep == UNCHANGED pend
RankOf(s) == IF s \in DOMAIN live THEN live[s] ELSE -1
TNext ==
    \/ (Is("Reset") /\ live' = (Primary :> 0) /\ xst' = [s \in Streams |-> IF s = Primary THEN "running" ELSE "none"]
        /\ head' = Primary /\ nxt' = [s \in Streams |-> 0] /\ prv' = [s \in Streams |-> 0] /\ pend' = [t \in 0..4 |-> Idle])
    \* a refused request changes nothing; a granted one reports the rank the specification assigns
    \/ (Is("XCreate") /\ Keep /\ IF Ev.ret = 0 THEN Create(Ev.s, Ev.req) /\ live'[Ev.s] = Ev.rank
                                               ELSE CreateRefused(Ev.s, Ev.req))
    \/ (Is("XSetRank") /\ Keep /\ IF Ev.ret = 0 THEN SetRank(Ev.s, Ev.r) ELSE SetRankRefused(Ev.s, Ev.r) \/ (Ev.s = Primary /\ UNCHANGED vars))
    \/ (Is("XJoin") /\ Keep /\ Ev.ret = 0 /\ Ev.term = 1 /\ Join(Ev.s))
    \/ (Is("XRevive") /\ Keep /\ Ev.ret = 0 /\ Revive(Ev.s))
    \/ (Is("XFree") /\ Keep /\ Ev.ret = 0 /\ Free(Ev.s))
    \* a burst of concurrent create/join/free triples, all completed: the set of streams is what it was
    \/ (Is("XStress") /\ Keep /\ Ev.creates = Ev.frees /\ UNCHANGED vars)
    \/ (Is("XNum") /\ Keep /\ Ev.n = Cardinality(DOMAIN live) /\ UNCHANGED vars)
    \/ (Is("XRank") /\ Keep /\ Ev.rank = RankOf(Ev.s) /\ UNCHANGED vars)
    \* work pushed to a live, running stream completes there and sees the stream's rank
    \/ (Is("XWork") /\ Keep /\ xst[Ev.s] = "running" /\ Ev.done = 1 /\ Ev.rank = RankOf(Ev.s) /\ UNCHANGED vars)
    \* the life cycle is repeatable without anything piling up: after a warm-up, n further create / work / join / revive /
    \* free cycles leave the number (and size) of blocks held from the system allocator where it was (two blocks of slack)
    \/ (Is("XCycle") /\ Keep /\ Ev.live1 <= Ev.live0 + 2 /\ Ev.kb1 <= Ev.kb0 + 4096 /\ UNCHANGED vars)
    \/ (Is("XSched") /\ Keep /\ Ev.ret = 0 /\ UNCHANGED vars)
    \/ (Is("End") /\ Keep /\ UNCHANGED vars)
    \* ---- concurrent creators: linearizability
    \/ (Is("XCall") /\ pend[Ev.t].op = "none" /\ pend' = [pend EXCEPT ![Ev.t] = [op |-> Ev.op, s |-> Ev.s, done |-> FALSE, rank |-> -1]]
        /\ UNCHANGED vars)
    \/ (Is("XRet") /\ pend[Ev.t].op = Ev.op /\ pend[Ev.t].done /\ (Ev.op = "create" => Ev.rank = pend[Ev.t].rank)
        /\ pend' = [pend EXCEPT ![Ev.t] = Idle] /\ UNCHANGED vars)
    \/ (More /\ Ev.e = "XRet" /\ ~pend[Ev.t].done /\ UNCHANGED l /\
        \E t \in 0..4 : /\ pend[t].op # "none" /\ ~pend[t].done
                        /\ IF pend[t].op = "create"
                           THEN Create(pend[t].s, -1) /\ pend' = [pend EXCEPT ![t].done = TRUE, ![t].rank = live'[pend[t].s]]
                           ELSE Free(pend[t].s) /\ pend' = [pend EXCEPT ![t].done = TRUE])
TSpec == TInit /\ [][TNext]_tvars
NotAccepted == l <= Len(TraceLog)
TrackMax == TLCSet(1, IF TLCGet(1) < l THEN l ELSE TLCGet(1))
ASSUME TLCSet(1, 0)
Post == PrintT(<<"MAXL", TLCGet(1)>>)
=============================================================================
