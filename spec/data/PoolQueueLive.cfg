SPECIFICATION FairSpec
CONSTANTS
  Threads = {1,2}
  Units = {1,2}
  MaxOps = 2
  Deque = FALSE
PROPERTY Progress
CHECK_DEADLOCK FALSE
