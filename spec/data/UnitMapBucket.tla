---------------------------- MODULE UnitMapBucket ----------------------------
(* Level B: one bucket of the unit -> work-unit hash table of user-defined
   pools as coded in src/unit.c, one action per shared-memory access.

     map(u, t)   under the bucket lock: reuse the first entry whose unit is NULL
                 (tombstone) -- store unit, then p_thread -- or allocate a new
                 entry and release-store it as the new head
     unmap(u)    under the lock: find the entry with that unit, store NULL
     get(u)      WITHOUT the lock: acquire-load the head, walk the chain, return
                 p_thread of the entry whose unit is u (entries are never
                 unlinked, so the walk is safe)

   Writers take a unit address from the user's free list (create_unit), map
   it, look it up, unmap it and hand the address back (free_unit) -- in this
   order in the code (ABTI_thread_unset_associated_pool: unmap, then
   free_unit).  A reader keeps looking up a unit that stays mapped.

   Checked: every lookup of a unit that is mapped for the whole duration of the
   lookup returns the work unit it was mapped to, and never runs off the end
   of the chain -- whatever other writers do in the same bucket (tombstone
   reuse, new heads).

   FreeBeforeUnmap = TRUE hands the address back before unmapping it; another
   writer may then map the same address, and the late unmap clears the wrong
   entry.  Kept as a non-vacuity witness: TLC must reject it.                 *)
EXTENDS Naturals, FiniteSets, Sequences
CONSTANTS Writers, Addrs, MaxEntries, Rounds, FreeBeforeUnmap
Static == 100          \* the unit that stays mapped; its owner is "s"
NoUnit == 0
None == 0
VARIABLES ent,    \* ent[i] = [unit, thr, nxt] for the allocated entries 1..nent
          nent, head, lock, free,
          wpc, wa, wcur, wround,    \* writers: program counter, address, cursor
          rpc, rcur,                \* reader
          bad
vars == <<ent, nent, head, lock, free, wpc, wa, wcur, wround, rpc, rcur, bad>>
Entry(u, t, n) == [unit |-> u, thr |-> t, nxt |-> n]
Init == /\ ent = [i \in 1..MaxEntries |-> IF i = 1 THEN Entry(Static, "s", None) ELSE Entry(NoUnit, "-", None)]
        /\ nent = 1 /\ head = 1 /\ lock = None /\ free = Addrs
        /\ wpc = [w \in Writers |-> "idle"] /\ wa = [w \in Writers |-> NoUnit] /\ wcur = [w \in Writers |-> None]
        /\ wround = [w \in Writers |-> 0]
        /\ rpc = "start" /\ rcur = None /\ bad = FALSE
\* ---------------------------------------------------------------- writer
Take(w) == /\ wpc[w] = "idle" /\ wround[w] < Rounds /\ free # {}
           /\ \E a \in free : wa' = [wa EXCEPT ![w] = a] /\ free' = free \ {a}
           /\ wpc' = [wpc EXCEPT ![w] = "maplock"] /\ wround' = [wround EXCEPT ![w] = @ + 1]
           /\ UNCHANGED <<ent, nent, head, lock, wcur, rpc, rcur, bad>>
MapLock(w) == /\ wpc[w] = "maplock" /\ lock = None /\ lock' = w
              /\ wcur' = [wcur EXCEPT ![w] = head] /\ wpc' = [wpc EXCEPT ![w] = "mapscan"]
              /\ UNCHANGED <<ent, nent, head, free, wa, wround, rpc, rcur, bad>>
MapScan(w) == /\ wpc[w] = "mapscan"
              /\ IF wcur[w] = None
                 THEN /\ nent < MaxEntries    \* allocate a new entry and publish it as the head
                      /\ ent' = [ent EXCEPT ![nent + 1] = Entry(wa[w], w, head)]
                      /\ nent' = nent + 1 /\ head' = nent + 1
                      /\ wpc' = [wpc EXCEPT ![w] = "mapunlock"] /\ UNCHANGED wcur
                 ELSE IF ent[wcur[w]].unit = NoUnit
                      THEN /\ ent' = [ent EXCEPT ![wcur[w]].unit = wa[w]]     \* the unit first ...
                           /\ wpc' = [wpc EXCEPT ![w] = "mapthr"] /\ UNCHANGED <<nent, head, wcur>>
                      ELSE /\ wcur' = [wcur EXCEPT ![w] = ent[wcur[w]].nxt]
                           /\ UNCHANGED <<ent, nent, head, wpc>>
              /\ UNCHANGED <<lock, free, wa, wround, rpc, rcur, bad>>
MapThr(w) == /\ wpc[w] = "mapthr" /\ ent' = [ent EXCEPT ![wcur[w]].thr = w]      \* ... then the work unit
             /\ wpc' = [wpc EXCEPT ![w] = "mapunlock"]
             /\ UNCHANGED <<nent, head, lock, free, wa, wcur, wround, rpc, rcur, bad>>
MapUnlock(w) == /\ wpc[w] = "mapunlock" /\ lock' = None
                /\ wcur' = [wcur EXCEPT ![w] = None] /\ wpc' = [wpc EXCEPT ![w] = "getstart"]
                /\ UNCHANGED <<ent, nent, head, free, wa, wround, rpc, rcur, bad>>
\* the owner looks its own (mapped) unit up, without the lock
GetStart(w) == /\ wpc[w] = "getstart" /\ wcur' = [wcur EXCEPT ![w] = head] /\ wpc' = [wpc EXCEPT ![w] = "getwalk"]
               /\ UNCHANGED <<ent, nent, head, lock, free, wa, wround, rpc, rcur, bad>>
GetWalk(w) == /\ wpc[w] = "getwalk"
              /\ IF wcur[w] = None
                 THEN bad' = TRUE /\ wpc' = [wpc EXCEPT ![w] = "done"] /\ UNCHANGED wcur
                 ELSE IF ent[wcur[w]].unit = wa[w]
                      THEN /\ bad' = (bad \/ ent[wcur[w]].thr # w)
                           /\ wpc' = [wpc EXCEPT ![w] = IF FreeBeforeUnmap THEN "free" ELSE "unmaplock"] /\ UNCHANGED wcur
                      ELSE wcur' = [wcur EXCEPT ![w] = ent[wcur[w]].nxt] /\ UNCHANGED <<wpc, bad>>
              /\ UNCHANGED <<ent, nent, head, lock, free, wa, wround, rpc, rcur>>
UnmapLock(w) == /\ wpc[w] = "unmaplock" /\ lock = None /\ lock' = w
                /\ wcur' = [wcur EXCEPT ![w] = head] /\ wpc' = [wpc EXCEPT ![w] = "unmapscan"]
                /\ UNCHANGED <<ent, nent, head, free, wa, wround, rpc, rcur, bad>>
UnmapScan(w) == /\ wpc[w] = "unmapscan"
                /\ IF wcur[w] = None
                   THEN bad' = TRUE /\ wpc' = [wpc EXCEPT ![w] = "unmapunlock"] /\ UNCHANGED <<ent, wcur>>   \* "unmap() must succeed"
                   ELSE IF ent[wcur[w]].unit = wa[w]
                        THEN /\ ent' = [ent EXCEPT ![wcur[w]].unit = NoUnit]
                             /\ wpc' = [wpc EXCEPT ![w] = "unmapunlock"] /\ UNCHANGED <<wcur, bad>>
                        ELSE wcur' = [wcur EXCEPT ![w] = ent[wcur[w]].nxt] /\ UNCHANGED <<ent, wpc, bad>>
                /\ UNCHANGED <<nent, head, lock, free, wa, wround, rpc, rcur>>
UnmapUnlock(w) == /\ wpc[w] = "unmapunlock" /\ lock' = None /\ wcur' = [wcur EXCEPT ![w] = None]
                  /\ wpc' = [wpc EXCEPT ![w] = IF FreeBeforeUnmap THEN "idle" ELSE "free"]
                  /\ UNCHANGED <<ent, nent, head, free, wa, wround, rpc, rcur, bad>>
\* free_unit: the address may be handed out again
Free(w) == /\ wpc[w] = "free" /\ free' = free \cup {wa[w]}
           /\ wpc' = [wpc EXCEPT ![w] = IF FreeBeforeUnmap THEN "unmaplock" ELSE "idle"]
           /\ UNCHANGED <<ent, nent, head, lock, wa, wcur, wround, rpc, rcur, bad>>
\* ---------------------------------------------------------------- reader of the static unit
RStart == /\ rpc = "start" /\ rcur' = head /\ rpc' = "walk"
          /\ UNCHANGED <<ent, nent, head, lock, free, wpc, wa, wcur, wround, bad>>
RWalk == /\ rpc = "walk"
         /\ IF rcur = None THEN bad' = TRUE /\ rpc' = "start" /\ UNCHANGED rcur
            ELSE IF ent[rcur].unit = Static
                 THEN bad' = (bad \/ ent[rcur].thr # "s") /\ rpc' = "start" /\ UNCHANGED rcur
                 ELSE rcur' = ent[rcur].nxt /\ UNCHANGED <<rpc, bad>>
         /\ UNCHANGED <<ent, nent, head, lock, free, wpc, wa, wcur, wround>>
Next == \/ RStart \/ RWalk
        \/ \E w \in Writers : Take(w) \/ MapLock(w) \/ MapScan(w) \/ MapThr(w) \/ MapUnlock(w) \/ GetStart(w) \/ GetWalk(w)
                              \/ UnmapLock(w) \/ UnmapScan(w) \/ UnmapUnlock(w) \/ Free(w)
Spec == Init /\ [][Next]_vars
LookupsRight == ~bad
\* a unit is mapped by at most one entry
OneEntryPerUnit == \A i, j \in 1..nent : i # j /\ ent[i].unit # NoUnit => ent[i].unit # ent[j].unit
MutexOK == lock \in Writers \cup {None}
=============================================================================
