SPECIFICATION Spec
CONSTANTS Locals = {1}
  H = 2
  MAXB = 2
  MaxPages = 4
  MaxHeld = 7
  BadShift = FALSE
INVARIANT Conservation
INVARIANT NoDuplicates
INVARIANT Shape
INVARIANT GlobalFull
CHECK_DEADLOCK FALSE
