SPECIFICATION Spec
CONSTANTS Writers = {1,2}
  Plan <- PlanC
  MaxElems = 4
  NoRescan = FALSE
INVARIANT SetIsKept
INVARIANT NoMissedGet
CHECK_DEADLOCK FALSE
