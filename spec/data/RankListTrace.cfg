SPECIFICATION TSpec
CONSTANTS Streams = {1,2,3,4,5,6,7}
  MaxRank = 40
  Primary = 7
INVARIANT NotAccepted
CONSTRAINT TrackMax
POSTCONDITION Post
CHECK_DEADLOCK FALSE
