SPECIFICATION Spec
CONSTANTS Threads = {1,2}
  Elems = {1,2}
  MaxOps = 3
  UseTag = TRUE
INVARIANT Conserved
CHECK_DEADLOCK FALSE
